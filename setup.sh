#!/bin/bash
# builds /verif/.venv (python 3.12 of /venv + z3-solver, cvc5, icontract, deal, crosshair-tool from the offline wheelhouse)
set -e
cd "$(dirname "$0")"
if [ ! -x .venv/bin/python ] || ! .venv/bin/python -c "import z3, tangelo" >/dev/null 2>&1; then
  rm -rf .venv
  /venv/bin/python -m venv .venv
  PIP_NO_INDEX=1 .venv/bin/python -m pip install -q --no-index --find-links /opt/veriftools/wheels z3-solver cvc5 icontract deal crosshair-tool jsonschema >/dev/null 2>&1 || \
  PIP_NO_INDEX=1 .venv/bin/python -m pip install -q --no-index --find-links /opt/veriftools/wheels z3-solver
  echo "import site; site.addsitedir('/venv/lib/python3.12/site-packages')" > .venv/lib/python3.12/site-packages/_venv_overlay.pth
fi
.venv/bin/python -c "import z3, tangelo, numpy" 2>/dev/null
