#!/usr/bin/env python3
"""development aid: which statement lines of the functions under contract did NO contract run execute (natively: coverage.py; symbolically: interpreter record)?
   usage: TVERIF_COVER=/verif/out/cover ./check Cxx --tier quick (for every property), then tools/cover_audit.py [Cxx ...]
   The report lists, per function under contract (evidence/<id>.json: functions_under_contract), the source lines never executed - candidates for new structures."""
import ast, glob, json, os, sys
import coverage
D = os.environ.get("TVERIF_COVER", "/verif/out/cover")
REPO = os.environ.get("TVERIF_REPO", "/repo")
cov = coverage.CoverageData(basename=os.path.join(D, ".coverage.all"))
for f in glob.glob(os.path.join(D, ".coverage.[0-9]*")):
    c = coverage.CoverageData(basename=f)
    c.read()
    cov.update(c)
hit = {}
for fn in cov.measured_files():
    hit.setdefault(os.path.realpath(fn), set()).update(cov.lines(fn) or [])
for f in glob.glob(os.path.join(D, "interp.*.txt")):
    for l in open(f):
        fn, _, ln = l.strip().rpartition(":")
        if fn and fn != "?":
            hit.setdefault(os.path.realpath(fn), set()).add(int(ln))
props = sys.argv[1:] or [f"C{i:02d}" for i in range(1, 21)]
for p in props:
    ev = json.load(open(f"/verif/evidence/{p}.json"))
    funcs = ev["coverage"].get("functions_under_contract") or []
    print(f"== {p}: {len(funcs)} functions under contract")
    for fu in funcs:
        path = os.path.realpath(os.path.join(REPO, fu["file"]))
        src = open(path).read()
        tree = ast.parse(src)
        lo, hi = fu.get("first_line"), fu.get("last_line")
        if lo is None:
            continue
        stmts = set()
        for node in ast.walk(tree):
            if isinstance(node, ast.stmt) and lo <= node.lineno <= hi and not (isinstance(node, ast.Expr) and isinstance(node.value, ast.Constant)):
                if isinstance(node, (ast.FunctionDef, ast.ClassDef)) and node.lineno == lo:
                    continue
                stmts.add(node.lineno)
        miss = sorted(stmts - hit.get(path, set()))
        if miss:
            lines = src.split("\n")
            print(f"  {fu['file']}::{fu['qualname']}  {len(miss)}/{len(stmts)} statement lines never executed")
            for ln in miss[:40]:
                print(f"      {ln}: {lines[ln - 1].strip()[:150]}")
