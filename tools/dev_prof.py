import sys, os, json, cProfile, pstats, importlib
sys.path.insert(0, os.path.dirname(os.path.dirname(os.path.abspath(__file__))))
import warnings; warnings.filterwarnings("ignore")
import tangelo
from tverif.engine import CONTRACTS, run_task
prop, cid, idx = sys.argv[1], sys.argv[2], int(sys.argv[3])
importlib.import_module(f"contracts.{prop}")
st = CONTRACTS[cid].structures("quick")[idx]
print(st)
cProfile.run("r = run_task(cid, st)", "/tmp/prof.out")
pstats.Stats("/tmp/prof.out").sort_stats("cumulative").print_stats(35)
