#!/bin/bash
# confirm that the repository's relevant test modules still pass with each seeded change applied (scratch worktree, removed afterwards)
WT=/tmp/wt_seedchk
cd /repo && git worktree add -q --detach $WT HEAD
declare -A TESTS
TESTS[C01]="tangelo/linq/tests tangelo/toolboxes/ansatz_generator/tests/test_ansatz_util.py"
TESTS[C02]="tangelo/linq/tests tangelo/algorithms/variational/tests/test_vqe_solver.py"
TESTS[C06]="tangelo/toolboxes/ansatz_generator/tests tangelo/toolboxes/unitary_generator tangelo/toolboxes/circuits/tests/test_discrete_clock.py"
TESTS[C07]="tangelo/toolboxes/ansatz_generator/tests tangelo/algorithms/variational/tests/test_vqe_solver.py"
TESTS[C09]="tangelo/linq/tests tangelo/linq/helpers/circuits/tests tangelo/algorithms/projective/tests/test_iqpe.py"
TESTS[C11]="tangelo/linq/tests tangelo/toolboxes/unitary_generator tangelo/toolboxes/circuits/tests/test_lcu.py"
TESTS[C16]="tangelo/toolboxes/operators/tests tangelo/toolboxes/qubit_mappings/tests tangelo/toolboxes/ansatz_generator/tests"
TESTS[C18]="tangelo/toolboxes/post_processing/tests tangelo/toolboxes/measurements/tests"
for d in /verif/seeded/${1:-*}; do
  id=$(basename $d); prop=${id%%-*}
  [ -f $d/tests_confirmed.txt ] && continue
  cd $WT && git checkout -q -- . && git apply $d/patch.diff || { echo "$id: patch does not apply"; continue; }
  t="${TESTS[$prop]:-tangelo/linq/tests}"
  PYTHONPATH=$WT timeout 3000 /venv/bin/python -W ignore -m pytest -q -p no:cacheprovider $t 2>&1 | tail -15 > /tmp/seedtest_$id.txt
  { echo "cd <worktree> && PYTHONPATH=<worktree> /venv/bin/python -m pytest -q -p no:cacheprovider $t"; grep -E "passed|failed|FAILED" /tmp/seedtest_$id.txt; } > $d/tests_confirmed.txt
  echo "$id: $(tail -1 $d/tests_confirmed.txt)"
done
cd /repo && git worktree remove --force $WT
