#!/bin/bash
# confirm that the repository's relevant test modules still pass with each seeded change applied (scratch worktree, removed afterwards)
WT=${SEEDCHK_WT:-/tmp/wt_seedchk}
cd /repo && git worktree add -q --detach $WT HEAD
declare -A TESTS
TESTS[C01]="tangelo/linq/tests tangelo/toolboxes/ansatz_generator/tests/test_ansatz_util.py"
TESTS[C02]="tangelo/linq/tests tangelo/algorithms/variational/tests/test_vqe_solver.py"
TESTS[C06]="tangelo/toolboxes/ansatz_generator/tests tangelo/toolboxes/unitary_generator tangelo/toolboxes/circuits/tests/test_discrete_clock.py"
TESTS[C07]="tangelo/toolboxes/ansatz_generator/tests tangelo/algorithms/variational/tests/test_vqe_solver.py"
TESTS[C09]="tangelo/linq/tests tangelo/linq/helpers/circuits/tests tangelo/algorithms/projective/tests/test_iqpe.py"
TESTS[C11]="tangelo/linq/tests tangelo/toolboxes/unitary_generator tangelo/toolboxes/circuits/tests/test_lcu.py"
TESTS[C16]="tangelo/toolboxes/operators/tests tangelo/toolboxes/qubit_mappings/tests tangelo/toolboxes/ansatz_generator/tests"
TESTS[C18]="tangelo/toolboxes/post_processing/tests tangelo/toolboxes/measurements/tests"
TESTS[C03]="tangelo/toolboxes/qubit_mappings/tests tangelo/toolboxes/operators/tests"
TESTS[C05]="tangelo/toolboxes/qubit_mappings/tests tangelo/toolboxes/ansatz_generator/tests"
TESTS[C10]="tangelo/linq/tests tangelo/algorithms/projective/tests/test_iqpe.py tangelo/toolboxes/post_processing/tests/test_post_selection.py"
TESTS[C12]="tangelo/toolboxes/ansatz_generator/tests tangelo/algorithms/variational/tests/test_vqe_solver.py"
TESTS[C14]="tangelo/toolboxes/operators/tests tangelo/algorithms/variational/tests/test_iqcc_solver.py tangelo/algorithms/variational/tests/test_iqcc_ilc_solver.py"
TESTS[C15]="tangelo/problem_decomposition/tests/dmet"
TESTS[C17]="tangelo/linq/tests"
TESTS[C19]="tangelo/linq/tests tangelo/algorithms/projective/tests/test_qite.py"
TESTS[C20]="tangelo/linq/helpers/circuits/tests tangelo/linq/tests tangelo/algorithms/projective/tests/test_iqpe.py"
TESTS[C04]="tangelo/toolboxes/molecular_computation/tests"
TESTS[C08]="tangelo/algorithms/variational/tests/test_vqe_solver.py tangelo/algorithms/variational/tests/test_sa_vqe_solver.py"
TESTS[C13]="tangelo/toolboxes/molecular_computation/tests tangelo/algorithms/classical/tests"
for d in $(ls -d /verif/seeded/${1:-*}); do
  id=$(basename $d); prop=${id%%-*}
  [ -f $d/tests_confirmed.txt ] && continue
  cd $WT && git checkout -q -- . && git apply $d/patch.diff || { echo "$id: patch does not apply"; continue; }
  t="${TESTS[$prop]:-tangelo/linq/tests}"
  PYTHONPATH=$WT timeout 7000 /venv/bin/python -W ignore -m pytest -q -p no:cacheprovider $t 2>&1 | tail -15 > /tmp/seedtest_$id.txt
  { echo "cd <worktree> && PYTHONPATH=<worktree> /venv/bin/python -m pytest -q -p no:cacheprovider $t"; grep -E "passed|failed|FAILED" /tmp/seedtest_$id.txt; } > $d/tests_confirmed.txt
  python3 - $d/tests_confirmed.txt <<'PY' >> $d/tests_confirmed.txt
import json, re, sys
sp = set(json.load(open('/root/.vp/BASELINE.json'))['stable_pass'])
bad = []
for l in open(sys.argv[1]):
    m = re.match(r"FAILED (\S+?)\.py::(\S+)", l)
    if m:
        tid = m.group(1).replace('/', '.') + '.' + m.group(2)
        if tid in sp:
            bad.append(tid)
print("failing tests that belong to the baseline's stable_pass set:", bad or "none")
PY
  echo "$id: $(tail -2 $d/tests_confirmed.txt | tr '\n' ' ')"
done
cd /repo && git worktree remove --force $WT
