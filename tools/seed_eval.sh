#!/bin/bash
# usage: tools/seed_eval.sh <worktree> <seed-id> <prop> [<prop> ...]
# confirms the demonstration in the scratch worktree (fails with the change, passes without), stores the seed under /verif/seeded/<seed-id>/,
# then applies the patch to /repo, runs the given checks (quick tier) and restores /repo.
set -u
WT=$1; ID=$2; shift 2
OUT=/verif/seeded/$ID
mkdir -p $OUT
cp $WT/seed/patch.diff $OUT/patch.diff
cp $WT/seed/demo.py $OUT/demo.py
cp $WT/seed/meta.json $OUT/meta.agent.json 2>/dev/null
cd $WT
git diff --quiet && git apply $OUT/patch.diff
( cd $WT && PYTHONPATH=$WT timeout 900 /venv/bin/python seed/demo.py > $OUT/demo_with_change.txt 2>&1 ); RC_WITH=$?
git apply -R $OUT/patch.diff
( cd $WT && PYTHONPATH=$WT timeout 900 /venv/bin/python seed/demo.py > $OUT/demo_without_change.txt 2>&1 ); RC_WITHOUT=$?
git apply $OUT/patch.diff
echo "demo: with change rc=$RC_WITH, without change rc=$RC_WITHOUT"
# the checks read the tree named by TVERIF_REPO: the scratch worktree with the change applied (equivalent to `git -C /repo apply` + run + `git checkout -- .`,
# without disturbing other runs that read /repo); set SEED_IN_REPO=1 to do it on /repo itself
RES=""
if [ "${SEED_IN_REPO:-0}" = 1 ]; then
  cd /repo
  if ! git diff --quiet; then echo "/repo not clean"; exit 3; fi
  git apply $OUT/patch.diff || { echo "patch does not apply to /repo"; exit 3; }
  TREE=/repo
else
  ( cd $WT && git diff HEAD --stat -- tangelo | tail -1 )
  [ "$(git -C $WT rev-parse HEAD)" = "$(git -C /repo rev-parse HEAD)" ] || echo "note: worktree HEAD differs from /repo HEAD"
  TREE=$WT
fi
for P in "$@"; do
  ( cd /verif && TVERIF_REPO=$TREE ./check $P --tier quick > $OUT/check_$P.txt 2>&1 ); RC=$?
  NV=$(grep -c "^VIOLATION" $OUT/check_$P.txt)
  FIRST=$(grep -A1 "^VIOLATION" $OUT/check_$P.txt | grep obligation | head -1 | cut -c1-200)
  echo "check $P: exit=$RC violations=$NV $FIRST"
  RES="$RES $P:$RC:$NV"
done
if [ "${SEED_IN_REPO:-0}" = 1 ]; then git checkout -- . ; git status --short | grep -v egg-info; fi
echo "$RC_WITH $RC_WITHOUT $RES" > $OUT/result.txt
