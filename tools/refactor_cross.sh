#!/bin/bash
# every stored behaviour-preserving refactoring (refactored/<id>/patch.diff) is applied to a scratch worktree of /repo HEAD and EVERY property whose anchored files it touches is
# checked (quick tier): all must exit 0.   usage: tools/refactor_cross.sh [id ...]
cd /verif
ids="$@"; [ -z "$ids" ] && ids=$(ls refactored)
WT=${REFCROSS_WT:-/tmp/wt_refcross}
bad=0
for id in $ids; do
  git -C /repo worktree remove --force $WT >/dev/null 2>&1
  git -C /repo worktree add -q --detach $WT HEAD || exit 3
  if ! git -C $WT apply /verif/refactored/$id/patch.diff 2>/dev/null; then echo "$id: patch no longer applies"; bad=1; continue; fi
  props=$(python3 - $id <<'PY'
import json, re, sys
pid = sys.argv[1]
files = set(re.findall(r"^diff --git a/(\S+)", open(f"/verif/refactored/{pid}/patch.diff").read(), re.M))
out = []
for l in open("/verif/properties.jsonl"):
    p = json.loads(l)
    if files & set(p["anchors"]["files"]):
        out.append(p["id"])
print(" ".join(out))
PY
)
  for p in $props; do
    TVERIF_REPO=$WT ./check $p --tier quick > out/refcross_${id}_$p.txt 2>&1; rc=$?
    echo "$id on $p: exit=$rc violations=$(grep -c '^VIOLATION' out/refcross_${id}_$p.txt) undecided=$(grep -c '^UNDECIDED' out/refcross_${id}_$p.txt) notes=$(grep -c '^NOTE' out/refcross_${id}_$p.txt)"
    [ $rc -ne 0 ] && bad=1
  done
done
git -C /repo worktree remove --force $WT >/dev/null 2>&1
exit $bad
