"""dev helper: time a few structures of given contracts:  dev_time.py Cxx [contract-substring] [count]"""
import sys, time, json, os, random, importlib
sys.path.insert(0, os.path.dirname(os.path.dirname(os.path.abspath(__file__))))
import warnings; warnings.filterwarnings("ignore")
import tangelo
from tverif.engine import CONTRACTS, run_task
prop = sys.argv[1]; sub = sys.argv[2] if len(sys.argv) > 2 else ""; cnt = int(sys.argv[3]) if len(sys.argv) > 3 else 5
tier = os.environ.get("VERIF_TIER", "quick")
importlib.import_module(f"contracts.{prop}")
for cid in [c for c in CONTRACTS if sub in c]:
    sts = CONTRACTS[cid].structures(tier)
    print(cid, len(sts), flush=True)
    random.Random(1).shuffle(sts)
    for st in sts[:cnt]:
        t = time.time()
        r = run_task(cid, st, tier)
        bad = [(o['name'].split('::')[1], o['status'], o['backend'], (o['detail'] or '')[:300], o.get('model'), (o.get('replay') or {}).get('confirmed')) for o in r['obligations'] if o['status'] != 'discharged']
        print(' ', json.dumps(st, default=str)[:200], 'obl', len(r['obligations']), bad, 'paths', r['paths'], 'native', r['native']['runs'], r['native']['failed'][:1], round(time.time() - t, 2), flush=True)
