#!/bin/bash
# run every registered quick check on the current /repo tree and print the exit codes (all must be 0 on the unchanged tree)
cd "$(dirname "$0")/.."
mkdir -p out
bad=0
for p in $(python3 -c "import json; print(' '.join(c['property_id'] for c in json.load(open('MANIFEST.json'))['checks']))"); do
  ./check $p --tier ${1:-quick} > out/last_$p.txt 2>&1; rc=$?
  echo "$p exit=$rc $(tail -2 out/last_$p.txt | head -1 | cut -c1-160)"
  [ $rc -ne 0 ] && bad=1
  grep -q "^NOTE" out/last_$p.txt && { echo "   WARNING: $p has skipped modular proofs on this tree"; bad=1; }
done
exit $bad
