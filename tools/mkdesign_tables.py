#!/usr/bin/env python3
"""regenerate the per-property contract tables of DESIGN.md (between the AUTO markers) from contracts/*.py"""
import importlib, json, os, re, sys
V = os.path.dirname(os.path.dirname(os.path.abspath(__file__)))
sys.path.insert(0, V)
import warnings; warnings.filterwarnings("ignore")
from tverif.engine import CONTRACTS
props = [json.loads(l) for l in open(os.path.join(V, "properties.jsonl"))]
out = []
for p in props:
    pid = p["id"]
    mod = importlib.import_module(f"contracts.{pid}")
    meta = mod.PROPERTY
    out.append(f"### {pid} — {p['title']}\n")
    out.append(f"*Claimed level*: `{meta['level']}`. {meta['explanation']}\n")
    b = meta.get("bounds", {})
    out.append(f"*Bounds*: quick — {b.get('quick', '-')}; thorough — {b.get('thorough', '-')}.\n")
    out.append("*Assumptions*: " + "; ".join(meta.get("assumptions", [])) + ".\n")
    out.append("| contract | level | functions under contract | contract (requires / ensures / frame) |")
    out.append("|---|---|---|---|")
    for cid, c in CONTRACTS.items():
        if c.prop != pid:
            continue
        tg = ", ".join(f"`{q}`" for _, q in c.targets) or "-"
        doc = " ".join(c.doc.split()).replace("|", "\\|")
        out.append(f"| `{cid.split('.', 1)[1]}` | {c.level} | {tg} | {doc} |")
    out.append("")
text = "\n".join(out)
path = os.path.join(V, "DESIGN.md")
s = open(path).read()
a, b = "<!-- AUTO-CONTRACTS-BEGIN -->", "<!-- AUTO-CONTRACTS-END -->"
if a in s and b in s:
    s = s[:s.index(a) + len(a)] + "\n" + text + "\n" + s[s.index(b):]
    open(path, "w").write(s)
    print("DESIGN.md tables regenerated:", len(text), "chars")
else:
    print(text)

# ---- section 8.1: table of seeded changes, from seeded/*/meta.json
import glob
rows = ["| seed | change (written by an independent sub-agent) | needs, to manifest | result |", "|---|---|---|---|"]
for mf in sorted(glob.glob(os.path.join(V, "seeded", "*", "meta.json"))):
    m = json.load(open(mf))
    def cell(x, n):
        x = " ".join(str(x or "").split()).replace("|", "\\|")
        return x if len(x) <= n else x[: n - 1] + "…"
    rows.append(f"| {m['id']} | `{', '.join(os.path.basename(f) for f in (m.get('files_changed') or []))}`: {cell(m.get('summary'), 260)} | {cell(m.get('needs_to_manifest'), 200)} | {cell(m.get('detected'), 420)} |")
sa, sb = "<!-- AUTO-SEEDS-BEGIN -->", "<!-- AUTO-SEEDS-END -->"
txt = open(path).read()
if sa in txt:
    txt = txt[: txt.index(sa) + len(sa)] + "\n" + "\n".join(rows) + "\n" + txt[txt.index(sb):]
    open(path, "w").write(txt)
    print("seed table:", len(rows) - 2, "rows")
