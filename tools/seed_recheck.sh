#!/bin/bash
# re-run the property's quick check against every stored seeded change (scratch worktree of /repo HEAD + patch, TVERIF_REPO), to confirm each is still reported.
# usage: tools/seed_recheck.sh [seed-id ...]      (default: all)      output: one line per seed, and seeded/<id>/recheck.txt
cd /verif
ids="$@"; [ -z "$ids" ] && ids=$(ls seeded)
WT=${RECHECK_WT:-/tmp/wt_recheck}
bad=0
for id in $ids; do
  prop=${id%%-*}
  git -C /repo worktree remove --force $WT >/dev/null 2>&1
  git -C /repo worktree add -q --detach $WT HEAD || exit 3
  if ! git -C $WT apply /verif/seeded/$id/patch.diff 2>/dev/null; then echo "$id: patch no longer applies to HEAD"; bad=1; git -C /repo worktree remove --force $WT; continue; fi
  TVERIF_REPO=$WT ./check $prop --tier quick > out/recheck_$id.txt 2>&1; rc=$?
  nv=$(grep -c "^VIOLATION" out/recheck_$id.txt)
  first=$(grep -A1 "^VIOLATION" out/recheck_$id.txt | grep obligation | head -1 | cut -c1-170)
  echo "$id: exit=$rc violations=$nv $first" | tee seeded/$id/recheck.txt
  [ $rc -ne 1 ] && bad=1
  git -C /repo worktree remove --force $WT
done
git -C /repo worktree prune
exit $bad
