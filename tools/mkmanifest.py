#!/usr/bin/env python3
"""regenerate MANIFEST.json from contracts/*.py PROPERTY metadata (run with /verif/.venv/bin/python)"""
import json, os, sys, importlib, glob
V = os.path.dirname(os.path.dirname(os.path.abspath(__file__)))
sys.path.insert(0, V)
import warnings; warnings.filterwarnings("ignore")
props = [json.loads(l) for l in open(os.path.join(V, "properties.jsonl"))]
NA = json.load(open(os.path.join(V, "not_applicable.json"))) if os.path.exists(os.path.join(V, "not_applicable.json")) else {}
checks, na = [], []
for p in props:
    pid = p["id"]
    f = os.path.join(V, "contracts", f"{pid}.py")
    if not os.path.exists(f):
        na.append({"property_id": pid, "reason": NA.get(pid, "contracts for this property are not built yet in this round")})
        continue
    mod = importlib.import_module(f"contracts.{pid}")
    meta = mod.PROPERTY
    checks.append({
        "property_id": pid,
        "quick_cmd": f"./check {pid} --tier quick",
        "thorough_cmd": f"./check {pid} --tier thorough",
        "evidence_file": f"/verif/evidence/{pid}.json",
        "replay_cmd_template": "./check --replay {path}",
        "engine": "tverif",
        "level_claimed": {"category": meta["level"], "text": meta["explanation"], "design_ref": f"DESIGN.md section 6 ({pid})"},
        "level_note": "; ".join(meta.get("assumptions", []) + meta.get("trusted_base", [])),
        "technique": meta.get("technique", "contract-based deductive verification: VCs generated from the real function's AST (own symbolic interpreter), discharged by exact ring normal form + z3/cvc5; bounded native contract runs as labelled stand-in"),
    })
m = {
 "version": 1,
 "setup_cmd": "./setup.sh",
 "hooks": {"guard": "TANGELO_VERIF", "enable": "no hooks are needed: the checks parse and interpret /repo's working tree directly (TVERIF_REPO=<dir> points them at a scratch copy)",
           "baseline_off_cmd": "cd /repo && /venv/bin/python -m pytest -ra -q -p no:cacheprovider --timeout=900 --continue-on-collection-errors",
           "source_commits": [], "add_only": True},
 "engines": [{"name": "tverif", "path": "/verif/tverif", "serves_properties": [c["property_id"] for c in checks],
              "kind_free_text": "contract-based deductive verification: AST-level VC generator (symbolic interpreter with re-execution forking) over the real Tangelo source, exact cyclotomic/trigonometric ring normal forms, z3 + cvc5 back ends, native replay of counterexamples, bounded native contract runs"}],
 "checks": checks,
 "not_applicable": na,
 "notes": "see DESIGN.md; known findings in known_findings.json",
}
json.dump(m, open(os.path.join(V, "MANIFEST.json"), "w"), indent=1)
print("checks:", [c["property_id"] for c in checks], "n/a:", [n["property_id"] for n in na])
