#!/usr/bin/env python3
"""write seeded/<id>/meta.json from the sub-agent's meta (meta.agent.json), my confirmation (result.txt) and the detection note:  seed_meta.py <seed-id> "<detected ...>" """
import json, os, sys
sid, det = sys.argv[1], sys.argv[2]
dd = os.path.join(os.path.dirname(os.path.dirname(os.path.abspath(__file__))), "seeded", sid)
a = json.load(open(f"{dd}/meta.agent.json"))
res = open(f"{dd}/result.txt").read().split()
m = {"id": sid, "property": sid[:3], "summary": a.get("summary"), "needs_to_manifest": a.get("needs_to_manifest"),
     "written_by": "independent sub-agent given only the property text and a scratch worktree", "files_changed": a.get("files_changed"),
     "agent_tests_run": a.get("tests_run"),
     "confirmed_by_me": {"demo_exit_with_change": int(res[0]), "demo_exit_without_change": int(res[1]),
                         "how": "tools/seed_eval.sh: demo run in the scratch worktree with and without the patch; the property's quick check run on the tree with the patch applied "
                                "(TVERIF_REPO=<worktree>, equivalent to git -C /repo apply / run / git checkout -- .); tools/seed_tests.sh: relevant test modules with the patch applied (tests_confirmed.txt)"},
     "checks_run": res[2:], "detected": det}
for k in ("discarded", "discarded_attempts", "notes"):
    if a.get(k):
        m["agent_" + k] = a[k]
json.dump(m, open(f"{dd}/meta.json", "w"), indent=1)
os.remove(f"{dd}/meta.agent.json")
print("wrote", f"{dd}/meta.json")
