#!/usr/bin/env python3
"""run the repository's baseline suite and compare with /root/.vp/BASELINE.json stable_pass.  usage: baseline_compare.py [pytest args...]"""
import json, subprocess, sys, os, time, xml.etree.ElementTree as ET
out = "/verif/out/baseline.junit.xml"
os.makedirs("/verif/out", exist_ok=True)
t = time.time()
cmd = ["/venv/bin/python", "-m", "pytest", "-ra", "-q", "-p", "no:cacheprovider", "--timeout=900", "--continue-on-collection-errors", f"--junitxml={out}"] + sys.argv[1:]
subprocess.run(cmd, cwd="/repo", stdout=open("/verif/out/baseline.log", "w"), stderr=subprocess.STDOUT)
b = json.load(open("/root/.vp/BASELINE.json"))
passed = set()
for tc in ET.parse(out).getroot().iter("testcase"):
    if not any(ch.tag in ("failure", "error", "skipped") for ch in tc):
        passed.add(f"{tc.get('classname')}::{tc.get('name')}")
missing = [x for x in b["stable_pass"] if x not in passed]
print(f"baseline: {len(passed)} passed, stable_pass missing: {len(missing)}  ({time.time()-t:.0f}s)")
for m in missing[:40]:
    print("  MISSING", m)
sys.exit(1 if missing and not sys.argv[1:] else 0)
