#!/bin/bash
# usage: tools/refactor_eval.sh <worktree> <id> <prop> [<prop> ...]
# a BEHAVIOUR-PRESERVING refactoring written by an independent sub-agent (seed/patch.diff, seed/demo.py, seed/meta.json in the worktree): the demonstration must pass with and
# without it, and the given quick checks must exit 0 on the refactored tree (NOTE lines = modular proofs skipped because the code shape changed: allowed, recorded)
set -u
WT=$1; ID=$2; shift 2
OUT=/verif/refactored/$ID
mkdir -p $OUT
cp $WT/seed/patch.diff $OUT/patch.diff
cp $WT/seed/demo.py $OUT/demo.py 2>/dev/null
cp $WT/seed/meta.json $OUT/meta.agent.json 2>/dev/null
cd $WT
git diff --quiet -- tangelo && git apply $OUT/patch.diff
( PYTHONPATH=$WT timeout 900 /venv/bin/python seed/demo.py > $OUT/demo_with_change.txt 2>&1 ); RC_WITH=$?
git apply -R $OUT/patch.diff
( PYTHONPATH=$WT timeout 900 /venv/bin/python seed/demo.py > $OUT/demo_without_change.txt 2>&1 ); RC_WITHOUT=$?
git apply $OUT/patch.diff
echo "demo: with refactoring rc=$RC_WITH, without rc=$RC_WITHOUT"
RES=""
for P in "$@"; do
  ( cd /verif && TVERIF_REPO=$WT ./check $P --tier quick > $OUT/check_$P.txt 2>&1 ); RC=$?
  NV=$(grep -c "^VIOLATION" $OUT/check_$P.txt); NN=$(grep -c "^NOTE" $OUT/check_$P.txt); NU=$(grep -c "^UNDECIDED" $OUT/check_$P.txt)
  echo "check $P: exit=$RC violations=$NV undecided=$NU notes=$NN $(grep -A1 '^VIOLATION' $OUT/check_$P.txt | grep obligation | head -1 | cut -c1-200)"
  RES="$RES $P:$RC:$NV:$NU:$NN"
done
echo "$RC_WITH $RC_WITHOUT $RES" > $OUT/result.txt
