"""Exact / numeric specification library (imports nothing from the repository).

Gate definitions (the "documented" semantics the properties refer to):
  H, X, Y, Z, S=diag(1,i), T=diag(1,e^{i pi/4}), SDAG=diag(1,-i),
  RX/RY/RZ(t) = exp(-i t sigma/2), PHASE(t) = diag(1, e^{i t}), XX(t) = exp(-i t X(x)X / 2), SWAP,
  C<name> = |0><0| (x) 1 + |1><1| (x) <name> with any number of controls (CNOT = CX).
Index convention: basis index i <-> bitstring b_0 b_1 ... b_{n-1} (qubit 0 first = most significant bit of i).

Two arithmetic modes share the code: exact (entries are ring.Poly: exact for every real angle) and numeric (complex).
"""
from __future__ import annotations

import cmath
import math
from fractions import Fraction

import numpy as np

from . import ring
from .ring import Poly, Cyc, Unsupported

I_POLY = Poly({(): Cyc.I()})
ISQ2 = Poly({(): Cyc.sqrt2().inverse()})
HALF = Poly.const(Fraction(1, 2))


def as_angle(x):
    """exact angle (Poly) from a Poly or from a float that is a multiple of pi/16 (|error| < 1e-12)"""
    if isinstance(x, Poly):
        return x
    if isinstance(x, (int, float, np.floating, np.integer)):
        x = float(x)
        if x == 0:
            return Poly.const(0) * Poly.pi()
        k = x / (math.pi / 16)
        if abs(k - round(k)) < 1e-9:
            return Poly.pi() * Fraction(int(round(k)), 16)
        raise Unsupported(f"float angle {x} is not a multiple of pi/16: not representable exactly")
    raise Unsupported(f"gate parameter {x!r} of type {type(x).__name__}")


class Exact:
    name = "exact"
    zero = Poly.const(0)
    one = Poly.const(1)
    i = I_POLY
    isq2 = ISQ2

    @staticmethod
    def cos(t):
        return ring.cos(as_angle(t))

    @staticmethod
    def sin(t):
        return ring.sin(as_angle(t))

    @staticmethod
    def expi(t):
        return ring.expi(as_angle(t))

    @staticmethod
    def half(t):
        return as_angle(t) * Fraction(1, 2)

    @staticmethod
    def is_zero(x):
        return Poly._coerce(x).is_zero()

    @staticmethod
    def conj(x):
        return Poly._coerce(x).conj()


class Numeric:
    name = "numeric"
    zero = 0j
    one = 1 + 0j
    i = 1j
    isq2 = 1 / math.sqrt(2)

    @staticmethod
    def cos(t):
        return math.cos(float(t))

    @staticmethod
    def sin(t):
        return math.sin(float(t))

    @staticmethod
    def expi(t):
        return cmath.exp(1j * float(t))

    @staticmethod
    def half(t):
        return float(t) / 2

    @staticmethod
    def is_zero(x):
        return abs(x) < 1e-12

    @staticmethod
    def conj(x):
        return complex(x).conjugate()


def base_matrix(name, param, A):
    """matrix (list of rows) of an uncontrolled gate"""
    z, o, i = A.zero, A.one, A.i
    if name == "H":
        h = A.isq2
        return [[h, h], [h, -h if not isinstance(h, Poly) else -h]]
    if name == "X":
        return [[z, o], [o, z]]
    if name == "Y":
        return [[z, -i], [i, z]]
    if name == "Z":
        return [[o, z], [z, -o]]
    if name == "S":
        return [[o, z], [z, i]]
    if name == "SDAG":
        return [[o, z], [z, -i]]
    if name == "T":
        return [[o, z], [z, A.expi(math.pi / 4) if A is Numeric else ring.expi(Poly.pi() * Fraction(1, 4))]]
    if name == "I":
        return [[o, z], [z, o]]
    if name in ("RX", "RY", "RZ"):
        h = A.half(param)
        c, s = A.cos(h), A.sin(h)
        if name == "RX":
            return [[c, -i * s], [-i * s, c]]
        if name == "RY":
            return [[c, -s], [s, c]]
        return [[c - i * s, z], [z, c + i * s]]
    if name == "PHASE":
        return [[o, z], [z, A.expi(param)]]
    if name == "XX":
        h = A.half(param)
        c, s = A.cos(h), A.sin(h)
        m = -i * s
        return [[c, z, z, m], [z, c, m, z], [z, m, c, z], [m, z, z, c]]
    if name == "SWAP":
        return [[o, z, z, z], [z, z, o, z], [z, o, z, z], [z, z, z, o]]
    raise Unsupported(f"no documented unitary for gate name {name!r}")


def split_name(name):
    """(base name, is_controlled_name)"""
    if name in ("CNOT", "CX"):
        return "X", True
    if name in ("CY", "CZ", "CH", "CRX", "CRY", "CRZ", "CPHASE", "CSWAP"):
        return name[1:], True
    return name, False


def gate_fields(g):
    if isinstance(g, dict) and "name" in g:
        return g["name"], list(g["target"]), list(g.get("control") or []), g.get("parameter", "")
    return g.name, list(g.target), list(g.control or []), g.parameter


def arith_for(gates, exact=None):
    if exact is True:
        return Exact
    if exact is False:
        return Numeric
    for g in gates:
        if isinstance(gate_fields(g)[3], Poly):
            return Exact
    return Numeric


def apply_gate_rows(rows, g, n, A):
    """left-multiply the operator given as sparse rows {row_index: {col: value}} by gate g"""
    name, targets, controls, param = gate_fields(g)
    base, ctrl_name = split_name(name)
    if controls and not ctrl_name:
        raise Unsupported(f"gate {name} with controls")
    if ctrl_name and not controls:
        raise Unsupported(f"controlled gate {name} without control")
    M = base_matrix(base, param, A)
    k = len(targets)
    if len(M) != 2 ** k:
        raise Unsupported(f"gate {name}: {k} targets for a {len(M)}-dimensional matrix")
    tmask = [1 << (n - 1 - t) for t in targets]
    cmask = 0
    for c in controls:
        cmask |= 1 << (n - 1 - c)
    allt = 0
    for m in tmask:
        allt |= m
    dim = 1 << n
    new = {}
    # iterate over groups of rows that mix
    for base_idx in range(dim):
        if base_idx & allt:
            continue
        idxs = []
        for sub in range(2 ** k):
            j = base_idx
            for b in range(k):
                if (sub >> (k - 1 - b)) & 1:
                    j |= tmask[b]
            idxs.append(j)
        if (base_idx & cmask) != cmask:
            for j in idxs:
                if j in rows:
                    new[j] = rows[j]
            continue
        for a, ja in enumerate(idxs):
            acc = {}
            for b, jb in enumerate(idxs):
                m = M[a][b]
                if A.is_zero(m):
                    continue
                rb = rows.get(jb)
                if not rb:
                    continue
                for col, v in rb.items():
                    x = m * v
                    if col in acc:
                        x = acc[col] + x
                    if A.is_zero(x):
                        acc.pop(col, None)
                    else:
                        acc[col] = x
            if acc:
                new[ja] = acc
    return new


def unitary(gates, n, exact=None):
    """operator of a gate list on n qubits as sparse rows; gate 0 is applied first"""
    A = arith_for(gates, exact)
    rows = {j: {j: A.one} for j in range(1 << n)}
    for g in gates:
        rows = apply_gate_rows(rows, g, n, A)
    return rows, A


def apply_to_state(gates, n, state, exact=None):
    """apply gates to a state vector given as {index: amplitude}"""
    A = arith_for(gates, exact)
    rows = {j: {0: v} for j, v in state.items()}
    for g in gates:
        rows = apply_gate_rows(rows, g, n, A)
    return {j: r[0] for j, r in rows.items() if 0 in r}, A


def dense(rows, n, A):
    d = 1 << n
    return [[rows.get(i, {}).get(j, A.zero) for j in range(d)] for i in range(d)]


def to_numpy(rows, n):
    d = 1 << n
    M = np.zeros((d, d), dtype=complex)
    for i, r in rows.items():
        for j, v in r.items():
            M[i, j] = complex(v) if not isinstance(v, Poly) else complex(v.const_cyc())
    return M


def rows_from_numpy(M):
    return {i: {j: complex(M[i, j]) for j in range(M.shape[1]) if abs(M[i, j]) > 1e-14} for i in range(M.shape[0])}


# ------------------------------------------------------------------------------------------------ Pauli algebra

_PAULI = {"I": ((1, 0), (0, 1)), "X": ((0, 1), (1, 0)), "Y": ((0, -1j), (1j, 0)), "Z": ((1, 0), (0, -1))}


def pauli_rows(word, n, A, coef=None):
    """sparse rows of coef * P(word); word = iterable of (qubit, 'X'|'Y'|'Z')"""
    coef = A.one if coef is None else coef
    letters = {q: p for q, p in word}
    rows = {}
    for col in range(1 << n):
        row = col
        ph = A.one
        for q, p in letters.items():
            bit = (col >> (n - 1 - q)) & 1
            if p == "X":
                row ^= 1 << (n - 1 - q)
            elif p == "Y":
                row ^= 1 << (n - 1 - q)
                ph = ph * (A.i if bit == 0 else -A.i)
            elif p == "Z":
                if bit:
                    ph = -ph
        rows.setdefault(row, {})[col] = ph * coef
    return rows


def rows_add(a, b, A):
    out = {i: dict(r) for i, r in a.items()}
    for i, r in b.items():
        o = out.setdefault(i, {})
        for j, v in r.items():
            x = o[j] + v if j in o else v
            if A.is_zero(x):
                o.pop(j, None)
            else:
                o[j] = x
    return {i: r for i, r in out.items() if r}


def rows_scale(a, c, A):
    return {i: {j: v * c for j, v in r.items()} for i, r in a.items()}


def rows_mul(a, b, A):
    """a @ b"""
    out = {}
    for i, ra in a.items():
        acc = {}
        for k, va in ra.items():
            rb = b.get(k)
            if not rb:
                continue
            for j, vb in rb.items():
                x = va * vb
                if j in acc:
                    x = acc[j] + x
                if A.is_zero(x):
                    acc.pop(j, None)
                else:
                    acc[j] = x
        if acc:
            out[i] = acc
    return out


def rows_dagger(a, A):
    out = {}
    for i, r in a.items():
        for j, v in r.items():
            out.setdefault(j, {})[i] = A.conj(v)
    return out


def identity_rows(n, A, coef=None):
    coef = A.one if coef is None else coef
    return {j: {j: coef} for j in range(1 << n)}


def exp_pauli_rows(word, c, n, A):
    """exp(-i c P) = cos c * 1 - i sin c * P"""
    word = [(q, p) for q, p in word if p != "I"]
    if not word:
        return identity_rows(n, A, A.expi(-c) if A is Numeric else ring.expi(-as_angle(c)))
    cc, ss = A.cos(c), A.sin(c)
    return rows_add(identity_rows(n, A, cc), pauli_rows(word, n, A, -A.i * ss), A)


def apply_pauli_rows(rows, word, n, A, coef=None):
    """coef * P(word) @ rows  (a signed row permutation: cheap)"""
    letters = [(q, p) for q, p in word if p != "I"]
    out = {}
    for r, row in rows.items():
        # P|r> = phase |r'>  =>  (P @ M)[r'] = phase * M[r]
        r2 = r
        ph = A.one if coef is None else coef
        for q, p in letters:
            bit = (r >> (n - 1 - q)) & 1
            if p == "X":
                r2 ^= 1 << (n - 1 - q)
            elif p == "Y":
                r2 ^= 1 << (n - 1 - q)
                ph = ph * (A.i if bit == 0 else -A.i)
            elif p == "Z" and bit:
                ph = -ph
        out[r2] = {j: v * ph for j, v in row.items()}
    return out


def apply_exp_pauli(rows, word, c, n, A, controls=None):
    """exp(-i c P(word)) @ rows  (on the subspace where all controls are 1; identity elsewhere)"""
    word = [(q, p) for q, p in word if p != "I"]
    cmask = 0
    for q in controls or []:
        cmask |= 1 << (n - 1 - q)
    act = {r: row for r, row in rows.items() if (r & cmask) == cmask}
    rest = {r: row for r, row in rows.items() if (r & cmask) != cmask}
    if not word:
        ph = A.expi(-c) if A is Numeric else ring.expi(-as_angle(c))
        new = rows_scale(act, ph, A)
    else:
        cc, ss = A.cos(c), A.sin(c)
        new = rows_add(rows_scale(act, cc, A), apply_pauli_rows(act, word, n, A, -A.i * ss), A)
    new.update(rest)
    return new


def controlled_rows(rows, controls, n, A):
    """|not all controls 1> : identity ;  |all controls 1> : rows (rows must act trivially on the control qubits)"""
    cmask = 0
    for c in controls:
        cmask |= 1 << (n - 1 - c)
    out = {}
    for i in range(1 << n):
        if (i & cmask) == cmask:
            r = {j: v for j, v in rows.get(i, {}).items()}
            out[i] = r
        else:
            out[i] = {i: A.one}
    return out


# ------------------------------------------------------------------------------------------------ comparisons

def diff_entries(a, b, A):
    """list of (i, j, a_ij - b_ij) for the entries where the two operators differ (exact: non-zero normal form)"""
    out = []
    keys = set(a) | set(b)
    for i in keys:
        ra, rb = a.get(i, {}), b.get(i, {})
        for j in set(ra) | set(rb):
            d = ra.get(j, A.zero) - rb.get(j, A.zero)
            if not A.is_zero(d):
                out.append((i, j, d))
    return out


def proportional_defect(a, b, A):
    """entries of a_ij*b_kl - a_kl*b_ij (pivot (i,j) = first non-zero of b) that are non-zero: empty iff a = lambda*b"""
    piv = None
    for i in sorted(b):
        for j in sorted(b[i]):
            piv = (i, j)
            break
        if piv:
            break
    if piv is None:
        return diff_entries(a, b, A)
    bi = b[piv[0]][piv[1]]
    ai = a.get(piv[0], {}).get(piv[1], A.zero)
    out = []
    keys = set(a) | set(b)
    for k in keys:
        ra, rb = a.get(k, {}), b.get(k, {})
        for l in set(ra) | set(rb):
            d = ai * rb.get(l, A.zero) - ra.get(l, A.zero) * bi
            if not A.is_zero(d):
                out.append((k, l, d))
    if A.is_zero(ai):
        out.append((piv[0], piv[1], bi))
    return out


# corner values of angles / coefficients: multiples of pi/2 (where sines and cosines vanish), 0, and values just beside them
_SPECIAL = [k * math.pi / 2 for k in range(-8, 9)] + [0.0, 1e-12, -1e-12, 2 * math.pi + 1e-12, 1.0, -1.0, 0.5]


def find_witness(polys, inputs, tries=200, seed=0, constraint=None):
    """numeric witness (values of the symbolic inputs) at which one of the non-zero polynomials is visibly non-zero"""
    import random
    rnd = random.Random(seed)
    best = None
    for _ in range(tries):
        env = {}
        vals = {}
        for name, p in inputs.items():
            if isinstance(p, Poly):
                v = rnd.choice([rnd.uniform(-7, 7), rnd.uniform(-1, 1), rnd.uniform(0, 13), rnd.choice(_SPECIAL)])
                for var in p.vars():
                    env[var.id] = v
                vals[name] = v
        if constraint is not None and not constraint(vals):
            continue
        for d in polys:
            try:
                x = abs(d.eval(env))
            except KeyError:
                continue
            if x > 1e-6 and (best is None or x > best[0]):
                best = (x, dict(vals))
        if best and best[0] > 1e-3:
            break
    return best
