"""Exact arithmetic used by the verifier.

* ``Cyc``  -- numbers in the cyclotomic field Q(zeta), zeta = exp(i*pi/16) (zeta**16 == -1).
              Contains i = zeta**8, sqrt(2) = zeta**4 - zeta**12 and every exp(i*pi*k/16): all the constants
              that appear in Tangelo's gate set (H, S, T, QFT phases up to 5 qubits) are *exact* here.
* ``Poly`` -- sparse multivariate polynomials over ``Cyc`` in symbolic scalars.  Variables are
              - plain real / integer symbols,
              - the symbol PI (kept symbolic so that angles stay linear forms  q*pi + sum r_j*theta_j),
              - trigonometric atom pairs  c = cos(theta/D), s = sin(theta/D)  with the rewrite s**2 -> 1 - c**2,
                which makes the representation *canonical* in the coordinate ring of the torus: a polynomial is
                the zero function of the real angles  iff  its normal form is 0,
              - opaque atoms wrapping an arbitrary z3 term (abs, mod, round, array reads ...).
  A ``Poly`` is the symbolic value of Python ``int`` / ``float`` / ``complex`` inside the AST interpreter.

Nothing here imports Tangelo.
"""
from __future__ import annotations

import cmath
import math
from fractions import Fraction
from functools import lru_cache

N = 16  # zeta**N == -1


def _F(x):
    if isinstance(x, Fraction):
        return x
    if isinstance(x, bool):
        return Fraction(int(x))
    if isinstance(x, int):
        return Fraction(x)
    if isinstance(x, float):
        # floats are treated as the decimal number they print as ("machine arithmetic treated as mathematical")
        x = float(x)
        if x != x or x in (float("inf"), float("-inf")):
            raise ValueError("non-finite float")
        return Fraction(float.__repr__(x))
    try:
        import numpy as np
        if isinstance(x, np.integer):
            return Fraction(int(x))
        if isinstance(x, np.floating):
            return Fraction(repr(float(x)))
    except ImportError:
        pass
    raise TypeError(f"cannot make a Fraction from {type(x)}")


class Cyc:
    """Element of Q(zeta_32) as a sparse vector {k: Fraction} over the basis zeta**k, 0 <= k < 16."""
    __slots__ = ("d", "_h")

    def __init__(self, d=None):
        self.d = d or {}
        self._h = None

    # constructors
    @staticmethod
    def rat(x):
        x = _F(x)
        return Cyc({0: x} if x else {})

    @staticmethod
    def zeta(k, coef=1):
        k %= 2 * N
        c = _F(coef)
        if k >= N:
            k -= N
            c = -c
        return Cyc({k: c} if c else {})

    @staticmethod
    def from_number(x):
        if isinstance(x, Cyc):
            return x
        if isinstance(x, complex):
            return Cyc.rat(x.real) + Cyc.I() * Cyc.rat(x.imag)
        try:
            import numpy as np
            if isinstance(x, np.complexfloating):
                return Cyc.rat(float(x.real)) + Cyc.I() * Cyc.rat(float(x.imag))
        except ImportError:
            pass
        return Cyc.rat(x)

    @staticmethod
    def I():
        return _I

    @staticmethod
    def sqrt2():
        return _SQRT2

    def is_zero(self):
        return not self.d

    def is_rational(self):
        return all(k == 0 for k in self.d)

    def rational(self):
        assert self.is_rational()
        return self.d.get(0, Fraction(0))

    def conj(self):
        out = {}
        for k, c in self.d.items():
            if k == 0:
                out[0] = out.get(0, 0) + c
            else:
                out[N - k] = out.get(N - k, 0) - c
        return Cyc({k: v for k, v in out.items() if v})

    def is_real(self):
        return self == self.conj()

    def real_part(self):
        return (self + self.conj()) * Cyc.rat(Fraction(1, 2))

    def imag_part(self):
        return (self - self.conj()) * (Cyc.zeta(-8) * Cyc.rat(Fraction(1, 2)))

    def __add__(self, o):
        if not o.d:
            return self
        if not self.d:
            return o
        out = dict(self.d)
        for k, c in o.d.items():
            v = out.get(k, 0) + c
            if v:
                out[k] = v
            else:
                out.pop(k, None)
        return Cyc(out)

    def __neg__(self):
        return Cyc({k: -c for k, c in self.d.items()})

    def __sub__(self, o):
        return self + (-o)

    def __mul__(self, o):
        if not self.d or not o.d:
            return _ZERO
        if len(o.d) == 1 and 0 in o.d:
            c = o.d[0]
            if c == 1:
                return self
            return Cyc({k: v * c for k, v in self.d.items()})
        if len(self.d) == 1 and 0 in self.d:
            c = self.d[0]
            if c == 1:
                return o
            return Cyc({k: v * c for k, v in o.d.items()})
        out = {}
        for k1, c1 in self.d.items():
            for k2, c2 in o.d.items():
                k = k1 + k2
                c = c1 * c2
                if k >= N:
                    k -= N
                    c = -c
                v = out.get(k, 0) + c
                if v:
                    out[k] = v
                else:
                    out.pop(k, None)
        return Cyc(out)

    def inverse(self):
        if self.is_rational():
            return Cyc.rat(1 / self.rational())
        if len(self.d) == 1:
            (k, c), = self.d.items()
            return Cyc.zeta(-k, 1 / c)
        # general: solve  self * x = 1  as a 16x16 rational linear system
        cols = []
        for j in range(N):
            col = (self * Cyc.zeta(j)).d
            cols.append([col.get(i, Fraction(0)) for i in range(N)])
        A = [[cols[j][i] for j in range(N)] + [Fraction(1 if i == 0 else 0)] for i in range(N)]
        for c in range(N):
            p = next(r for r in range(c, N) if A[r][c] != 0)
            A[c], A[p] = A[p], A[c]
            inv = 1 / A[c][c]
            A[c] = [v * inv for v in A[c]]
            for r in range(N):
                if r != c and A[r][c] != 0:
                    f = A[r][c]
                    A[r] = [a - f * b for a, b in zip(A[r], A[c])]
        return Cyc({i: A[i][N] for i in range(N) if A[i][N]})

    def __eq__(self, o):
        return isinstance(o, Cyc) and self.d == o.d

    def __hash__(self):
        if self._h is None:
            self._h = hash(frozenset(self.d.items()))
        return self._h

    def __complex__(self):
        return sum((float(c) * cmath.exp(1j * math.pi * k / N) for k, c in self.d.items()), 0j)

    def __repr__(self):
        if not self.d:
            return "0"
        if self.is_rational():
            return str(self.rational())
        return "(" + " + ".join(f"{c}*z^{k}" if k else f"{c}" for k, c in sorted(self.d.items())) + ")"


_ZERO = Cyc()
_ONE = Cyc.rat(1)
_I = Cyc.zeta(8)
_SQRT2 = Cyc.zeta(4) - Cyc.zeta(12)


# ----------------------------------------------------------------------------------------------------------------
# variables

class Var:
    """kind: 'real' | 'int' | 'pi' | 'cos' | 'sin' | 'atom'"""
    _count = 0
    __slots__ = ("id", "name", "kind", "partner", "base", "denom", "z3", "pyint")

    def __init__(self, name, kind, z3=None, pyint=False):
        Var._count += 1
        self.id = Var._count
        self.name = name
        self.kind = kind
        self.partner = None
        self.base = None   # for cos/sin: the angle Var
        self.denom = None
        self.z3 = z3       # for atoms: the wrapped z3 term
        self.pyint = pyint or kind == "int"

    def __repr__(self):
        return self.name


_VARS = {}


def _reg(v):
    _VARS[v.id] = v
    return v


PI_VAR = _reg(Var("pi", "pi"))
INVPI_VAR = _reg(Var("invpi", "invpi"))     # 1/pi, with the rewrite pi * invpi -> 1


class Poly:
    """Sparse polynomial {monomial: Cyc}; monomial = tuple of (var_id, exponent) sorted by var_id."""
    __slots__ = ("t", "isint", "_h")

    def __init__(self, t=None, isint=False):
        self.t = t or {}
        self.isint = isint
        self._h = None

    # ---------------------------------------------------------------- constructors
    @staticmethod
    def const(x):
        if isinstance(x, Poly):
            return x
        isint = isinstance(x, int) and not isinstance(x, bool)
        try:
            import numpy as np
            isint = isint or isinstance(x, np.integer)
        except ImportError:
            pass
        c = Cyc.from_number(x)
        return Poly({(): c} if not c.is_zero() else {}, isint=isint)

    @staticmethod
    def var(v: Var):
        return Poly({((v.id, 1),): _ONE}, isint=v.pyint)

    @staticmethod
    def new_real(name):
        return Poly.var(_reg(Var(name, "real")))

    @staticmethod
    def new_int(name):
        return Poly.var(_reg(Var(name, "int")))

    @staticmethod
    def pi():
        return Poly.var(PI_VAR)

    @staticmethod
    def atom(z3term, name=None, isint=False):
        import z3
        key = ("atom", z3term.get_id())
        if key in _ATOMS:
            return _ATOMS[key]
        v = _reg(Var(name or f"a{z3term.get_id()}", "atom", z3=z3term, pyint=isint or z3.is_int(z3term)))
        p = Poly.var(v)
        _ATOMS[key] = p
        return p

    @staticmethod
    def angle(name, denom=4):
        """Symbolic real angle theta with trig atoms for theta/denom. Returns the Poly theta."""
        v = _reg(Var(name, "real"))
        c = _reg(Var(f"cos({name}/{denom})", "cos"))
        s = _reg(Var(f"sin({name}/{denom})", "sin"))
        c.partner, s.partner = s, c
        c.base = s.base = v
        c.denom = s.denom = denom
        _TRIG[v.id] = (c, s, denom)
        return Poly.var(v)

    # ---------------------------------------------------------------- predicates
    def is_zero(self):
        return not self.t

    def is_const(self):
        return all(m == () for m in self.t)

    def const_cyc(self):
        assert self.is_const()
        return self.t.get((), _ZERO)

    def is_real_valued(self):
        return all(c.is_real() for c in self.t.values())

    def pytype(self):
        if not self.is_real_valued():
            return complex
        return int if self.isint else float

    def to_python(self):
        """Concrete Python number of a constant polynomial (exact ints, else float/complex)."""
        c = self.const_cyc()
        if c.is_rational():
            r = c.rational()
            if self.isint and r.denominator == 1:
                return int(r)
            return float(r)
        z = complex(c)
        if c.is_real():
            return z.real
        return z

    def vars(self):
        out = set()
        for m in self.t:
            for vid, _ in m:
                out.add(vid)
        return [_VARS[v] for v in sorted(out)]

    def linear_form(self):
        """Return ({var_id: Fraction}, const Fraction) if self is a real linear form with rational coefficients."""
        lin, const = {}, Fraction(0)
        for m, c in self.t.items():
            if not c.is_rational():
                return None
            if m == ():
                const = c.rational()
            elif len(m) == 1 and m[0][1] == 1:
                lin[m[0][0]] = c.rational()
            else:
                return None
        return lin, const

    # ---------------------------------------------------------------- arithmetic
    @staticmethod
    def _coerce(o):
        if isinstance(o, Poly):
            return o
        if isinstance(o, float):
            r = _pi_multiple(o)
            if r is not None:
                return Poly.pi() * r
        if isinstance(o, (int, float, complex, Fraction)):
            return Poly.const(o)
        try:
            import numpy as np
            if isinstance(o, np.generic) and not isinstance(o, (np.bool_, np.str_)):
                return Poly.const(o.item())
        except ImportError:
            pass
        return None

    def __add__(self, o):
        o = Poly._coerce(o)
        if o is None:
            return NotImplemented
        out = dict(self.t)
        for m, c in o.t.items():
            if m in out:
                v = out[m] + c
                if v.is_zero():
                    del out[m]
                else:
                    out[m] = v
            else:
                out[m] = c
        return Poly(out, self.isint and o.isint)

    __radd__ = __add__

    def __neg__(self):
        return Poly({m: -c for m, c in self.t.items()}, self.isint)

    def __pos__(self):
        return self

    def __sub__(self, o):
        o = Poly._coerce(o)
        if o is None:
            return NotImplemented
        return self + (-o)

    def __rsub__(self, o):
        o = Poly._coerce(o)
        if o is None:
            return NotImplemented
        return o + (-self)

    def __mul__(self, o):
        o = Poly._coerce(o)
        if o is None:
            return NotImplemented
        if not self.t or not o.t:
            return Poly({}, self.isint and o.isint)
        out = {}
        for m1, c1 in self.t.items():
            for m2, c2 in o.t.items():
                c = c1 * c2
                if c.is_zero():
                    continue
                for m, k in _mono_mul(m1, m2):
                    ck = c * k if k is not _ONE else c
                    if m in out:
                        v = out[m] + ck
                        if v.is_zero():
                            del out[m]
                        else:
                            out[m] = v
                    else:
                        out[m] = ck
        return Poly(out, self.isint and o.isint)

    __rmul__ = __mul__

    def __truediv__(self, o):
        o = Poly._coerce(o)
        if o is None:
            return NotImplemented
        if o.is_const():
            c = o.const_cyc()
            if c.is_zero():
                raise ZeroDivisionError("division by zero")
            inv = c.inverse()
            return Poly({m: v * inv for m, v in self.t.items()}, False)
        if len(o.t) == 1 and list(o.t)[0] == ((PI_VAR.id, 1),):
            c2 = list(o.t.values())[0]
            return self * Poly({((INVPI_VAR.id, 1),): c2.inverse()}, False)
        if len(o.t) == 1:
            # division by a single monomial in non-trig variables that divides every term
            (m2, c2), = o.t.items()
            inv = c2.inverse()
            out = {}
            ok = True
            for m, c in self.t.items():
                q = _mono_div(m, m2)
                if q is None:
                    ok = False
                    break
                out[q] = c * inv
            if ok:
                return Poly(out, False)
        # general symbolic division: opaque atom  (needs z3)
        import z3
        return Poly.atom(self.to_z3() / o.to_z3())

    def __rtruediv__(self, o):
        o = Poly._coerce(o)
        if o is None:
            return NotImplemented
        return o.__truediv__(self)

    def __pow__(self, e):
        if isinstance(e, Poly):
            if not e.is_const():
                if self.is_const() and self.const_cyc() == Cyc.rat(-1) and e.isint:
                    import z3
                    return Poly.atom(z3.If(e.to_z3() % 2 == 0, z3.IntVal(1), z3.IntVal(-1)), isint=True)
                raise Unsupported("symbolic exponent")
            e = e.to_python()
        if isinstance(e, float) and e == int(e):
            e = int(e)
            flt = True
        else:
            flt = False
        if isinstance(e, int):
            if e < 0:
                return Poly.const(1) / (self ** (-e))
            out = Poly.const(1)
            base = self
            k = e
            while k:
                if k & 1:
                    out = out * base
                base = base * base
                k >>= 1
            if flt:
                out = Poly(out.t, False)
            return out
        if e == 0.5 and not self.is_const() and self.is_real_valued():
            import z3
            from .sym import current
            c = current()
            r = c.fresh_real("sqrt")
            c.side.append(z3.And(r >= 0, r * r == self.to_z3()))
            return Poly.atom(r)
        if e == 0.5 and self.is_const():
            c = self.const_cyc()
            if c.is_rational():
                r = c.rational()
                if r == 2:
                    return Poly({(): _SQRT2})
                if r >= 0:
                    n, d = math.isqrt(r.numerator), math.isqrt(r.denominator)
                    if n * n == r.numerator and d * d == r.denominator:
                        return Poly.const(Fraction(n, d))
                    h = r / 2
                    n, d = math.isqrt(h.numerator), math.isqrt(h.denominator)
                    if n * n == h.numerator and d * d == h.denominator:
                        return Poly({(): _SQRT2 * Cyc.rat(Fraction(n, d))})
        raise Unsupported(f"power {e}")

    def __rpow__(self, b):
        if self.is_const():
            return Poly._coerce(b) ** self.to_python()
        if b == -1 or (isinstance(b, Poly) and b.is_const() and b.const_cyc() == Cyc.rat(-1)):
            return Poly.const(-1) ** self
        raise Unsupported("symbolic exponent")

    def conj(self):
        return Poly({m: c.conj() for m, c in self.t.items()}, self.isint)

    conjugate = conj

    @property
    def real(self):
        return (self + self.conj()) / 2 if not self.is_real_valued() else self

    @property
    def imag(self):
        if self.is_real_valued():
            return Poly.const(0.0)
        return (self - self.conj()) * Poly({(): Cyc.zeta(-8) * Cyc.rat(Fraction(1, 2))})

    # ---------------------------------------------------------------- comparisons (produce z3 when symbolic)
    def _cmp(self, o, op):
        o = Poly._coerce(o)
        if o is None:
            return NotImplemented
        d = self - o
        if d.is_const():
            c = d.const_cyc()
            if op in ("eq", "ne"):
                return c.is_zero() if op == "eq" else not c.is_zero()
            if not c.is_real():
                raise TypeError("ordering of complex numbers")
            v = c.rational() if c.is_rational() else complex(c).real
            return {"lt": v < 0, "le": v <= 0, "gt": v > 0, "ge": v >= 0}[op]
        from .sym import SBool
        import z3
        if op in ("eq", "ne") and not d.is_real_valued():
            re, im = d.real.to_z3(), d.imag.to_z3()
            e = z3.And(re == 0, im == 0)
            return SBool(e if op == "eq" else z3.Not(e))
        z = d.to_z3()
        return SBool({"eq": z == 0, "ne": z != 0, "lt": z < 0, "le": z <= 0, "gt": z > 0, "ge": z >= 0}[op])

    def __eq__(self, o):
        return self._cmp(o, "eq")

    def __ne__(self, o):
        return self._cmp(o, "ne")

    def __lt__(self, o):
        return self._cmp(o, "lt")

    def __le__(self, o):
        return self._cmp(o, "le")

    def __gt__(self, o):
        return self._cmp(o, "gt")

    def __ge__(self, o):
        return self._cmp(o, "ge")

    def __hash__(self):
        if self._h is None:
            self._h = hash(frozenset(self.t.items()))
        return self._h

    def same(self, o):
        """Syntactic (= semantic, thanks to the normal form) equality, as a Python bool."""
        o = Poly._coerce(o)
        return o is not None and self.t == o.t

    def __bool__(self):
        if self.is_const():
            return not self.const_cyc().is_zero()
        return bool(self != 0)

    def __abs__(self):
        if self.is_const():
            c = self.const_cyc()
            if c.is_real():
                v = c.rational() if c.is_rational() else None
                if v is not None:
                    return Poly({(): Cyc.rat(abs(v))} if v else {}, self.isint)
                return self if complex(c).real >= 0 else -self
            raise Unsupported("abs of complex constant")
        import z3
        if not self.is_real_valued():
            re, im = self.real, self.imag
            if re.is_zero():
                return abs(im)
            if im.is_zero():
                return abs(re)
            from .sym import current
            c = current()
            r = c.fresh_real("abs")
            c.side.append(z3.And(r >= 0, r * r == (re * re + im * im).to_z3()))
            return Poly.atom(r)
        z = self.to_z3()
        return Poly.atom(z3.If(z >= 0, z, -z), isint=self.isint)

    def __floordiv__(self, o):
        o = Poly._coerce(o)
        if o is None:
            return NotImplemented
        if self.is_const() and o.is_const():
            return Poly.const(self.to_python() // o.to_python())
        import z3
        a, b = self.to_z3(), o.to_z3()
        if self.isint and o.isint:
            # Python floor division.  z3's integer div is Euclidean (a = b*q + r, 0 <= r < |b|), which is floor
            # division for b > 0; for b < 0 use floor(a/b) = floor((-a)/(-b)).
            return Poly.atom(z3.If(b > 0, a / b, (-a) / (-b)), isint=True)
        return Poly.atom(z3.ToReal(z3.ToInt(a / b)), isint=False)

    def __rfloordiv__(self, o):
        return Poly._coerce(o).__floordiv__(self)

    def __mod__(self, o):
        o = Poly._coerce(o)
        if o is None:
            return NotImplemented
        if self.is_const() and o.is_const():
            a, b = self.const_cyc(), o.const_cyc()
            if a.is_rational() and b.is_rational():
                r = a.rational() % b.rational()
                return Poly({(): Cyc.rat(r)} if r else {}, self.isint and o.isint)
            return Poly.const(self.to_python() % o.to_python())
        from .sym import current
        return current().model_mod(self, o)

    def __rmod__(self, o):
        return Poly._coerce(o).__mod__(self)

    def __round__(self, n=None):
        if self.is_const():
            return round(self.to_python(), n)
        from .sym import current
        return current().model_round(self, n)

    def __float__(self):
        if self.is_const():
            return float(self.to_python())
        raise Unsupported("float() of symbolic value")

    def __int__(self):
        if self.is_const():
            return int(self.to_python())
        raise Unsupported("int() of symbolic value")

    def __index__(self):
        if self.is_const() and self.isint:
            return int(self.to_python())
        raise Unsupported("symbolic value used as index")

    def __complex__(self):
        if self.is_const():
            return complex(self.const_cyc())
        raise Unsupported("complex() of symbolic value")

    def __deepcopy__(self, memo):
        return self

    def __copy__(self):
        return self

    # ---------------------------------------------------------------- z3 / numeric
    def to_z3(self):
        import z3
        if not self.is_real_valued():
            raise Unsupported("complex value in a real z3 context")
        from .sym import z3var
        terms = []
        allint = self.isint
        for m, c in sorted(self.t.items(), key=lambda kv: kv[0]):
            cz = _cyc_to_z3(c, allint)
            f = cz
            for vid, e in m:
                v = z3var(_VARS[vid])
                if not allint and z3.is_int(v):
                    v = z3.ToReal(v)
                for _ in range(e):
                    f = f * v
            terms.append(f)
        if not terms:
            return z3.IntVal(0) if allint else z3.RealVal(0)
        out = terms[0]
        for t in terms[1:]:
            out = out + t
        return out

    def eval(self, env):
        """numeric value; env maps Var.id -> float; trig atoms are computed from their base angle."""
        tot = 0j
        for m, c in self.t.items():
            f = complex(c)
            for vid, e in m:
                f *= _var_value(_VARS[vid], env) ** e
            tot += f
        return tot

    def __repr__(self):
        if not self.t:
            return "0"
        parts = []
        for m, c in sorted(self.t.items(), key=lambda kv: kv[0]):
            mono = "*".join(f"{_VARS[v].name}" + (f"^{e}" if e > 1 else "") for v, e in m)
            parts.append(f"{c}" + (f"*{mono}" if mono else ""))
        return " + ".join(parts)


_ATOMS = {}
_TRIG = {}   # angle var id -> (cosVar, sinVar, denom)


def _pi_multiple(f):
    """a float that is the 53-bit rounding of (p/q) * pi with small p, q, met while pi is kept symbolic: the value a module-level constant such as `PERIOD = 4 * np.pi` or a
    table entry `-pi / 2` holds after being computed natively at import time. It is read as the exact multiple of pi (floats as reals), so that code using such a constant and
    code writing the expression inline are the same program for the verifier. Returns the Fraction p/q or None."""
    try:
        from .sym import have_ctx, current
        if not (have_ctx() and current().symbolic and current().sym_pi):
            return None
    except Exception:
        return None
    if f == 0.0 or f != f or abs(f) > 64 * math.pi or abs(f) < math.pi / 64:
        return None
    r = f / math.pi
    for q in (1, 2, 3, 4, 6, 8, 12, 16, 32):
        pnum = round(r * q)
        if pnum != 0 and abs(pnum) <= 64 * q and abs(r * q - pnum) < 4e-15 * max(1.0, abs(r * q)):
            if float(Fraction(pnum, q)) * math.pi == f or abs(float(Fraction(pnum, q)) * math.pi - f) <= 4 * abs(f) * 2.3e-16:
                return Fraction(pnum, q)
    return None


class Unsupported(Exception):
    """construct outside the verifier's subset: the obligation becomes UNDECIDED, never a violation"""


class ShapeChanged(Unsupported):
    """a MODULAR (P) contract relies on the shape of the code it was written for - which local variable accumulates, which callee builds the result, which container is
    appended to. When the code no longer has that shape the modular proof does not apply: the contract is SKIPPED (reported as a note, never as a violation or an undecided
    obligation) and the property rests on the S / B contracts of the same function, which execute whatever the code does"""


def _var_value(v, env):
    if v.kind == "pi":
        return math.pi
    if v.kind == "invpi":
        return 1 / math.pi
    if v.kind == "cos":
        return math.cos(env[v.base.id] / v.denom)
    if v.kind == "sin":
        return math.sin(env[v.base.id] / v.denom)
    return env[v.id]


def _cyc_to_z3(c, as_int=False):
    import z3
    if c.is_rational():
        r = c.rational()
        if as_int and r.denominator == 1:
            return z3.IntVal(int(r))
        return z3.RealVal(f"{r.numerator}/{r.denominator}")
    # a + b*sqrt2 ?
    d = dict(c.d)
    b = d.get(4, Fraction(0))
    if set(d) <= {0, 4, 12} and d.get(12, Fraction(0)) == -b:
        from .sym import sqrt2_z3
        a = d.get(0, Fraction(0))
        return z3.RealVal(f"{a.numerator}/{a.denominator}") + z3.RealVal(f"{b.numerator}/{b.denominator}") * sqrt2_z3()
    raise Unsupported(f"cyclotomic constant {c} in a z3 term")


@lru_cache(maxsize=200000)
def _mono_mul(m1, m2):
    """product of two monomials -> list of (monomial, Cyc factor) after the rewrite sin^2 -> 1 - cos^2."""
    if not m1:
        return ((m2, _ONE),)
    if not m2:
        return ((m1, _ONE),)
    d = dict(m1)
    for v, e in m2:
        d[v] = d.get(v, 0) + e
    if PI_VAR.id in d and INVPI_VAR.id in d:
        k = min(d[PI_VAR.id], d[INVPI_VAR.id])
        for v in (PI_VAR.id, INVPI_VAR.id):
            d[v] -= k
            if not d[v]:
                del d[v]
    res = [(d, _ONE)]
    # reduce sines
    for v in list(d):
        var = _VARS[v]
        if var.kind == "sin" and d[v] >= 2:
            new = []
            cv = var.partner.id
            for dd, k in res:
                e = dd[v]
                h, r = divmod(e, 2)
                # s^(2h) = (1 - c^2)^h = sum_j C(h,j) (-1)^j c^(2j)
                for j in range(h + 1):
                    d2 = dict(dd)
                    if r:
                        d2[v] = r
                    else:
                        del d2[v]
                    if j:
                        d2[cv] = d2.get(cv, 0) + 2 * j
                    new.append((d2, k * Cyc.rat(math.comb(h, j) * (-1) ** j)))
            res = new
    out = {}
    for dd, k in res:
        m = tuple(sorted(dd.items()))
        if m in out:
            out[m] = out[m] + k
        else:
            out[m] = k
    return tuple((m, k) for m, k in out.items() if not k.is_zero())


def _mono_div(m, m2):
    d = dict(m)
    for v, e in m2:
        if _VARS[v].kind in ("cos", "sin"):
            return None
        if d.get(v, 0) < e:
            return None
        d[v] -= e
        if not d[v]:
            del d[v]
    return tuple(sorted(d.items()))


# ----------------------------------------------------------------------------------------------------------------
# trigonometry of linear forms

def expi(phi):
    """exp(i*phi) for phi a real linear form  q*pi + sum r_j*theta_j  (q*16 and r_j*denom_j integers)."""
    phi = Poly._coerce(phi)
    lf = phi.linear_form()
    if lf is None:
        raise Unsupported(f"trigonometric function of a non-linear argument {phi}")
    lin, const = lf
    out = Poly.const(1)
    if const != 0:
        raise Unsupported(f"trigonometric function of an angle with a non-pi-rational constant part {const}")
    for vid, r in lin.items():
        v = _VARS[vid]
        if v.kind == "pi":
            k = r * N
            if k.denominator != 1:
                raise Unsupported(f"angle {r}*pi is not a multiple of pi/16")
            out = out * Poly({(): Cyc.zeta(int(k))})
        elif vid in _TRIG:
            c, s, D = _TRIG[vid]
            m = r * D
            if m.denominator != 1:
                raise Unsupported(f"angle {r}*{v.name} with trig atoms for {v.name}/{D}")
            m = int(m)
            base = Poly.var(c) + Poly({((s.id, 1),): _I})
            if m < 0:
                base = Poly.var(c) - Poly({((s.id, 1),): _I})
                m = -m
            out = out * base ** m
        else:
            raise Unsupported(f"trigonometric function of {v.name}, which has no trig atoms (declare it with Poly.angle)")
    return out


def cos(phi):
    e = expi(phi)
    return (e + e.conj()) / 2


def sin(phi):
    e = expi(phi)
    return (e - e.conj()) * Poly({(): Cyc.zeta(-8) * Cyc.rat(Fraction(1, 2))})
