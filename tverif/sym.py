"""Symbolic execution context: path condition, forking by re-execution, obligations, SMT back ends."""
from __future__ import annotations

import os
import subprocess
import tempfile
import time
from fractions import Fraction

import z3

from .ring import Poly, Var, Unsupported, PI_VAR, _VARS, _TRIG

_CUR = []


def current() -> "Ctx":
    if not _CUR:
        raise Unsupported("symbolic operation outside a verification context")
    return _CUR[-1]


def have_ctx():
    return bool(_CUR)


class PathLimit(Exception):
    pass


class Infeasible(Exception):
    """the current path became infeasible (assume(False)); silently abandoned"""


class SBool:
    """symbolic truth value (z3 BoolRef). bool(x) forks the current path."""
    __slots__ = ("e",)

    def __init__(self, e):
        self.e = e

    def __bool__(self):
        return current().decide(self.e)

    def __and__(self, o):
        return SBool(z3.And(self.e, as_z3bool(o)))

    __rand__ = __and__

    def __or__(self, o):
        return SBool(z3.Or(self.e, as_z3bool(o)))

    __ror__ = __or__

    def __invert__(self):
        return SBool(z3.Not(self.e))

    def __repr__(self):
        return f"SBool({self.e})"

    def __deepcopy__(self, memo):
        return self


def as_z3bool(x):
    if isinstance(x, SBool):
        return x.e
    if isinstance(x, z3.BoolRef):
        return x
    if isinstance(x, Poly):
        r = x != 0
        return as_z3bool(r)
    return z3.BoolVal(bool(x))


def z3var(v: Var):
    c = current()
    return c.z3var(v)


def sqrt2_z3():
    return current().sqrt2()


# a rational enclosure of pi: every "unsat" proved for all values in the interval holds for the real pi.
PI_LO = Fraction(3141592653589793, 10 ** 15)
PI_HI = Fraction(3141592653589794, 10 ** 15)


def _rv(fr: Fraction):
    return z3.RealVal(f"{fr.numerator}/{fr.denominator}")


class Obligation:
    __slots__ = ("name", "status", "backend", "time", "detail", "model", "path", "kind")

    def __init__(self, name, status, backend, t, detail="", model=None, path=None, kind="ensures"):
        self.name, self.status, self.backend, self.time = name, status, backend, t
        self.detail, self.model, self.path, self.kind = detail, model, path, kind

    def to_json(self):
        return {"name": self.name, "status": self.status, "backend": self.backend, "time_s": round(self.time, 4),
                "detail": self.detail, "model": self.model, "path": self.path, "kind": self.kind}


class Ctx:
    """One symbolic run (one path) of a harness."""

    def __init__(self, prefix=(), timeout_ms=20000, concrete=None, use_cvc5=True, both=False):
        self.prefix = list(prefix)
        self.trace = []          # decisions taken on this run (bool)
        self.forks = []          # alternative prefixes discovered
        self.pc = []             # z3 path condition
        self.side = []           # side constraints of atoms (definitions of mod/round/sqrt2/trig/pi)
        self._numeric_defs = set()   # indices in self.side of definitions that point_feasible() replaces by numeric values (cos^2+sin^2 == 1, pi*invpi == 1)
        self._z3vars = {}
        self._sqrt2 = None
        self.obligations = []
        self.inputs = {}         # name -> Poly var (symbolic inputs declared by the harness)
        self.timeout_ms = timeout_ms
        self.concrete = concrete  # dict name->value in replay mode
        self.use_cvc5 = use_cvc5
        self.both = both
        self.n_solver_calls = 0
        self.solver_time = 0.0
        self.notes = []
        self.fresh = 0
        self.sym_pi = False      # pi is kept symbolic once a real input has been declared (or the harness asks for it)

    # ------------------------------------------------------------------ context management
    def __enter__(self):
        _CUR.append(self)
        return self

    def __exit__(self, *a):
        _CUR.pop()

    @property
    def symbolic(self):
        return self.concrete is None

    # ------------------------------------------------------------------ inputs
    def real(self, name, angle_denom=None):
        """declare a real input.  angle_denom=D makes it usable inside cos/sin/exp as multiples of name/D."""
        if not self.symbolic:
            return float(self.concrete[name])
        self.sym_pi = True
        if name in self.inputs:
            return self.inputs[name]
        p = Poly.angle(name, angle_denom) if angle_denom else Poly.new_real(name)
        self.inputs[name] = p
        return p

    def integer(self, name):
        if not self.symbolic:
            return int(self.concrete[name])
        if name in self.inputs:
            return self.inputs[name]
        p = Poly.new_int(name)
        self.inputs[name] = p
        return p

    def boolean(self, name):
        if not self.symbolic:
            return bool(self.concrete[name])
        if name in self.inputs:
            return self.inputs[name]
        b = SBool(z3.Bool(name))
        self.inputs[name] = b
        return b

    def fresh_real(self, hint="t"):
        self.fresh += 1
        return z3.Real(f"{hint}!{self.fresh}")

    def fresh_int(self, hint="k"):
        self.fresh += 1
        return z3.Int(f"{hint}!{self.fresh}")

    # ------------------------------------------------------------------ z3 plumbing
    def z3var(self, v: Var):
        if v.id in self._z3vars:
            return self._z3vars[v.id]
        if v.kind == "atom":
            z = v.z3
        elif v.kind == "int":
            z = z3.Int(v.name)
        elif v.kind == "pi":
            z = z3.Real("pi")
            self.side.append(z3.And(z > _rv(PI_LO), z < _rv(PI_HI)))
        elif v.kind == "invpi":
            z = z3.Real("invpi")
            self._z3vars[v.id] = z
            self._numeric_defs.add(len(self.side))
            self.side.append(z * self.z3var(PI_VAR) == 1)
            return z
        elif v.kind in ("cos", "sin"):
            z = z3.Real(v.name)
            self._z3vars[v.id] = z
            p = self.z3var(v.partner)
            if v.kind == "cos":
                self._numeric_defs.add(len(self.side))
                self.side.append(z * z + p * p == 1)
            return z
        else:
            z = z3.Real(v.name)
        self._z3vars[v.id] = z
        return z

    def sqrt2(self):
        if self._sqrt2 is None:
            self._sqrt2 = z3.Real("sqrt2")
            self.side.append(z3.And(self._sqrt2 > 0, self._sqrt2 * self._sqrt2 == 2))
        return self._sqrt2

    def _solver(self):
        s = z3.Solver()
        s.set("timeout", self.timeout_ms)
        for c in self.side:
            s.add(c)
        for c in self.pc:
            s.add(c)
        return s

    def _inc_solver(self):
        """incremental solver holding side + pc (both append-only); obligations are pushed/popped on top of it"""
        st = getattr(self, "_inc", None)
        if st is None:
            s = z3.Solver()
            s.set("timeout", self.timeout_ms)
            st = self._inc = [s, 0, 0]
        s = st[0]
        for c in self.side[st[1]:]:
            s.add(c)
        st[1] = len(self.side)
        for c in self.pc[st[2]:]:
            s.add(c)
        st[2] = len(self.pc)
        return s

    def _check(self, extra, want_model=False):
        t0 = time.time()
        self.n_solver_calls += 1
        s = self._inc_solver()
        s.push()
        try:
            s.add(extra)
            # atoms created while converting `extra` may have appended side constraints after the push: they are part of this query too
            n_side = self._inc[1]
            for c in self.side[n_side:]:
                s.add(c)
            r = s.check()
            model = s.model() if r == z3.sat else None
        finally:
            s.pop()
        fresh = None
        if r == z3.unknown or (r == z3.sat and want_model):
            # the incremental core gave up (or a generic model is wanted): one-shot solver with the full tactic pipeline
            fresh = self._solver()
            fresh.add(extra)
            if r == z3.unknown:
                r = fresh.check()
                model = fresh.model() if r == z3.sat else None
        backend = "z3"
        if r == z3.sat and want_model:
            s2 = fresh
            # prefer a generic counterexample (inputs non-zero and pairwise distinct): replays are more telling
            s2.push()
            zs = []
            for p in self.inputs.values():
                if isinstance(p, Poly):
                    try:
                        zs.append(p.to_z3())
                    except Exception:
                        pass
            for z in zs:
                s2.add(z != 0)
            if len(zs) > 1:
                s2.add(z3.Distinct(*[z3.ToReal(z) if z3.is_int(z) else z for z in zs]))
            s2.set("timeout", min(self.timeout_ms, 3000))
            if s2.check() == z3.sat:
                model = s2.model()
            s2.pop()
        res = str(r)
        if r == z3.unknown and self.use_cvc5:
            res2 = _cvc5_check(fresh, self.timeout_ms)
            if res2 in ("sat", "unsat"):
                res, backend = res2, "cvc5"
        dt = time.time() - t0
        self.solver_time += dt
        return res, backend, model, dt

    # ------------------------------------------------------------------ forking
    def decide(self, e):
        """truth value of the symbolic condition e on this path; may register a fork"""
        e = z3.simplify(e)
        if z3.is_true(e):
            return True
        if z3.is_false(e):
            return False
        pos = len(self.trace)
        if pos < len(self.prefix):
            d = self.prefix[pos]
            self.trace.append(d)
            self.pc.append(e if d else z3.Not(e))
            return d
        rt, _, _, _ = self._check(e)
        rf, _, _, _ = self._check(z3.Not(e))
        if rt == "unsat" and rf == "unsat":
            raise Infeasible()
        if rt == "unsat":
            d = False
        elif rf == "unsat":
            d = True
        else:
            # both feasible (or unknown): explore both
            d = True
            self.forks.append(self.trace + [False])
        self.trace.append(d)
        self.pc.append(e if d else z3.Not(e))
        return d

    def assume(self, cond):
        if isinstance(cond, bool):
            if not cond:
                raise Infeasible()
            return
        e = as_z3bool(cond)
        self.pc.append(e)

    # ------------------------------------------------------------------ obligations
    def check(self, name, cond, kind="ensures", detail=""):
        """emit an obligation: under the current path condition `cond` holds."""
        t0 = time.time()
        path = "".join("T" if d else "F" for d in self.trace)
        if not self.symbolic:
            ok = bool(cond)
            self.obligations.append(Obligation(name, "discharged" if ok else "failed", "native", time.time() - t0, detail, None, path, kind))
            return ok
        if isinstance(cond, (bool,)) or (not isinstance(cond, (SBool, Poly, z3.BoolRef))):
            cond = bool(cond)
            if cond:
                self.obligations.append(Obligation(name, "discharged", "normal-form", time.time() - t0, detail, None, path, kind))
                return True
            # constant False on a path: failed iff the path is feasible
            r, backend, model, dt = self._check(z3.BoolVal(True), want_model=True)
            if r == "unsat":
                self.obligations.append(Obligation(name, "discharged", backend + "(path infeasible)", dt, detail, None, path, kind))
                return True
            st = "failed" if r == "sat" else "undecided"
            self.obligations.append(Obligation(name, st, backend, dt, detail, self._model_json(model), path, kind))
            return False
        e = as_z3bool(cond)
        r, backend, model, dt = self._check(z3.Not(e), want_model=True)
        if self.both and r in ("sat", "unsat"):
            s = self._solver()
            s.add(z3.Not(e))
            r2 = _cvc5_check(s, min(self.timeout_ms, 15000))     # the second opinion is a cross-check, not the verdict: bounded so that it cannot eat the task's time limit
            if r2 in ("sat", "unsat") and r2 != r:
                self.obligations.append(Obligation(name, "undecided", "z3/cvc5 DISAGREE", dt, detail, None, path, kind))
                return False
            if r2 in ("sat", "unsat"):
                backend = "z3+cvc5"
        if r == "unsat":
            self.obligations.append(Obligation(name, "discharged", backend, dt, detail, None, path, kind))
            return True
        if r == "sat":
            self.obligations.append(Obligation(name, "failed", backend, dt, detail, self._model_json(model), path, kind))
            return False
        self.obligations.append(Obligation(name, "undecided", backend, dt, detail + " solver: unknown", None, path, kind))
        return False

    def fail_numeric(self, name, model, detail="", kind="ensures"):
        path = "".join("T" if d else "F" for d in self.trace)
        self.obligations.append(Obligation(name, "failed", "normal-form+witness", 0.0, detail, model, path, kind))

    def discharged(self, name, backend="normal-form", detail="", kind="ensures", t=0.0):
        path = "".join("T" if d else "F" for d in self.trace)
        self.obligations.append(Obligation(name, "discharged", backend, t, detail, None, path, kind))

    def undecided(self, name, detail="", kind="ensures"):
        path = "".join("T" if d else "F" for d in self.trace)
        self.obligations.append(Obligation(name, "undecided", "-", 0.0, detail, None, path, kind))

    def feasible_model(self):
        """a model of the current path condition (inputs only) or None"""
        r, backend, model, dt = self._check(z3.BoolVal(True), want_model=True)
        if r == "sat":
            return self._model_json(model)
        return None

    def _model_json(self, model):
        if model is None:
            return None
        out = {}
        for name, p in self.inputs.items():
            if isinstance(p, SBool):
                v = model.eval(p.e, model_completion=True)
                out[name] = bool(z3.is_true(v))
                continue
            try:
                z = p.to_z3()
            except Exception:
                continue
            v = model.eval(z, model_completion=True)
            out[name] = _z3num(v)
        return out

    def point_feasible(self, vals):
        """does the path condition hold at these input values?  Inputs, pi, 1/pi and the trig atoms of the angle inputs are replaced by (rational images of) their
        floating-point values - so a path like |sin(c)| <= 1e-10 is recognised as taken at c = pi -; auxiliary atoms (mod / round / abs / sqrt) stay constrained
        by their definitions and are left to the solver.  Used only to select witnesses; every witness is replayed natively afterwards."""
        import math
        from . import ring
        subs = []
        for name, p in self.inputs.items():
            if not isinstance(p, Poly) or name not in vals or not isinstance(vals[name], (int, float)):
                continue
            vs = p.vars()
            if len(vs) != 1:
                continue
            var = vs[0]
            x = vals[name]
            z = self.z3var(var)
            subs.append((z, z3.IntVal(int(x)) if z3.is_int(z) else _rv(Fraction(x))))
            trig = ring._TRIG.get(var.id)
            if trig:
                c, sn, D = trig
                for tv, val in ((c, math.cos(x / D)), (sn, math.sin(x / D))):
                    if tv.id in self._z3vars:
                        subs.append((self._z3vars[tv.id], _rv(Fraction(val))))
        if ring.PI_VAR.id in self._z3vars:
            subs.append((self._z3vars[ring.PI_VAR.id], _rv(Fraction(math.pi))))
        if ring.INVPI_VAR.id in self._z3vars:
            subs.append((self._z3vars[ring.INVPI_VAR.id], _rv(Fraction(1 / math.pi))))
        s = z3.Solver()
        s.set("timeout", 3000)
        for k, c in enumerate(self.side):
            if k not in self._numeric_defs:
                s.add(z3.substitute(c, *subs) if subs else c)
        for c in self.pc:
            s.add(z3.substitute(c, *subs) if subs else c)
        return s.check() == z3.sat

    # ------------------------------------------------------------------ models of non-polynomial operations
    def model_mod(self, a: Poly, m: Poly, qmax=8):
        """Python's a % m for reals with m > 0 (or ints): r with a = k*m + r, 0 <= r < m, k integer.
        For non-constant-free m (e.g. 2*pi) the product k*m is kept linear by case-splitting k over [-qmax, qmax];
        outside that range the path is abandoned with a note (bounded quotient: stated in the evidence)."""
        if a.isint and m.isint:
            za, zm = a.to_z3(), m.to_z3()
            # python: result has the sign of m
            r = z3.If(zm > 0, za % zm, -((-za) % (-zm)))
            return Poly.atom(r, isint=True)
        za, zm = a.to_z3(), m.to_z3()
        r = self.fresh_real("mod")
        k = self.fresh_int("q")
        kr = z3.ToReal(k)
        if m.is_const():
            self.side.append(z3.And(za == kr * zm + r, r >= 0, r < zm) if complex(m.const_cyc()).real > 0
                             else z3.And(za == kr * zm + r, r <= 0, r > zm))
        else:
            alts = [z3.And(k == j, za == j * zm + r) for j in range(-qmax, qmax + 1)]
            self.side.append(z3.And(z3.Or(*alts), z3.If(zm > 0, z3.And(r >= 0, r < zm), z3.And(r <= 0, r > zm))))
            self.notes.append(f"mod: quotient of {a} % {m} restricted to [-{qmax},{qmax}]")
        return Poly.atom(r)

    def model_round(self, x: Poly, n):
        """round(x, n) as a *function* of x (congruence: equal arguments give equal results):
        r = rnd_n(x) / 10**n with rnd_n(x) an integer and |r - x| <= 0.5 * 10**-n (ties left unspecified)."""
        if isinstance(n, Poly):
            n = n.to_python()
        zx = x.to_z3()
        if z3.is_int(zx):
            zx = z3.ToReal(zx)
        f = z3.Function(f"rnd_{n}", z3.RealSort(), z3.IntSort())
        j = f(zx)
        if n is None:
            self.side.append(z3.And(z3.ToReal(j) - zx <= _rv(Fraction(1, 2)), zx - z3.ToReal(j) <= _rv(Fraction(1, 2))))
            return Poly.atom(j, isint=True)
        scale = Fraction(10) ** n
        r = z3.ToReal(j) / _rv(scale)
        half = Fraction(1, 2) / scale
        self.side.append(z3.And(r - zx <= _rv(half), zx - r <= _rv(half)))
        return Poly.atom(r)


def _z3num(v):
    try:
        if z3.is_int_value(v):
            return v.as_long()
        if z3.is_rational_value(v):
            return float(Fraction(v.numerator_as_long(), v.denominator_as_long()))
        if z3.is_algebraic_value(v):
            return float(v.approx(20).as_fraction())
    except Exception:
        pass
    try:
        return float(str(v).replace("?", ""))
    except Exception:
        return str(v)


def _cvc5_check(solver, timeout_ms):
    try:
        smt = solver.to_smt2()
        logic = "(set-logic ALL)\n"
        with tempfile.NamedTemporaryFile("w", suffix=".smt2", delete=False) as f:
            f.write(logic + smt)
            fn = f.name
        try:
            out = subprocess.run(["/usr/bin/cvc5", "--lang", "smt2", f"--tlimit={timeout_ms}", fn], capture_output=True, text=True,
                                 timeout=timeout_ms / 1000 + 5)
            first = (out.stdout.strip().splitlines() or [""])[0].strip()
            return first if first in ("sat", "unsat") else "unknown"
        finally:
            os.unlink(fn)
    except Exception:
        return "unknown"
