"""Assumed contracts of cirq and sympy as recording stand-ins.

Inside interpreted Tangelo code `import cirq` / `from sympy... import ...` resolve to these objects: every constructor records a
term; `semantics_*` evaluate a recorded term list with the libraries' DOCUMENTED definitions (the assumption), in exact or numeric
arithmetic.  The bounded layer validates these definitions against the real libraries (cirq.unitary / sympy represent).
"""
from __future__ import annotations

from fractions import Fraction

from . import qsem, ring
from .ring import Poly, Unsupported


# ---------------------------------------------------------------------------------------------------------------------
# cirq

class CQ:
    """cirq.LineQubit stand-in"""

    def __init__(self, x):
        self.x = x

    def __repr__(self):
        return f"q({self.x})"


class CGateT:
    """a cirq gate term: name, parameters, number of extra controls"""

    def __init__(self, name, params=(), ncontrols=0, nq=1):
        self.name, self.params, self.ncontrols, self.nq = name, tuple(params), ncontrols, nq

    def controlled(self, num_controls=1):
        return CGateT(self.name, self.params, self.ncontrols + num_controls, self.nq)

    def __call__(self, *qubits, **kw):
        if kw:
            raise Unsupported(f"cirq gate call with keywords {kw}")
        if len(qubits) != self.nq + self.ncontrols:
            raise ValueError(f"cirq: gate {self.name} expects {self.nq + self.ncontrols} qubits, got {len(qubits)}")
        return COp(self, [q.x for q in qubits])

    def on(self, *qubits):
        return self(*qubits)

    def on_each(self, *qubits):
        qs = qubits[0] if len(qubits) == 1 and isinstance(qubits[0], (list, tuple)) else qubits
        return [COp(self, [q.x]) for q in qs]

    def __repr__(self):
        return f"{self.name}{self.params}" + (f".controlled({self.ncontrols})" if self.ncontrols else "")


class COp:
    def __init__(self, gate, qubits, key=None):
        self.gate, self.qubits, self.key = gate, list(qubits), key

    def __repr__(self):
        return f"{self.gate!r}{self.qubits}"


class CCircuit:
    def __init__(self, ops=None):
        self.ops = []
        if ops:
            self.append(ops)

    def append(self, x):
        if isinstance(x, COp):
            self.ops.append(x)
        else:
            for y in x:
                self.append(y)

    def __iadd__(self, x):
        self.append(x)
        return self

    def __len__(self):
        return len(self.ops)


class _LineQubit:
    @staticmethod
    def range(n):
        return [CQ(i) for i in range(n)]

    def __call__(self, i):
        return CQ(i)


class _FakeMeta(type):
    def __getattr__(cls, name):
        raise Unsupported(f"{cls.__name__}.{name}: not part of the recorded library model (the obligation becomes undecided; the bounded native run still uses the real library)")


class FakeCirq(metaclass=_FakeMeta):
    """records what Tangelo asks cirq for"""
    H = CGateT("H")
    X = CGateT("X")
    Y = CGateT("Y")
    Z = CGateT("Z")
    S = CGateT("S")
    T = CGateT("T")
    I = CGateT("I")
    CNOT = CGateT("CNOT", nq=2)
    CX = CGateT("CNOT", nq=2)
    CZ = CGateT("CZ2", nq=2)
    SWAP = CGateT("SWAP", nq=2)
    CSWAP = CGateT("CSWAP3", nq=3)
    FREDKIN = CGateT("CSWAP3", nq=3)
    CCX = CGateT("CCX3", nq=3)
    TOFFOLI = CGateT("CCX3", nq=3)
    CCNOT = CGateT("CCX3", nq=3)
    CCZ = CGateT("CCZ3", nq=3)
    LineQubit = _LineQubit()
    Circuit = CCircuit

    @staticmethod
    def ZPowGate(exponent=1.0, global_shift=0.0):
        return CGateT("ZPow", (exponent, global_shift))

    @staticmethod
    def XXPowGate(exponent=1.0, global_shift=0.0):
        return CGateT("XXPow", (exponent, global_shift), nq=2)

    @staticmethod
    def rx(t):
        return CGateT("rx", (t,))

    @staticmethod
    def ry(t):
        return CGateT("ry", (t,))

    @staticmethod
    def rz(t):
        return CGateT("rz", (t,))

    @staticmethod
    def measure(*qubits, key=None):
        return COp(CGateT("measure", nq=len(qubits)), [q.x for q in qubits], key=key)

    @staticmethod
    def asymmetric_depolarize(p_x=None, p_y=None, p_z=None):
        return CGateT("asymmetric_depolarize", (p_x, p_y, p_z))

    @staticmethod
    def depolarize(p, n_qubits=1):
        return CGateT("depolarize", (p,), nq=n_qubits)


def _pi_times(t, A):
    """the angle pi*t"""
    if A is qsem.Exact:
        return Poly.pi() * Poly._coerce(t) if not isinstance(t, Poly) else Poly.pi() * t
    import math
    return math.pi * float(t)


def cirq_gate_matrix(g: CGateT, A):
    """documented cirq unitaries:
    rx/ry/rz(t) = exp(-i t sigma/2); ZPowGate(e, s) = exp(i pi s e) diag(1, exp(i pi e));
    XXPowGate(e, s) = exp(i pi s e) (P+ + exp(i pi e) P-), P+- projectors on XX = +-1; H X Y Z S T CNOT SWAP standard; I identity"""
    n, p = g.name, g.params
    if n in ("H", "X", "Y", "Z", "S", "T", "I", "SWAP"):
        return qsem.base_matrix(n, None, A)
    if n == "CNOT":
        o, z = A.one, A.zero
        return [[o, z, z, z], [z, o, z, z], [z, z, z, o], [z, z, o, z]]
    if n in ("CZ2", "CSWAP3", "CCX3", "CCZ3"):
        # cirq's named multi-qubit gates: first qubit(s) are the control(s)
        base, nc = {"CZ2": ("Z", 1), "CSWAP3": ("SWAP", 1), "CCX3": ("X", 2), "CCZ3": ("Z", 2)}[n]
        B = qsem.base_matrix(base, None, A)
        d = len(B) * 2 ** nc
        M = [[A.one if i == j else A.zero for j in range(d)] for i in range(d)]
        off = d - len(B)
        for i in range(len(B)):
            for j in range(len(B)):
                M[off + i][off + j] = B[i][j]
        return M
    if n in ("rx", "ry", "rz"):
        return qsem.base_matrix(n.upper(), p[0], A)
    if n == "ZPow":
        e, s = p
        ph = A.expi(_pi_times(e, A))
        gl = A.expi(_pi_times(s * e, A)) if _nonzero(s) else A.one
        return [[gl, A.zero], [A.zero, gl * ph]]
    if n == "XXPow":
        e, s = p
        gl = A.expi(_pi_times(s * e, A)) if _nonzero(s) else A.one
        w = A.expi(_pi_times(e, A))
        half = Poly.const(Fraction(1, 2)) if A is qsem.Exact else 0.5
        a = (A.one + w) * half * gl      # coefficient of identity
        b = (A.one - w) * half * gl      # coefficient of XX
        z = A.zero
        return [[a, z, z, b], [z, a, b, z], [z, b, a, z], [b, z, z, a]]
    raise Unsupported(f"no documented unitary for cirq gate {n}")


def _nonzero(x):
    if isinstance(x, Poly):
        return not x.is_zero()
    return x != 0


def cirq_unitary(ops, n, A):
    """operator of a recorded cirq op list (qubit order of each op: controls first, then the gate's own qubits)"""
    rows = {j: {j: A.one} for j in range(1 << n)}
    for op in ops:
        g = op.gate
        if g.name in ("measure", "asymmetric_depolarize", "depolarize"):
            raise Unsupported("non-unitary cirq op in a unitary evaluation")
        M = cirq_gate_matrix(g, A)
        controls = op.qubits[:g.ncontrols]
        targets = op.qubits[g.ncontrols:]
        rows = apply_matrix(rows, M, targets, controls, n, A)
    return rows


def apply_matrix(rows, M, targets, controls, n, A):
    k = len(targets)
    tmask = [1 << (n - 1 - t) for t in targets]
    cmask = 0
    for c in controls:
        cmask |= 1 << (n - 1 - c)
    allt = 0
    for m in tmask:
        allt |= m
    new = {}
    for base in range(1 << n):
        if base & allt:
            continue
        idxs = []
        for sub in range(2 ** k):
            j = base
            for b in range(k):
                if (sub >> (k - 1 - b)) & 1:
                    j |= tmask[b]
            idxs.append(j)
        if (base & cmask) != cmask:
            for j in idxs:
                if j in rows:
                    new[j] = rows[j]
            continue
        for a, ja in enumerate(idxs):
            acc = {}
            for b, jb in enumerate(idxs):
                m = M[a][b]
                if A.is_zero(m):
                    continue
                rb = rows.get(jb)
                if not rb:
                    continue
                for col, v in rb.items():
                    x = m * v
                    if col in acc:
                        x = acc[col] + x
                    if A.is_zero(x):
                        acc.pop(col, None)
                    else:
                        acc[col] = x
            if acc:
                new[ja] = acc
    return new


# ---------------------------------------------------------------------------------------------------------------------
# sympy.physics.quantum.gate

class SGate:
    """a sympy gate term; products are kept as lists in multiplication order (leftmost factor first)"""

    def __init__(self, name, qubits, matrix=None, inner=None, controls=()):
        self.name, self.qubits, self.matrix, self.inner, self.controls = name, tuple(qubits), matrix, inner, tuple(controls)

    def __mul__(self, other):
        return SProd([self]) * other

    def __rmul__(self, other):
        if other == 1:
            return SProd([self])
        return NotImplemented

    def __repr__(self):
        return f"{self.name}{self.qubits}" + (f"<ctrl {self.controls}>" if self.controls else "")


class SProd:
    def __init__(self, factors):
        self.factors = list(factors)

    def __mul__(self, other):
        if isinstance(other, SGate):
            return SProd(self.factors + [other])
        if isinstance(other, SProd):
            return SProd(self.factors + other.factors)
        return NotImplemented

    def __rmul__(self, other):
        if other == 1:
            return self
        return NotImplemented


class SMatrix(list):
    pass


class FakeSympyGates(metaclass=_FakeMeta):
    @staticmethod
    def HadamardGate(t):
        return SGate("H", [t])

    @staticmethod
    def XGate(t):
        return SGate("X", [t])

    @staticmethod
    def YGate(t):
        return SGate("Y", [t])

    @staticmethod
    def ZGate(t):
        return SGate("Z", [t])

    @staticmethod
    def PhaseGate(t):
        return SGate("S", [t])

    @staticmethod
    def TGate(t):
        return SGate("T", [t])

    @staticmethod
    def SwapGate(a, b):
        return SGate("SWAP", [a, b])

    @staticmethod
    def CNotGate(c, t):
        return SGate("X", [t], controls=[c])

    @staticmethod
    def UGate(target, matrix):
        t = target[0] if isinstance(target, (tuple, list)) else target
        return SGate("U", [t], matrix=matrix)

    @staticmethod
    def CGate(control, gate):
        cs = tuple(control) if isinstance(control, (tuple, list)) else (control,)
        return SGate(gate.name, gate.qubits, matrix=gate.matrix, controls=tuple(gate.controls) + cs)


class FakeSympy(metaclass=_FakeMeta):
    """the handful of sympy names used by translate_sympy.py"""
    I = qsem.I_POLY

    @staticmethod
    def cos(x):
        return ring.cos(qsem.as_angle(x))

    @staticmethod
    def sin(x):
        return ring.sin(qsem.as_angle(x))

    @staticmethod
    def exp(x):
        from .interp import _exp
        return _exp(Poly._coerce(x))

    @staticmethod
    def ImmutableMatrix(rows):
        return SMatrix([list(r) for r in rows])

    UGate = FakeSympyGates.UGate
    CGate = FakeSympyGates.CGate

    @staticmethod
    def symbols(name, **kw):
        raise Unsupported("sympy.symbols inside a symbolic run")


def sympy_unitary(prod, n, A):
    """operator of a recorded sympy product: the RIGHTMOST factor acts first (operator product applied to a ket);
    documented gates: H X Y Z standard, PhaseGate = S, TGate = T, SwapGate, CNotGate(control, target), CGate(controls, g), UGate(t, M)"""
    factors = prod.factors if isinstance(prod, SProd) else ([prod] if isinstance(prod, SGate) else [])
    rows = {j: {j: A.one} for j in range(1 << n)}
    for g in reversed(factors):
        if g.name == "U":
            M = [[Poly._coerce(x) if A is qsem.Exact else complex(x) for x in r] for r in g.matrix]
        else:
            M = qsem.base_matrix(g.name, None, A)
        rows = apply_matrix(rows, M, list(g.qubits), list(g.controls), n, A)
    return rows
