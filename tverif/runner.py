"""CLI:  check <Cxx> [--tier quick|thorough]   |   check --replay <file>   |   check --list

exit 0: every obligation discharged (known findings printed as KNOWN-FINDING lines)
exit 1: VIOLATION lines printed (failed obligation, replayed natively where a counterexample exists)
exit 2: undecided obligations only (UNDECIDED lines, no VIOLATION)
exit 3: checker crash / vacuous run
"""
from __future__ import annotations

import argparse
import hashlib
import importlib
import json
import multiprocessing as mp
import os
import sys
import time
import traceback

VERIF = os.path.dirname(os.path.dirname(os.path.abspath(__file__)))
REPO = os.path.realpath(os.environ.get("TVERIF_REPO", "/repo"))


def _setup_path():
    if VERIF not in sys.path:
        sys.path.insert(0, VERIF)
    if REPO != "/repo":
        sys.path.insert(0, REPO)


def _load(prop):
    _setup_path()
    import warnings
    warnings.filterwarnings("ignore")
    import tangelo  # noqa: F401  (import before forking so that workers share it)
    real = os.path.realpath(os.path.dirname(os.path.dirname(tangelo.__file__)))
    if real != REPO:
        print(f"CHECKER-ERROR: tangelo imported from {real}, expected {REPO}")
        sys.exit(3)
    mod = importlib.import_module(f"contracts.{prop}")
    return mod


_COV = [None]


def _cover_begin():
    """development aid (tools/cover_audit.sh): line coverage of the repository code by the native runs (coverage.py) and by the interpreter (tverif.interp._COVER)"""
    d = os.environ.get("TVERIF_COVER")
    if not d or _COV[0] is not None:
        return
    import coverage
    os.makedirs(d, exist_ok=True)
    _COV[0] = coverage.Coverage(data_file=os.path.join(d, f".coverage.{os.getpid()}"), source=[os.path.join(os.environ.get("TVERIF_REPO", "/repo"), "tangelo")])
    _COV[0].start()


def _cover_end():
    d = os.environ.get("TVERIF_COVER")
    if not d or _COV[0] is None:
        return
    from tverif import interp as _interp
    _COV[0].save()
    with open(os.path.join(d, f"interp.{os.getpid()}.txt"), "w") as f:
        for fn, ln in sorted((a or "?", b) for a, b in _interp._COVER):
            f.write(f"{fn}:{ln}\n")


def _task(args):
    cid, st, tier, timeout_ms, both, seed = args
    from tverif.engine import run_task
    _cover_begin()
    try:
        return run_task(cid, st, tier, timeout_ms, both, seed)
    except BaseException as e:  # checker crash inside a worker
        return {"cid": cid, "st": st, "crash": f"{type(e).__name__}: {e}\n{traceback.format_exc()}"}
    finally:
        _cover_end()


def load_known():
    p = os.path.join(VERIF, "known_findings.json")
    if not os.path.exists(p):
        return []
    return json.load(open(p))["findings"]


def match_known(known, prop, oname, st, model):
    for k in known:
        if k.get("status") != "open" or k["property"] != prop:
            continue
        if k["obligation"] != oname:
            continue
        want = k.get("structure") or {}
        if isinstance(st, dict) and all(st.get(a) == b for a, b in want.items()):
            return k
        if not want:
            return k
    return None


FULL_STRUCTURES_IN_QUICK = {"C01", "C03", "C04", "C10", "C12", "C13", "C15", "C16", "C17", "C19", "C20"}


def run_property(prop, tier, seed, jobs):
    from tverif.engine import CONTRACTS
    from tverif import interp as _interp
    t0 = time.time()
    mod = _load(prop)
    meta = getattr(mod, "PROPERTY", {})
    cids = [c for c in CONTRACTS if CONTRACTS[c].prop == prop]
    only = os.environ.get("TVERIF_ONLY")        # development aid: run the contracts whose id contains one of the comma-separated fragments (evidence goes to out/)
    if only:
        cids = [c for c in cids if any(f in c for f in only.split(","))]
    timeout_ms = 20000 if tier == "quick" else 120000
    both = tier == "thorough"
    tasks = []
    struct_counts = {}
    # properties whose complete (thorough) structure set runs in well under a minute use it in the quick tier too: a sampled subset can drop exactly the one
    # configuration a change needs (seed C13-5); the quick tier keeps its shorter solver time-outs and native sample counts
    struct_tier = "thorough" if prop in FULL_STRUCTURES_IN_QUICK else tier
    for cid in cids:
        sts = list(CONTRACTS[cid].structures(struct_tier))
        struct_counts[cid] = len(sts)
        for st in sts:
            tasks.append((cid, st, tier, timeout_ms, both, seed))
    if not tasks:
        print(f"CHECKER-ERROR: no obligations generated for {prop}")
        return 3
    ctxm = mp.get_context("fork")
    results = []
    if jobs > 1 and len(tasks) > 1:
        with ctxm.Pool(jobs) as pool:
            for r in pool.imap_unordered(_task, tasks, chunksize=max(1, len(tasks) // (jobs * 8))):
                results.append(r)
    else:
        results = [_task(t) for t in tasks]
    known = load_known()
    crashes = [r for r in results if "crash" in r]
    all_obl, failed, undecided, knownhits, skipped = [], [], [], [], []
    touched = {}
    native_runs = 0
    native_checked = 0
    native_failed = []
    solver_time = 0.0
    solver_calls = 0
    backends = {}
    notes = set()
    per_contract = {}
    for r in results:
        if "crash" in r:
            continue
        pc = per_contract.setdefault(r["cid"], {"structures": 0, "obligations": 0, "discharged": 0, "paths": 0, "native_runs": 0})
        pc["structures"] += 1
        pc["paths"] += r["paths"]
        pc["native_runs"] += r["native"]["runs"]
        for t in r["touched"]:
            touched[(t["file"], t["qualname"])] = t
        notes.update(r["notes"])
        solver_time += r["solver_time"]
        solver_calls += r["solver_calls"]
        native_runs += r["native"]["runs"]
        native_checked += r["native"].get("checked", 0)
        for nf in r["native"]["failed"]:
            native_failed.append({"cid": r["cid"], "st": r["st"], **nf})
        for o in r["obligations"]:
            o = dict(o)
            o["cid"], o["st"] = r["cid"], r["st"]
            all_obl.append(o)
            pc["obligations"] += 1
            backends[o["backend"]] = backends.get(o["backend"], 0) + 1
            if o["status"] == "discharged":
                pc["discharged"] += 1
            elif o["status"] == "failed":
                failed.append(o)
            elif o["status"] == "skipped":
                skipped.append(o)
            else:
                undecided.append(o)
    # ---- verdicts
    os.makedirs(os.path.join(VERIF, "out", "replays", prop), exist_ok=True)
    violations = []
    printed_known = set()

    def emit_violation(oname, cid, st, values, detail, confirmed, solver_out):
        k = match_known(known, prop, oname, st, values)
        if k is not None:
            if k["id"] not in printed_known:
                print(f"KNOWN-FINDING: property={prop} {k['id']} {k['what']}")
                printed_known.add(k["id"])
            knownhits.append(k["id"])
            return
        key = hashlib.sha256(json.dumps([oname, st, values], sort_keys=True, default=str).encode()).hexdigest()[:12]
        path = os.path.join(VERIF, "out", "replays", prop, f"{key}.json")
        json.dump({"property": prop, "contract": cid, "obligation": oname, "structure": st, "values": values, "detail": detail,
                   "confirmed_by_native_replay": confirmed, "solver_output": solver_out,
                   "how_to_replay": f"cd /verif && ./check --replay {path}"}, open(path, "w"), indent=1, default=str)
        suffix = "" if confirmed else " no-failing-input-found"
        violations.append((oname, path, suffix, detail))

    for o in failed:
        rep = o.get("replay")
        confirmed = bool(rep and rep.get("confirmed"))
        if rep is not None and not confirmed and rep.get("failed") == [] and rep.get("error") is None and rep.get("checked", 0) > 0 and rep.get("evaluated"):
            # counter-model does not reproduce natively: spurious (abstraction too weak) -> undecided, never a violation
            o2 = dict(o)
            o2["status"] = "undecided"
            o2["detail"] = (o.get("detail") or "") + " [counterexample spurious on native replay]"
            undecided.append(o2)
            continue
        emit_violation(o["name"], o["cid"], o["st"], o.get("model"), o.get("detail"), confirmed, f"{o['backend']}: sat")
    for nf in native_failed:
        for f in nf["failed"]:
            emit_violation(f["name"], nf["cid"], nf["st"], nf["inputs"], f["detail"], True, "bounded native run")
    seen = set()
    nviol = 0
    for oname, path, suffix, detail in violations:
        if oname in seen and nviol >= 25:
            continue
        seen.add(oname)
        nviol += 1
        print(f"VIOLATION property={prop} replay={path}{suffix}")
        print(f"   obligation: {oname}   {str(detail)[:300]}")
    und_names = {}
    for o in undecided:
        und_names.setdefault(o["name"], []).append(o)
    for name, lst in list(und_names.items())[:40]:
        print(f"UNDECIDED property={prop} obligation={name} x{len(lst)}: {str(lst[0].get('detail'))[:300]}")
    sk_names = {}
    for o in skipped:
        sk_names.setdefault(o["cid"], []).append(o)
    for cid_, lst in list(sk_names.items())[:40]:
        det = str(lst[0].get("detail"))
        if det.startswith("target ") or "TargetMissing" in det:
            print(f"NOTE property={prop} contract {cid_} skipped on {len(lst)} path(s) - the function it is written for no longer exists under that name (renamed / moved / inlined "
                  f"helper); the contracts of its callers decide: {det[:240]}")
        else:
            print(f"NOTE property={prop} modular proof {cid_} skipped on {len(lst)} path(s) - the code no longer has the shape the contract was written for; "
                  f"the S / B contracts of the same function decide: {det[:240]}")
    for c in crashes[:5]:
        print(f"CHECKER-ERROR: {c['cid']} {c['st']}: {c['crash'][:2000]}")

    # ---- evidence
    n_obl = sum(1 for o in all_obl if o["status"] != "skipped")
    n_dis = sum(1 for o in all_obl if o["status"] == "discharged")
    samples = []
    seen_c = set()
    for o in all_obl:
        if o["cid"] not in seen_c:
            seen_c.add(o["cid"])
            samples.append({"obligation": o["name"], "structure": o["st"], "status": o["status"], "backend": o["backend"], "path": o["path"]})
    for r in results:
        if "crash" not in r and r["cid"] not in seen_c and r["native"].get("sample"):
            seen_c.add(r["cid"])
            samples.append({"bounded_native_run": r["cid"], "structure": r["st"], **r["native"]["sample"]})
    from tverif.interp import MODEL_DOC
    trusted = sorted({f"model of {m}.{q}: {d}" for (m, q), d in MODEL_DOC.items()})
    level = meta.get("level", "proof")
    if violations or undecided or crashes or knownhits:
        level_out = "other"
    else:
        level_out = level
    distinct = len({json.dumps([o["cid"], o["st"], o["name"], o["path"]], sort_keys=True, default=str) for o in all_obl if o["backend"] not in ("-",)})
    ev = {
        "property_id": prop, "tier": tier, "seed": seed, "level": level_out,
        "coverage": {
            "obligations": n_obl, "discharged": n_dis,
            "checker_cmd": f"./check {prop} --tier {tier}",
            "trusted_base": meta.get("trusted_base", []) + trusted,
            "explanation": meta.get("explanation", "") + (f" | this run: {len(violations)} violation(s), {len(undecided)} undecided, known findings hit: {sorted(set(knownhits))}" if level_out == "other" and level != "other" else ""),
            "evaluations": n_obl + native_runs, "distinct_nontrivial": distinct + native_runs,
            "native_contract_evaluations": native_checked,
            "rule": "one case = one named obligation on one path of one structure (contract, structure, path); native bounded runs counted separately in native_runs",
            "samples": samples[:12],
            "functions_under_contract": sorted(touched.values(), key=lambda t: (t["file"], t["first_line"])),
            "contracts": {cid: {**per_contract.get(cid, {}), "level": CONTRACTS[cid].level, "doc": CONTRACTS[cid].doc.strip(),
                                "structures_enumerated": struct_counts[cid]} for cid in cids},
            "backends": backends, "solver_calls": solver_calls, "solver_time_s": round(solver_time, 3),
            "native_runs": native_runs, "native_failed": len(native_failed),
            "undecided": len(undecided), "failed": len(failed), "skipped_modular_proofs": {k: len(v) for k, v in sk_names.items()}, "known_findings_hit": sorted(set(knownhits)),
            "notes": sorted(notes)[:50], "bounds": meta.get("bounds", {}).get(struct_tier, meta.get("bounds", "")) if isinstance(meta.get("bounds"), dict) else meta.get("bounds", ""),
            "exhaustive": False,
        },
        "assumptions": meta.get("assumptions", []),
        "wall_s": round(time.time() - t0, 2), "violations": len(violations),
    }
    # evidence describes /repo; a run on another tree (TVERIF_REPO: seeded-change evaluation) writes to out/ instead
    evdir = os.path.join(VERIF, "evidence") if (REPO == "/repo" and not only) else os.path.join(VERIF, "out", "evidence_other_tree")
    os.makedirs(evdir, exist_ok=True)
    json.dump(ev, open(os.path.join(evdir, f"{prop}.json"), "w"), indent=1, default=str)
    print(f"{prop} [{tier}] contracts={len(cids)} structures={len(tasks)} obligations={n_obl} discharged={n_dis} failed={len(failed)} "
          f"undecided={len(undecided)} skipped={len(skipped)} native_runs={native_runs} native_checks={native_checked} native_failed={len(native_failed)} functions={len(touched)} "
          f"solver_calls={solver_calls} solver_time={solver_time:.1f}s wall={time.time() - t0:.1f}s")
    slow = sorted((r for r in results if "crash" not in r), key=lambda r: -r["wall"])[:3]
    print("slowest tasks: " + "; ".join(f"{r['cid'].split('.', 1)[1][:30]} {r['wall']:.1f}s paths={r['paths']}" for r in slow))
    if os.environ.get("TVERIF_SLOW"):          # development aid: the structures of the slowest tasks
        for r in sorted((r for r in results if "crash" not in r), key=lambda r: -r["wall"])[:int(os.environ["TVERIF_SLOW"])]:
            print(f"   slow: {r['wall']:.1f}s {r['cid']} {json.dumps(r['st'], default=str)[:300]}")
    if crashes:
        return 3
    if violations:
        return 1
    if undecided:
        return 2
    if n_obl + native_checked == 0:
        print("CHECKER-ERROR: zero obligations")
        return 3
    return 0


def do_replay(path):
    _setup_path()
    d = json.load(open(path))
    _load(d["property"])
    from tverif.engine import replay_one
    if d.get("values") is None:
        print(f"replay {path}: no concrete input (obligation {d['obligation']}); solver output: {d.get('solver_output')}")
        return 1
    r = replay_one(d["contract"], d["structure"], d["values"], d["obligation"])
    r.pop("touched", None)
    print(json.dumps(r, indent=1, default=str))
    if r["failed"]:
        print(f"REPLAY: obligation fails natively on /repo: {[f['name'] for f in r['failed']]}")
        return 1
    print("REPLAY: all obligations hold natively for these inputs")
    return 0


def main():
    ap = argparse.ArgumentParser()
    ap.add_argument("prop", nargs="?")
    ap.add_argument("--tier", default=os.environ.get("VERIF_TIER", "quick"))
    ap.add_argument("--replay")
    ap.add_argument("--jobs", type=int, default=int(os.environ.get("TVERIF_JOBS", "16")))
    a = ap.parse_args()
    seed = int(os.environ.get("VERIF_SEED", "0"))
    if a.replay:
        sys.exit(do_replay(a.replay))
    try:
        rc = run_property(a.prop, a.tier, seed, a.jobs)
    except SystemExit:
        raise
    except BaseException:
        traceback.print_exc()
        print("CHECKER-ERROR: crash")
        rc = 3
    sys.exit(rc)


if __name__ == "__main__":
    main()
