"""AST interpreter for the real Tangelo source (the verification-condition generator's front end).

Every function whose source file lies under the repository root is *interpreted from the AST parsed from the working
tree on this run*; everything else (builtins, numpy, cirq, openfermion ...) is executed natively on concrete arguments
or replaced by a model when an argument is symbolic.  Symbolic scalars are `ring.Poly`, symbolic truth values
`sym.SBool`; branching on a symbolic condition forks the path (re-execution with a decision prefix, see sym.Ctx).

What the extraction drops: docstrings, annotations, comments.  Decorators property/staticmethod/classmethod/
abstractmethod are honoured through the native class objects.  Generators are materialised eagerly.
"""
from __future__ import annotations

import ast
import builtins
import cmath
import hashlib
import inspect
import math
import operator
import os
import sys
import types

import numpy as np

from . import ring
from .ring import Poly, Unsupported, ShapeChanged
from .sym import SBool, Infeasible, PathLimit, have_ctx, current

# development aid (tools/cover_audit.sh): statement lines of repository code executed by the interpreter, dumped by the runner's workers when TVERIF_COVER names a directory
_COVER = set() if os.environ.get("TVERIF_COVER") else None

sys.setrecursionlimit(100000)

REPO = os.environ.get("TVERIF_REPO", "/repo")


class _Return(BaseException):
    def __init__(self, v):
        self.v = v


class _Break(BaseException):
    pass


class _Continue(BaseException):
    pass


_INTERNAL = (_Return, _Break, _Continue, Unsupported, Infeasible, PathLimit, RecursionError, KeyboardInterrupt)


def is_sym(x):
    return isinstance(x, SBool) or (isinstance(x, Poly) and not x.is_const())


def has_sym(x, depth=2):
    if isinstance(x, (Poly, SBool)):
        return is_sym(x)
    if depth <= 0:
        return False
    if isinstance(x, (list, tuple, set, frozenset)):
        return any(has_sym(e, depth - 1) for e in x)
    if isinstance(x, dict):
        return any(has_sym(e, depth - 1) for e in x.values())
    if isinstance(x, np.ndarray) and x.dtype == object:
        return any(has_sym(e, 0) for e in x.flat)
    return False


def truth(x):
    if isinstance(x, SBool):
        return bool(x)
    if isinstance(x, Poly):
        return bool(x)
    return bool(x)


class Env:
    __slots__ = ("vars", "parent", "globals", "decl_global", "decl_nonlocal", "cls", "selfobj")

    def __init__(self, parent=None, globals_=None, cls=None):
        self.vars = {}
        self.parent = parent
        self.globals = globals_ if globals_ is not None else (parent.globals if parent else {})
        self.decl_global = set()
        self.decl_nonlocal = set()
        self.cls = cls if cls is not None else (parent.cls if parent else None)
        self.selfobj = None

    def lookup(self, name):
        e = self
        while e is not None:
            if name in e.vars:
                return e.vars[name]
            e = e.parent
        if name in self.globals:
            return self.globals[name]
        if hasattr(builtins, name):
            return getattr(builtins, name)
        raise NameError(f"name '{name}' is not defined")

    def assign(self, name, value):
        if name in self.decl_global:
            self.globals[name] = value
            return
        if name in self.decl_nonlocal:
            e = self.parent
            while e is not None:
                if name in e.vars:
                    e.vars[name] = value
                    return
                e = e.parent
        self.vars[name] = value

    def delete(self, name):
        del self.vars[name]


def _fp(v, depth=2):
    """cheap fingerprint of a local value: detects rebinding and in-place mutation of containers / plain objects during the generic iteration of a cut loop"""
    if isinstance(v, (dict,)):
        return ("d", id(v), len(v), tuple((id(k), id(x)) for k, x in v.items())) if depth else ("d", id(v), len(v))
    if isinstance(v, (list, set)):
        return (type(v).__name__, id(v), len(v), tuple(id(x) for x in v)) if depth else (type(v).__name__, id(v), len(v))
    if isinstance(v, np.ndarray):
        return ("nd", id(v), v.tobytes() if v.dtype != object else tuple(id(x) for x in v.flat))
    d = getattr(v, "__dict__", None)
    if isinstance(d, dict) and depth and not isinstance(v, (type, types.ModuleType, types.FunctionType, GhostIterable)) and not callable(v) and type(v).__name__ != "Interp":
        return ("o", id(v), tuple((k, _fp(x, depth - 1)) for k, x in d.items()))
    return ("v", id(v))


def _frame_state(env):
    """fingerprints of the function-local variables visible at a loop (the frame that the loop body can carry state in)"""
    out = {}
    e = env
    while e is not None:
        for k, v in e.vars.items():
            if k not in out and not k.startswith("__"):
                out[k] = _fp(v)
        e = e.parent
    return out


def _check_loop_carried(itv, before, env, targets):
    """soundness guard of the loop cut: every variable that existed before the loop and that the generic iteration rebinds or mutates in place is loop-carried state; it
    must be covered by the contract's invariant protocol (`managed`), otherwise the single generic iteration says nothing about later iterations -> undecided"""
    managed = set(getattr(itv, "managed", ()) or ())
    for a in (itv._atoms() if isinstance(itv, GSeq) else []):
        managed |= set(getattr(a.proto, "managed", ()) or ())
    if "*" in managed:
        return
    after = _frame_state(env)
    bad = [k for k, f in before.items() if k in after and after[k] != f and k not in managed and k not in targets]
    if bad:
        raise ShapeChanged(f"loop-carried state not covered by the loop invariant of the contract: {sorted(bad)} (changed by the generic iteration of a cut loop)")


class _Poison:
    """value of a local that a contract declares a TEMPORARY of a cut loop (written before it is read in every iteration): reading it is outside the contract"""

    def __init__(self, name):
        object.__setattr__(self, "_n", name)

    def _boom(self, *a, **k):
        raise ShapeChanged(f"local variable '{self._n}' was declared a write-before-read temporary of a cut loop but is read before being written")

    __getattr__ = __call__ = __iter__ = __len__ = __bool__ = __add__ = __radd__ = __mul__ = __rmul__ = __getitem__ = __eq__ = __hash__ = _boom


def _poison_temps(itv, env):
    temps = set(getattr(itv, "temps", ()) or ())
    for a in (itv._atoms() if isinstance(itv, GSeq) else []):
        temps |= set(getattr(a.proto, "temps", ()) or ())
    for t in temps:
        e = env
        while e is not None:
            if t in e.vars:
                e.vars[t] = _Poison(t)
                break
            e = e.parent
    return temps


def _hook(fn, *a):
    """run a contract's loop-invariant hook: a local variable the protocol expects and the code no longer has is a changed code shape, not a checker crash"""
    try:
        return fn(*a)
    except (NameError, KeyError) as e:
        raise ShapeChanged(f"the loop invariant of the contract refers to a local variable the code no longer has: {e}")


def _concrete_key(k):
    if isinstance(k, Poly) and k.is_const():
        v = k.to_python()
        return v
    if isinstance(k, Poly) and all(v.kind in ("pi", "invpi") for v in k.vars()):
        # a rational multiple of pi: the float the same expression evaluates to natively (linear forms q * pi: one rounding of the product, as in `pi / 2`)
        lf = k.linear_form()
        if lf is not None and len(lf[0]) == 1 and lf[1] == 0:
            q = next(iter(lf[0].values()))
            if q.denominator == 1:
                return float(int(q) * math.pi)
            if q.numerator in (1, -1):
                return float(q.numerator * math.pi / q.denominator)
            return float(math.pi * q.numerator / q.denominator)
        z = k.eval({})
        return z.real if abs(z.imag) < 1e-300 else z
    if isinstance(k, tuple):
        return tuple(_concrete_key(x) for x in k)
    return k


def _target_names(t):
    if isinstance(t, ast.Name):
        return {t.id}
    if isinstance(t, (ast.Tuple, ast.List)):
        out = set()
        for e in t.elts:
            out |= _target_names(e)
        return out
    return set()


class GhostIterable:
    """protocol object standing for a collection of unknown size in a `for` loop (see Interp.s_For); contracts subclass it.
    `temps`: locals declared write-before-read temporaries of the loop body (poisoned at the start of the generic iteration: a read before a write is Unsupported).
    `managed`: names of the local variables of the function under contract whose change across iterations is described by the protocol (havoc + step); any other
    pre-existing local that the generic iteration rebinds or mutates makes the cut unsound and is reported as Unsupported ('*' = everything is managed)"""

    reversed = False
    managed = ()
    temps = ()

    def init(self, interp, env):
        pass

    def havoc(self, interp, env):
        pass

    def element(self):
        raise NotImplementedError

    def step(self, interp, env, broke):
        pass

    def exit(self, interp, env):
        pass

    def __iter__(self):
        raise Unsupported("native iteration over a ghost collection")


class GSeq(GhostIterable):
    """abstract SEQUENCE OF UNKNOWN LENGTH (ghost list calculus for modular, unbounded contracts).

    A sequence is described by how it was obtained, never by its content:
      atom     an opaque list `name` of any length L >= 0 whose GENERIC element is `elem` (an object with symbolic leaves, supplied by the contract)
      reversed the source read backwards
      comp     [image for x in src if kept]: order-preserving filter-map (Python's comprehension semantics); on the current path the generic element of
               src was kept (kept=True) with value `image`, or dropped (kept=False)
      concat   a ++ b        repeat  src * n        copy  deepcopy(src)
    `for` loops and comprehensions over a GSeq are cut: the body runs ONCE on the generic element (loop cut, Interp.s_For / Interp._comp) between the
    protocol hooks init / havoc / step / exit that a contract may attach to an atom (`proto`); reading the content any other way is Unsupported.
    Emptiness is decided by forking on L > 0."""

    def __init__(self, kind, name=None, elem=None, src=None, src2=None, kept=None, image=None, n=None, proto=None, length=None):
        self.kind, self.name, self.elem, self.src, self.src2 = kind, name, elem, src, src2
        self.kept, self.image, self.n, self.proto, self._length = kept, image, n, proto, length
        self.iterations = 0

    # constructors -------------------------------------------------------------------------------------------------
    @staticmethod
    def atom(name, elem, proto=None, length=None):
        return GSeq("atom", name=name, elem=elem, proto=proto, length=length)

    def length(self):
        """symbolic length (only atoms carry one)"""
        if self.kind == "atom":
            if self._length is None:
                c = current()
                if c.symbolic:
                    L = c.integer(f"len({self.name})")
                    c.assume(L >= 0)
                else:
                    L = int(c.concrete.get(f"len({self.name})", 1))
                self._length = L
            return self._length
        if self.kind in ("reversed", "copy", "shallow", "sorted"):
            return self.src.length()
        if self.kind == "concat":
            return self.src.length() + self.src2.length()
        if self.kind == "repeat":
            return self.src.length() * self.n
        raise Unsupported(f"length of the filtered ghost sequence {self}")

    def describe(self):
        k = self.kind
        if k == "atom":
            return ("atom", self.name)
        if k == "comp":
            return ("comp", self.src.describe())
        if k == "concat":
            return ("concat", self.src.describe(), self.src2.describe())
        if k == "repeat":
            return ("repeat", self.src.describe())
        return (k, self.src.describe())

    def __repr__(self):
        return f"<GSeq {self.describe()}>"

    # the algebra recorded structurally ------------------------------------------------------------------------------
    def __add__(self, o):
        if not isinstance(o, GSeq):
            raise Unsupported("ghost sequence + concrete list")
        return GSeq("concat", src=self, src2=o)

    def __mul__(self, n):
        return GSeq("repeat", src=self, n=n)

    __rmul__ = __mul__

    def __reversed__(self):
        return GSeq("reversed", src=self)

    def __deepcopy__(self, memo):
        return GSeq("copy", src=self)

    def __copy__(self):
        return GSeq("shallow", src=self)

    def copy(self):
        return GSeq("shallow", src=self)

    def nonempty(self):
        if self.kind == "comp":
            if self.kept:
                return True     # the generic element of the source was kept on this path: the filtered sequence has an element
            raise Unsupported("emptiness of a filtered ghost sequence on a path where its generic element was dropped")
        return truth(self.length() > 0)

    def __bool__(self):
        return self.nonempty()

    def __len__(self):
        raise Unsupported("len() of a ghost sequence must go through the interpreter")

    def __getitem__(self, i):
        raise Unsupported(f"indexing the ghost sequence {self}")

    def __getattr__(self, a):
        if a.startswith("__"):
            raise AttributeError(a)
        raise Unsupported(f"operation .{a} on the ghost sequence {self}")

    # loop-cut protocol ----------------------------------------------------------------------------------------------
    def _atoms(self):
        if self.kind == "atom":
            return [self]
        out = self.src._atoms()
        if self.src2 is not None:
            out += self.src2._atoms()
        return out

    def element(self):
        self.iterations += 1
        return self._element()

    def _element(self):
        k = self.kind
        if k == "atom":
            return self.elem
        if k in ("reversed", "repeat", "shallow", "sorted"):
            return self.src._element()
        if k == "copy":
            import copy as _c
            return _c.deepcopy(self.src._element())
        if k == "comp":
            if not self.kept:
                raise Unsupported("iteration over a filtered ghost sequence on a path where its generic element was dropped")
            return self.image
        if k == "concat":
            c = current()
            left = c.boolean(f"generic element of {self.describe()} comes from the left part") if c.symbolic else bool(c.concrete.get("left", True))
            return self.src._element() if truth(left) else self.src2._element()
        raise Unsupported(k)

    def init(self, interp, env):
        for a in self._atoms():
            if a.proto is not None:
                a.proto.init(interp, env)

    def havoc(self, interp, env):
        for a in self._atoms():
            if a.proto is not None:
                a.proto.havoc(interp, env)

    def step(self, interp, env, broke):
        for a in self._atoms():
            if a.proto is not None:
                a.proto.step(interp, env, broke)

    def exit(self, interp, env):
        for a in self._atoms():
            if a.proto is not None:
                a.proto.exit(interp, env)



class SymVec:
    """a one-dimensional integer array of SYMBOLIC LENGTH n whose content is a function of the index: a base content (a constant, or a function of the index for strided
    views / concatenations / element-wise arithmetic) overwritten by the recorded slice assignments (numpy / Python slice semantics for positive steps: negative bounds count
    from the end, bounds are clipped to [0, n]).  Reading position k (a symbolic integer) gives an if-then-else term.  Models: np.zeros(n) / np.linspace(0, n-1, n, dtype=int)
    with symbolic n, v[a:b:c] = x (scalar or array), v[a:b:c], v // c, v + c, np.concatenate, len, enumerate (loop cut)."""

    def __init__(self, n, read=None, default=0, proto=None, view=None):
        self.n, self.default, self.writes, self._read, self.proto = n, default, [], read, proto
        self._view = view       # (base, start, step): a strided VIEW - reads go to the base array as it is at the time of the read (numpy aliasing)

    def _freeze(self):
        """the value of this array NOW, as a new array (what numpy's eager element-wise arithmetic reads): later assignments to the original are not seen"""
        if self._view is not None:
            base, a, step = self._view
            return SymVec(self.n, view=(base._freeze(), a, step))
        c = SymVec(self.n, read=self._read, default=self.default)
        c.writes = list(self.writes)
        return c

    # index helpers (z3 terms)
    @staticmethod
    def _z(x):
        import z3
        return x.to_z3() if isinstance(x, Poly) else z3.IntVal(int(x))

    def _bounds(self, sl):
        import z3
        n = self._z(self.n)
        step = 1 if sl.step is None else sl.step
        if isinstance(step, Poly):
            if not step.is_const():
                raise Unsupported("symbolic slice step")
            step = int(step.to_python())
        if step <= 0:
            raise Unsupported("non-positive slice step on a symbolic-length array")

        def eff(x, dflt):
            if x is None:
                return dflt
            zx = self._z(x)
            return z3.If(zx < 0, z3.If(n + zx < 0, z3.IntVal(0), n + zx), z3.If(zx > n, n, zx))
        return eff(sl.start, z3.IntVal(0)), eff(sl.stop, n), step

    def __setitem__(self, idx, v):
        import z3
        if self._view is not None:
            raise Unsupported("assignment through a view of a symbolic-length array")
        if isinstance(v, SymVec):
            v = v._freeze()
        if isinstance(idx, slice):
            self.writes.append((self._bounds(idx), v))
        else:
            zi = self._z(idx)
            self.writes.append(((zi, zi + 1, 1), v))

    def get(self, k):
        """value at position k (Poly / int), 0 <= k < n assumed by the caller"""
        import z3
        zk = self._z(k)
        if self._view is not None:
            base, a, step = self._view
            return base.get(Poly.atom(a + zk * step, isint=True))
        if self._read is not None:
            val = self._read(k).to_z3()
        else:
            val = self._z(self.default) if not isinstance(self.default, Poly) else self.default.to_z3()
        for (a, b, step), v in self.writes:
            cond = z3.And(zk >= a, zk < b, (zk - a) % step == 0)
            if isinstance(v, SymVec):
                vv = v.get(Poly.atom((zk - a) / step, isint=True)).to_z3()      # array assigned to a slice: element (k - start) / step
            else:
                vv = self._z(v)
            val = z3.If(cond, vv, val)
        return Poly.atom(z3.simplify(val), isint=True)

    def __getitem__(self, idx):
        import z3
        if isinstance(idx, slice):
            a, b, step = self._bounds(idx)
            # number of selected positions: ceil((b - a) / step) when b > a
            cnt = z3.If(b > a, (b - a + step - 1) / step, z3.IntVal(0))
            return SymVec(Poly.atom(z3.simplify(cnt), isint=True), view=(self, a, step))
        return self.get(idx)

    def _map(self, fn):
        base = self._freeze()
        return SymVec(self.n, read=lambda j: fn(base.get(j)))

    def __floordiv__(self, c):
        return self._map(lambda x: x // c)

    def __add__(self, c):
        if isinstance(c, SymVec):
            raise Unsupported("sum of two symbolic-length arrays")
        return self._map(lambda x: x + c)

    __radd__ = __add__

    def __mul__(self, c):
        return self._map(lambda x: x * c)

    __rmul__ = __mul__

    @staticmethod
    def concatenate(parts):
        import z3
        parts = list(parts)
        if len(parts) != 2 or not all(isinstance(p, SymVec) for p in parts):
            raise Unsupported("concatenate of other than two symbolic-length arrays")
        a, b = parts[0]._freeze(), parts[1]._freeze()
        na = SymVec._z(a.n)
        n = a.n + b.n

        def read(j):
            zj = SymVec._z(j)
            va, vb = a.get(j).to_z3(), b.get(Poly.atom(zj - na, isint=True)).to_z3()
            return Poly.atom(z3.If(zj < na, va, vb), isint=True)
        return SymVec(n, read=read)

    def __len__(self):
        raise Unsupported("len() of a symbolic-length array must go through the interpreter")

    def __iter__(self):
        raise Unsupported("native iteration over a symbolic-length array")


class SymVecEnum(GhostIterable):
    """enumerate(v) for a symbolic-length array: loop cut on a generic position 0 <= i < n with the value v[i]; invariant protocol supplied by the contract (v.proto)"""

    def __init__(self, vec):
        self.vec = vec
        self.iterations = 0
        self.managed = getattr(vec.proto, "managed", ())
        self.temps = getattr(vec.proto, "temps", ())

    def element(self):
        c = current()
        self.iterations += 1
        i = c.integer(f"i_generic_{id(self.vec) % 1000}")
        c.assume(i >= 0)
        c.assume(i < self.vec.n)
        self.index = i
        self.value = self.vec.get(i)
        return (i, self.value)

    def init(self, interp, env):
        if self.vec.proto is not None:
            self.vec.proto.init(interp, env)

    def havoc(self, interp, env):
        if self.vec.proto is not None:
            self.vec.proto.havoc(interp, env)

    def step(self, interp, env, broke):
        if self.vec.proto is not None:
            self.vec.proto.enum = self
            self.vec.proto.step(interp, env, broke)

    def exit(self, interp, env):
        if self.vec.proto is not None:
            self.vec.proto.exit(interp, env)


class GRange(GhostIterable):
    """range(n) for a SYMBOLIC n: a loop over it is cut - one generic iteration on a generic index 0 <= i < n (a fresh symbolic integer), between the hooks of the invariant
    protocol the contract queued for it (Interp.range_protocols, consumed in the order in which the symbolic ranges are created); an empty range (n <= 0) skips the body"""

    _count = 0

    def __init__(self, n, proto):
        self.n, self.proto = n, proto
        self.iterations = 0
        self.managed = getattr(proto, "managed", ())
        self.temps = getattr(proto, "temps", ())
        GRange._count += 1
        self.k = GRange._count

    def nonempty(self):
        return truth(self.n > 0)

    def element(self):
        c = current()
        self.iterations += 1
        name = getattr(self.proto, "index_name", None) or f"range_index_{self.k}"
        i = c.integer(name)
        c.assume(i >= 0)
        c.assume(i < self.n)
        self.index = i
        if self.proto is not None:
            self.proto.index = i
        return i

    def init(self, interp, env):
        if self.proto is not None:
            self.proto.init(interp, env)

    def havoc(self, interp, env):
        if self.proto is not None:
            self.proto.havoc(interp, env)

    def step(self, interp, env, broke):
        if self.proto is not None:
            self.proto.step(interp, env, broke)

    def exit(self, interp, env):
        if self.proto is not None:
            self.proto.exit(interp, env)


class IFunc:
    """a function object created by interpreting a `def` / `lambda` inside interpreted code"""

    def __init__(self, interp, node, env, defaults, kwdefaults, name):
        self.interp, self.node, self.env = interp, node, env
        self.defaults, self.kwdefaults = defaults, kwdefaults
        self.__name__ = name

    def __call__(self, *args, **kwargs):
        return self.interp.call_node(self.node, self.env, args, kwargs, self.defaults, self.kwdefaults)

    def __get__(self, obj, objtype=None):
        if obj is None:
            return self
        return types.MethodType(self, obj)


class FileIndex:
    def __init__(self, path):
        self.path = path
        with open(path, "rb") as f:
            self.src = f.read()
        self.text = self.src.decode()
        self.tree = ast.parse(self.text, filename=path)
        self.by_line = {}
        self.qual = {}
        self._index(self.tree, "")

    def _index(self, node, prefix):
        for ch in ast.iter_child_nodes(node):
            if isinstance(ch, (ast.FunctionDef, ast.AsyncFunctionDef)):
                q = prefix + ch.name
                self.qual[q] = ch
                ch._qualname = q
                ch._clsname = prefix[:-1] if prefix and not prefix.endswith("<locals>.") else None
                self.by_line[ch.lineno] = ch
                for d in ch.decorator_list:
                    self.by_line.setdefault(d.lineno, ch)
                self._index(ch, q + ".<locals>.")
            elif isinstance(ch, ast.ClassDef):
                self._index(ch, prefix + ch.name + ".")
            elif isinstance(ch, ast.Lambda):
                ch._qualname = prefix + "<lambda>"
                ch._clsname = None
                self.by_line.setdefault(("lambda", ch.lineno, ch.col_offset), ch)
                self._index(ch, prefix)
            else:
                self._index(ch, prefix)

    def segment(self, node):
        lines = self.text.splitlines(keepends=True)
        return "".join(lines[node.lineno - 1: node.end_lineno])


_FILES = {}   # parsed once per process (every check is a fresh process reading the current working tree)
_REAL = {}
_INREPO = {}


class Interp:
    def __init__(self, repo=None):
        self.repo = os.path.realpath(repo or REPO)
        self.files = {}
        self.touched = {}       # (relfile, qualname) -> dict(lines, sha256)
        self.stubs = {}         # (relfile, qualname) -> callable(interp, args, kwargs) used instead of the body (contracts)
        self.native_ok = set()  # (relfile, qualname) allowed to run natively (documented)
        self.steps = 0
        self.max_steps = 5_000_000
        self.module_override = {}   # module name -> stand-in object used by `import` statements inside interpreted code (assumed library models)
        self.call_log = []      # optional ghost log of calls (relfile, qualname, args, kwargs)
        self.log_calls = set()

    # ------------------------------------------------------------------------------------------------ source lookup
    def in_repo(self, filename):
        if not filename:
            return False
        r = _INREPO.get(filename)
        if r is None:
            try:
                fn = os.path.realpath(filename)
            except Exception:
                return False
            r = _INREPO[filename] = fn.startswith(self.repo + os.sep) and "/tests/" not in fn
        return r

    def index(self, filename):
        fn = _REAL.get(filename)
        if fn is None:
            fn = _REAL[filename] = os.path.realpath(filename)
        if fn not in _FILES:
            _FILES[fn] = FileIndex(fn)
        return _FILES[fn]

    def node_of(self, func):
        """AST node of a native repo function object (or None)"""
        code = getattr(func, "__code__", None)
        if code is None or not self.in_repo(code.co_filename):
            return None
        idx = self.index(code.co_filename)
        node = idx.by_line.get(code.co_firstlineno)
        if node is None and code.co_name == "<lambda>":
            cands = [n for k, n in idx.by_line.items() if isinstance(k, tuple) and k[1] == code.co_firstlineno]
            if len(cands) == 1:
                node = cands[0]
        if node is None:
            return None
        if not isinstance(node, ast.Lambda) and node.name != code.co_name:
            return None
        return node

    def rel(self, filename):
        return os.path.relpath(os.path.realpath(filename), self.repo)

    def _touch(self, filename, node):
        key = (self.rel(filename), getattr(node, "_qualname", "?"))
        if key not in self.touched:
            seg = self.index(filename).segment(node)
            self.touched[key] = {"file": key[0], "qualname": key[1], "first_line": node.lineno, "last_line": node.end_lineno,
                                 "sha256": hashlib.sha256(seg.encode()).hexdigest()[:16]}
        return key

    def resolve(self, relfile, qualname):
        """native object for file + qualified name (module attribute path)"""
        import importlib
        mod = relfile[:-3].replace("/", ".")
        m = importlib.import_module(mod)
        obj = m
        for part in qualname.split("."):
            obj = inspect.getattr_static(obj, part) if isinstance(obj, type) else getattr(obj, part)
            if isinstance(obj, (staticmethod, classmethod)):
                obj = obj.__func__
        return obj

    # ------------------------------------------------------------------------------------------------ calling
    def call(self, relfile, qualname, *args, **kwargs):
        """entry point used by contracts: interpret the real function relfile::qualname"""
        try:
            f = self.resolve(relfile, qualname)
        except (AttributeError, ImportError) as e:
            from .engine import TargetMissing
            raise TargetMissing(f"target {relfile}::{qualname} no longer exists ({type(e).__name__}: {e})")
        if isinstance(f, property):
            f = f.fget
        return self.call_value(f, list(args), kwargs)

    def call_value(self, f, args, kwargs):
        self.steps += 1
        if self.steps > self.max_steps:
            raise PathLimit("step limit")
        if isinstance(f, IFunc):
            return f(*args, **kwargs)
        if isinstance(f, types.MethodType):
            fn = f.__func__
            if isinstance(fn, IFunc) or self.node_of(fn) is not None:
                return self.call_value(fn, [f.__self__] + list(args), kwargs)
            mm = _MODELS.get(id(fn)) or _MODELS.get(id(f))
            if mm is not None:
                return mm(self, f, args, kwargs)
            if has_sym(args) or has_sym(kwargs):
                r = self._model_call(f, args, kwargs)
                if r is not _NOMODEL:
                    return r
            return self._native(f, args, kwargs)
        if isinstance(f, types.FunctionType):
            node = self.node_of(f)
            if node is not None:
                return self.call_native_repo_function(f, node, args, kwargs)
        if isinstance(f, type):
            r = self._model_call(f, args, kwargs)
            if r is not _NOMODEL:
                return r
            if self.in_repo(_class_file(f)):
                return self.instantiate(f, args, kwargs)
            return self._native(f, args, kwargs)
        if isinstance(f, (staticmethod, classmethod)):
            return self.call_value(f.__func__, args, kwargs)
        r = self._model_call(f, args, kwargs)
        if r is not _NOMODEL:
            return r
        return self._native(f, args, kwargs)

    def _native(self, f, args, kwargs):
        # dictionary look-ups with a key that holds an exact CONSTANT (e.g. the symbolic pi / 2): native tables are keyed by the floats the same expressions
        # evaluate to, so the key is converted to that float (symbolic, non-constant keys stay as they are)
        if isinstance(getattr(f, "__self__", None), dict) and getattr(f, "__name__", "") in ("get", "pop", "setdefault", "__contains__", "__getitem__") and args:
            args = [_concrete_key(args[0])] + list(args[1:])
        symbolic = has_sym(args) or has_sym(kwargs)
        try:
            return f(*args, **kwargs)
        except _INTERNAL:
            raise
        except Exception as e:
            if symbolic:
                raise Unsupported(f"native call {getattr(f, '__qualname__', f)} with symbolic arguments raised {type(e).__name__}: {e}")
            raise

    def call_native_repo_function(self, f, node, args, kwargs):
        code = f.__code__
        key = self._touch(code.co_filename, node)
        if key in self.log_calls:
            self.call_log.append((key, list(args), dict(kwargs)))
        if key in self.stubs:
            return self.stubs[key](self, args, kwargs)
        env = Env(None, f.__globals__, cls=self._class_of(f, node))
        if f.__closure__:
            for name, cell in zip(code.co_freevars, f.__closure__):
                try:
                    env.vars[name] = cell.cell_contents
                except ValueError:
                    pass
            if "__class__" in env.vars:
                env.cls = env.vars["__class__"]
        return self.call_node(node, env, args, kwargs, f.__defaults__ or (), f.__kwdefaults__ or {})

    def _class_of(self, f, node):
        cn = getattr(node, "_clsname", None)
        if not cn:
            return None
        obj = f.__globals__.get(cn.split(".")[0])
        for part in cn.split(".")[1:]:
            obj = getattr(obj, part, None)
        return obj if isinstance(obj, type) else None

    def call_node(self, node, defenv, args, kwargs, defaults, kwdefaults):
        a = node.args
        env = Env(defenv, defenv.globals)
        params = [p.arg for p in a.posonlyargs + a.args]
        args = list(args)
        kwargs = dict(kwargs)
        n = len(params)
        for i, name in enumerate(params):
            if i < len(args):
                if name in kwargs:
                    raise TypeError(f"got multiple values for argument '{name}'")
                env.vars[name] = args[i]
            elif name in kwargs:
                env.vars[name] = kwargs.pop(name)
            else:
                di = i - (n - len(defaults))
                if di < 0:
                    raise TypeError(f"{getattr(node, 'name', '<lambda>')}() missing required positional argument: '{name}'")
                env.vars[name] = defaults[di]
        if a.vararg:
            env.vars[a.vararg.arg] = tuple(args[n:])
        elif len(args) > n:
            raise TypeError(f"{getattr(node, 'name', '<lambda>')}() takes {n} positional arguments but {len(args)} were given")
        for p in a.kwonlyargs:
            if p.arg in kwargs:
                env.vars[p.arg] = kwargs.pop(p.arg)
            elif p.arg in kwdefaults:
                env.vars[p.arg] = kwdefaults[p.arg]
            else:
                raise TypeError(f"missing keyword-only argument '{p.arg}'")
        if a.kwarg:
            env.vars[a.kwarg.arg] = kwargs
        elif kwargs:
            raise TypeError(f"{getattr(node, 'name', '<lambda>')}() got an unexpected keyword argument '{next(iter(kwargs))}'")
        if params:
            env.selfobj = env.vars.get(params[0])
        if isinstance(node, ast.Lambda):
            return self.eval(node.body, env)
        if _has_yield(node):
            out = []
            env.vars["__yield__"] = out
            try:
                self.exec_block(node.body, env)
            except _Return:
                pass
            return iter(out)
        try:
            self.exec_block(node.body, env)
        except _Return as r:
            return r.v
        return None

    def instantiate(self, cls, args, kwargs):
        new = _lookup(cls, "__new__")
        if new is not object.__new__ and self.node_of(getattr(new, "__func__", new)) is not None:
            obj = self.call_value(getattr(new, "__func__", new), [cls] + list(args), kwargs)
            if not isinstance(obj, cls):
                return obj
        else:
            try:
                obj = cls.__new__(cls)
            except TypeError:
                obj = cls.__new__(cls, *args, **kwargs)
        init = _lookup(cls, "__init__")
        if init is not None and init is not object.__init__:
            self.call_value(init, [obj] + list(args), kwargs)
        return obj

    # ------------------------------------------------------------------------------------------------ models
    def _model_call(self, f, args, kwargs):
        m = _MODELS.get(_fid(f))
        if m is None:
            return _NOMODEL
        return m(self, f, args, kwargs)

    # ------------------------------------------------------------------------------------------------ attribute access
    def getattr(self, obj, name):
        if isinstance(obj, Poly):
            if name in ("real", "imag"):
                return getattr(obj, name)
            if name in ("conjugate", "conj"):
                return obj.conj
        t = type(obj)
        if not isinstance(obj, type):
            for k in t.__mro__:
                d = k.__dict__
                if name in d:
                    a = d[name]
                    if isinstance(a, property):
                        if a.fget is not None and self.node_of(a.fget) is not None:
                            return self.call_value(a.fget, [obj], {})
                    break
        return getattr(obj, name)

    def setattr(self, obj, name, value):
        t = type(obj)
        for k in t.__mro__:
            d = k.__dict__
            if name in d and isinstance(d[name], property):
                a = d[name]
                if a.fset is not None and self.node_of(a.fset) is not None:
                    self.call_value(a.fset, [obj, value], {})
                    return
                break
        sa = _lookup(t, "__setattr__")
        if sa is not None and self.node_of(sa) is not None:
            self.call_value(sa, [obj, name, value], {})
            return
        setattr(obj, name, value)

    # ------------------------------------------------------------------------------------------------ operators
    _BIN = {ast.Add: ("add", operator.add), ast.Sub: ("sub", operator.sub), ast.Mult: ("mul", operator.mul),
            ast.Div: ("truediv", operator.truediv), ast.FloorDiv: ("floordiv", operator.floordiv),
            ast.Mod: ("mod", operator.mod), ast.Pow: ("pow", operator.pow), ast.MatMult: ("matmul", operator.matmul),
            ast.BitAnd: ("and", operator.and_), ast.BitOr: ("or", operator.or_), ast.BitXor: ("xor", operator.xor),
            ast.LShift: ("lshift", operator.lshift), ast.RShift: ("rshift", operator.rshift)}

    def binop(self, opcls, a, b):
        name, native = self._BIN[opcls]
        la = _lookup(type(a), f"__{name}__")
        rb = _lookup(type(b), f"__r{name}__")
        la_repo = la is not None and self.node_of(la) is not None
        rb_repo = rb is not None and self.node_of(rb) is not None
        if not la_repo and not rb_repo:
            if isinstance(a, SBool) or isinstance(b, SBool):
                if name == "and":
                    return (a & b) if isinstance(a, SBool) else (b & a)
                if name == "or":
                    return (a | b) if isinstance(a, SBool) else (b | a)
            if name == "mod" and isinstance(a, str):
                return a % b
            if name == "pow" and have_ctx() and current().symbolic and isinstance(a, int) and not isinstance(a, bool) and a >= 0 and isinstance(b, float) \
                    and b > 0 and abs(b * 2 - round(b * 2)) < 1e-12 and round(b * 2) % 2 == 1:
                # a ** (k + 1/2) for integers a, k in a symbolic run: kept exact as a**k * sqrt(a) (floats as reals: 2**(n/2) is the real number, not its 53-bit rounding)
                try:
                    return Poly.const(a) ** int(b - 0.5) * (Poly.const(a) ** 0.5)
                except Unsupported:
                    pass
            if isinstance(a, (float, int, complex, np.generic)) and isinstance(b, Poly) and not isinstance(a, (bool, np.bool_)):
                a = Poly.const(a.item() if isinstance(a, np.generic) else a)
            if isinstance(a, list) and name == "mul" and isinstance(b, Poly):
                b = b.__index__()
            return native(a, b)
        # python's rule: reflected method of a proper subclass goes first
        if rb_repo and type(b) is not type(a) and issubclass(type(b), type(a)) and rb is not _lookup(type(a), f"__r{name}__"):
            r = self.call_value(rb, [b, a], {})
            if r is not NotImplemented:
                return r
        if la is not None:
            r = self.call_value(la, [a, b], {}) if la_repo else _try_native(la, a, b)
            if r is not NotImplemented:
                return r
        if rb is not None and type(a) is not type(b):
            r = self.call_value(rb, [b, a], {}) if rb_repo else _try_native(rb, b, a)
            if r is not NotImplemented:
                return r
        raise TypeError(f"unsupported operand type(s) for {name}: '{type(a).__name__}' and '{type(b).__name__}'")

    def augop(self, opcls, a, b):
        name, native = self._BIN[opcls]
        ia = _lookup(type(a), f"__i{name}__")
        if ia is not None:
            if self.node_of(ia) is not None:
                r = self.call_value(ia, [a, b], {})
            else:
                # native in-place method (list +=, openfermion __iadd__ ...): executed natively
                if isinstance(a, np.ndarray) and a.dtype != object and has_sym(b, 1):
                    # a numeric numpy array cannot hold symbolic values in place: promote to an object array (the update is then
                    # out of place; other references to the old array would not see it - noted)
                    if have_ctx():
                        current().notes.append("numeric ndarray promoted to a symbolic (object) array by an augmented assignment")
                    return self.binop(opcls, a.astype(object), b)
                r = ia(a, b)
            if r is not NotImplemented:
                return r
        return self.binop(opcls, a, b)

    def py_eq(self, a, b):
        """a == b following Python's protocol, interpreting repo __eq__ methods; may return SBool"""
        if a is b and not isinstance(a, (Poly, float)):
            return True
        ta, tb = type(a), type(b)
        ea = _lookup(ta, "__eq__")
        eb = _lookup(tb, "__eq__")
        ea_repo = ea is not None and self.node_of(ea) is not None
        eb_repo = eb is not None and self.node_of(eb) is not None
        if ea_repo or eb_repo:
            if eb_repo and tb is not ta and issubclass(tb, ta):
                r = self.call_value(eb, [b, a], {})
                if r is not NotImplemented:
                    return r
            if ea_repo:
                r = self.call_value(ea, [a, b], {})
            else:
                r = ea(a, b)
            if r is NotImplemented:
                r = self.call_value(eb, [b, a], {}) if eb_repo else (eb(b, a) if eb is not None else NotImplemented)
            if r is NotImplemented:
                return a is b
            return r
        if isinstance(a, (list, tuple)) and type(a) is type(b) or (isinstance(a, list) and isinstance(b, list)):
            if len(a) != len(b):
                return False
            res = True
            for x, y in zip(a, b):
                r = self.py_eq(x, y)
                if isinstance(r, SBool):
                    res = r if res is True else (res & r)
                elif not truth(r):
                    return False
            return res
        if isinstance(a, dict) and isinstance(b, dict) and (_contains_repo_or_sym(a) or _contains_repo_or_sym(b)):
            if a.keys() != b.keys():
                return False
            res = True
            for k in a:
                r = self.py_eq(a[k], b[k])
                if isinstance(r, SBool):
                    res = r if res is True else (res & r)
                elif not truth(r):
                    return False
            return res
        r = a == b
        if isinstance(r, np.ndarray) and r.dtype == object:
            return r
        return r

    def py_ne(self, a, b):
        ta = type(a)
        na = _lookup(ta, "__ne__")
        if na is not None and self.node_of(na) is not None:
            return self.call_value(na, [a, b], {})
        nb = _lookup(type(b), "__ne__")
        if nb is not None and self.node_of(nb) is not None and type(b) is not ta:
            return self.call_value(nb, [b, a], {})
        r = self.py_eq(a, b)
        if isinstance(r, SBool):
            return ~r
        if isinstance(r, np.ndarray):
            return ~r
        return not r

    def contains(self, container, x):
        c = _lookup(type(container), "__contains__")
        if c is not None and self.node_of(c) is not None:
            return truth(self.call_value(c, [container, x], {}))
        if isinstance(container, (list, tuple)) and (_is_repo_obj(self, x) or isinstance(x, Poly) or any(isinstance(e, Poly) for e in container)):
            for e in container:
                if e is x or truth(self.py_eq(e, x)):
                    return True
            return False
        if isinstance(x, tuple) and isinstance(container, (set, frozenset, dict)):
            x = _concrete_key(x)
        if isinstance(x, Poly):
            if x.is_const():
                x = x.to_python()
            else:
                if isinstance(container, (set, frozenset, dict, range)):
                    for e in container:
                        if truth(self.py_eq(e, x)):
                            return True
                    return False
        return x in container

    def compare(self, op, a, b):
        if isinstance(op, ast.Eq):
            return self.py_eq(a, b)
        if isinstance(op, ast.NotEq):
            return self.py_ne(a, b)
        if isinstance(op, ast.Is):
            return a is b
        if isinstance(op, ast.IsNot):
            return a is not b
        if isinstance(op, ast.In):
            return self.contains(b, a)
        if isinstance(op, ast.NotIn):
            return not self.contains(b, a)
        name = {ast.Lt: "lt", ast.LtE: "le", ast.Gt: "gt", ast.GtE: "ge"}[type(op)]
        m = _lookup(type(a), f"__{name}__")
        if m is not None and self.node_of(m) is not None:
            return self.call_value(m, [a, b], {})
        if isinstance(b, Poly) and not isinstance(a, Poly):
            a = Poly._coerce(a) if Poly._coerce(a) is not None else a
        return getattr(operator, name)(a, b)

    # ------------------------------------------------------------------------------------------------ statements
    def exec_block(self, stmts, env):
        for s in stmts:
            self.exec(s, env)

    def exec(self, s, env):
        self.steps += 1
        if self.steps > self.max_steps:
            raise PathLimit("step limit")
        if _COVER is not None:
            _COVER.add((env.globals.get("__file__"), s.lineno))
        m = getattr(self, "s_" + type(s).__name__, None)
        if m is None:
            raise Unsupported(f"statement {type(s).__name__} at line {s.lineno}")
        return m(s, env)

    def s_Expr(self, s, env):
        if isinstance(s.value, ast.Constant):
            return
        if isinstance(s.value, (ast.Yield, ast.YieldFrom)):
            self.eval(s.value, env)
            return
        self.eval(s.value, env)

    def s_Pass(self, s, env):
        pass

    def s_Return(self, s, env):
        raise _Return(self.eval(s.value, env) if s.value is not None else None)

    def s_Break(self, s, env):
        raise _Break()

    def s_Continue(self, s, env):
        raise _Continue()

    def s_Global(self, s, env):
        env.decl_global.update(s.names)

    def s_Nonlocal(self, s, env):
        env.decl_nonlocal.update(s.names)

    def s_Assign(self, s, env):
        v = self.eval(s.value, env)
        for t in s.targets:
            self.assign(t, v, env)

    def s_AnnAssign(self, s, env):
        if s.value is not None:
            self.assign(s.target, self.eval(s.value, env), env)

    def s_AugAssign(self, s, env):
        t = s.target
        if isinstance(t, ast.Name):
            cur = env.lookup(t.id)
            val = self.eval(s.value, env)
            if isinstance(cur, np.ndarray) and cur.dtype != object and isinstance(val, np.ndarray) and val.dtype == object:
                # `arr += <array holding symbolic values>` on a NUMERIC local array (e.g. np.zeros(..., dtype=complex)): numpy cannot store the symbols in place; the array
                # is replaced by an object-dtype copy in every local that holds it (same rule and same aliasing check as for an indexed store), then updated in place
                cur = self._promote_local_array(ast.Subscript(value=t, slice=None), cur, val, env)
            env.assign(t.id, self.augop(type(s.op), cur, val))
        elif isinstance(t, ast.Attribute):
            obj = self.eval(t.value, env)
            cur = self.getattr(obj, t.attr)
            self.setattr(obj, t.attr, self.augop(type(s.op), cur, self.eval(s.value, env)))
        elif isinstance(t, ast.Subscript):
            obj = self.eval(t.value, env)
            idx = self.eval_index(t.slice, env)
            cur = self.getitem(obj, idx)
            v = self.augop(type(s.op), cur, self.eval(s.value, env))
            obj = self._promote_local_array(t, obj, v, env)
            self.setitem(obj, idx, v)
        else:
            raise Unsupported("augmented assignment target")

    def _promote_local_array(self, t, obj, v, env):
        """a symbolic value is stored into a NUMERIC numpy array held by a local variable (e.g. `rdm = np.zeros(..., dtype=complex)`): the array is replaced by an
        object-dtype copy in every variable of the enclosing interpreted frames that holds it. Sound only if nothing else references the array: every other referrer
        (checked through the garbage collector) makes the construct unsupported."""
        if not (isinstance(obj, np.ndarray) and obj.dtype != object and (has_sym(v) or (isinstance(v, np.ndarray) and v.dtype == object)) and isinstance(t.value, ast.Name)):
            return obj
        import gc
        new = obj.astype(object)
        holders = []
        e = env
        while e is not None:
            for k, x in e.vars.items():
                if x is obj:
                    holders.append((e.vars, k))
            e = e.parent
        allowed = {id(d) for d, _ in holders}
        for r in gc.get_referrers(obj):
            if id(r) in allowed or r is holders or isinstance(r, types.FrameType):
                continue
            if isinstance(r, (list, tuple)) and any(r is h for h in holders):
                continue
            if isinstance(r, np.ndarray) and r.base is obj:
                raise Unsupported("symbolic value stored into a numeric numpy array that has views")
            if isinstance(r, dict) and any(r is d for d, _ in holders):
                continue
            raise Unsupported("symbolic value stored into a numeric numpy array that is shared with other objects")
        for d, k in holders:
            d[k] = new
        return new

    def assign(self, t, v, env):
        if isinstance(t, ast.Name):
            env.assign(t.id, v)
        elif isinstance(t, ast.Attribute):
            self.setattr(self.eval(t.value, env), t.attr, v)
        elif isinstance(t, ast.Subscript):
            obj = self._promote_local_array(t, self.eval(t.value, env), v, env)
            self.setitem(obj, self.eval_index(t.slice, env), v)
        elif isinstance(t, (ast.Tuple, ast.List)):
            vals = list(self.iterate(v))
            star = [i for i, e in enumerate(t.elts) if isinstance(e, ast.Starred)]
            if star:
                i = star[0]
                after = len(t.elts) - i - 1
                if len(vals) < len(t.elts) - 1:
                    raise ValueError("not enough values to unpack")
                for e, x in zip(t.elts[:i], vals[:i]):
                    self.assign(e, x, env)
                self.assign(t.elts[i].value, vals[i:len(vals) - after], env)
                for e, x in zip(t.elts[i + 1:], vals[len(vals) - after:]):
                    self.assign(e, x, env)
            else:
                if len(vals) != len(t.elts):
                    raise ValueError(f"wrong number of values to unpack (expected {len(t.elts)}, got {len(vals)})")
                for e, x in zip(t.elts, vals):
                    self.assign(e, x, env)
        else:
            raise Unsupported(f"assignment target {type(t).__name__}")

    def s_Delete(self, s, env):
        for t in s.targets:
            if isinstance(t, ast.Name):
                env.delete(t.id)
            elif isinstance(t, ast.Subscript):
                obj = self.eval(t.value, env)
                idx = self.eval_index(t.slice, env)
                if isinstance(idx, Poly):
                    idx = idx.__index__() if idx.isint else idx.to_python()
                del obj[idx]
            elif isinstance(t, ast.Attribute):
                delattr(self.eval(t.value, env), t.attr)
            else:
                raise Unsupported("del target")

    def s_If(self, s, env):
        if truth(self.eval(s.test, env)):
            self.exec_block(s.body, env)
        else:
            self.exec_block(s.orelse, env)

    def s_While(self, s, env):
        while truth(self.eval(s.test, env)):
            try:
                self.exec_block(s.body, env)
            except _Break:
                return
            except _Continue:
                continue
        self.exec_block(s.orelse, env)

    def iterate(self, v):
        if isinstance(v, GhostIterable):
            return v        # a collection of unknown size: only a `for` loop / comprehension may consume it (loop cut)
        if isinstance(v, (list, tuple, str, dict, set, frozenset, range, np.ndarray)) or isinstance(v, types.GeneratorType):
            return iter(v)
        it = _lookup(type(v), "__iter__")
        if it is not None and self.node_of(it) is not None:
            return self.call_value(it, [v], {})
        return iter(v)

    def s_For(self, s, env):
        itv = self.eval(s.iter, env)
        if isinstance(itv, GhostIterable):
            return self._for_ghost(s, env, itv)
        it = self.iterate(itv)
        if isinstance(it, GhostIterable):
            # a repository __iter__ handed out a ghost collection (e.g. Circuit.__iter__ -> iter(self._gates)): cut the loop as well
            return self._for_ghost(s, env, it)
        for x in it:
            self.assign(s.target, x, env)
            try:
                self.exec_block(s.body, env)
            except _Break:
                return
            except _Continue:
                continue
        self.exec_block(s.orelse, env)

    def _for_ghost(self, s, env, itv):
        if True:
            # loop over a collection of UNKNOWN size: cut the loop with the contract's invariant protocol -
            #   init(env): the invariant holds on entry;  havoc(env): arbitrary state satisfying the invariant;
            #   one generic iteration of the real body;  step(env): the invariant is re-established;
            #   exit(env): arbitrary invariant state for the code after the loop
            _hook(itv.init, self, env)
            if hasattr(itv, "nonempty") and not itv.nonempty():
                self.exec_block(s.orelse, env)      # empty sequence: the loop body does not run, the entry state is the exit state
                return
            _hook(itv.havoc, self, env)
            temps = _poison_temps(itv, env)
            frame = _frame_state(env)
            self.assign(s.target, itv.element(), env)
            broke = False
            try:
                self.exec_block(s.body, env)
            except _Break:
                broke = True
            except _Continue:
                pass
            _check_loop_carried(itv, frame, env, _target_names(s.target) | temps)
            _hook(itv.step, self, env, broke)
            _hook(itv.exit, self, env)
            if not broke:
                self.exec_block(s.orelse, env)
            return

    def s_Raise(self, s, env):
        if s.exc is None:
            raise env.lookup("__active_exception__")
        e = self.eval(s.exc, env)
        if isinstance(e, type):
            e = e()
        if s.cause is not None:
            raise e from self.eval(s.cause, env)
        raise e

    def s_Assert(self, s, env):
        if not truth(self.eval(s.test, env)):
            raise AssertionError(self.eval(s.msg, env) if s.msg else None)

    def s_Try(self, s, env):
        try:
            try:
                self.exec_block(s.body, env)
            except _INTERNAL:
                raise
            except BaseException as e:
                for h in s.handlers:
                    types_ = self.eval(h.type, env) if h.type is not None else BaseException
                    if isinstance(e, types_):
                        if h.name:
                            env.assign(h.name, e)
                        env.vars["__active_exception__"] = e
                        self.exec_block(h.body, env)
                        break
                else:
                    raise
            else:
                self.exec_block(s.orelse, env)
        finally:
            self.exec_block(s.finalbody, env)

    def s_With(self, s, env):
        mgrs = []
        for item in s.items:
            m = self.eval(item.context_expr, env)
            v = self.call_value(self.getattr(m, "__enter__"), [], {})
            if item.optional_vars is not None:
                self.assign(item.optional_vars, v, env)
            mgrs.append(m)
        try:
            self.exec_block(s.body, env)
        except _INTERNAL:
            for m in reversed(mgrs):
                self.call_value(self.getattr(m, "__exit__"), [None, None, None], {})
            raise
        except BaseException as e:
            suppressed = False
            for m in reversed(mgrs):
                if self.call_value(self.getattr(m, "__exit__"), [type(e), e, e.__traceback__], {}):
                    suppressed = True
            if not suppressed:
                raise
        else:
            for m in reversed(mgrs):
                self.call_value(self.getattr(m, "__exit__"), [None, None, None], {})

    def s_FunctionDef(self, s, env):
        if s.decorator_list:
            raise Unsupported("decorated nested function")
        env.assign(s.name, self.make_func(s, env))

    def make_func(self, node, env):
        a = node.args
        defaults = tuple(self.eval(d, env) for d in a.defaults)
        kwdefaults = {p.arg: self.eval(d, env) for p, d in zip(a.kwonlyargs, a.kw_defaults) if d is not None}
        return IFunc(self, node, env, defaults, kwdefaults, getattr(node, "name", "<lambda>"))

    def s_Import(self, s, env):
        for al in s.names:
            if al.name in self.module_override:
                env.assign(al.asname or al.name.split(".")[0], self.module_override[al.name])
                continue
            m = __import__(al.name)
            if al.asname:
                import importlib
                m = importlib.import_module(al.name)
                env.assign(al.asname, m)
            else:
                env.assign(al.name.split(".")[0], m)

    def s_ImportFrom(self, s, env):
        import importlib
        pkg = env.globals.get("__package__")
        if not s.level and s.module in self.module_override:
            m = self.module_override[s.module]
            for al in s.names:
                env.assign(al.asname or al.name, getattr(m, al.name))
            return
        m = importlib.import_module("." * s.level + (s.module or ""), pkg) if s.level else importlib.import_module(s.module)
        for al in s.names:
            try:
                v = getattr(m, al.name)
            except AttributeError:
                v = importlib.import_module(m.__name__ + "." + al.name)
            env.assign(al.asname or al.name, v)

    # ------------------------------------------------------------------------------------------------ expressions
    def eval(self, e, env):
        m = getattr(self, "e_" + type(e).__name__, None)
        if m is None:
            raise Unsupported(f"expression {type(e).__name__} at line {getattr(e, 'lineno', '?')}")
        return m(e, env)

    def e_Constant(self, e, env):
        return e.value

    def e_Name(self, e, env):
        v = env.lookup(e.id)
        if e.id == "pi" and isinstance(v, float) and v == math.pi and have_ctx() and current().symbolic and current().sym_pi:
            return Poly.pi()
        return v

    def e_Attribute(self, e, env):
        obj = self.eval(e.value, env)
        v = self.getattr(obj, e.attr)
        if e.attr == "pi" and isinstance(v, float) and v == math.pi and isinstance(obj, types.ModuleType) and have_ctx() and current().symbolic and current().sym_pi:
            return Poly.pi()
        return v

    def e_NamedExpr(self, e, env):
        v = self.eval(e.value, env)
        env.assign(e.target.id, v)
        return v

    def e_Tuple(self, e, env):
        return tuple(self._elts(e.elts, env))

    def e_List(self, e, env):
        return self._elts(e.elts, env)

    def e_Set(self, e, env):
        return set(self._elts(e.elts, env))

    def _elts(self, elts, env):
        out = []
        for x in elts:
            if isinstance(x, ast.Starred):
                out.extend(self.iterate(self.eval(x.value, env)))
            else:
                out.append(self.eval(x, env))
        return out

    def e_Dict(self, e, env):
        d = {}
        for k, v in zip(e.keys, e.values):
            if k is None:
                d.update(self.eval(v, env))
            else:
                d[self.eval(k, env)] = self.eval(v, env)
        return d

    def e_UnaryOp(self, e, env):
        v = self.eval(e.operand, env)
        if isinstance(e.op, ast.Not):
            if isinstance(v, SBool):
                return ~v
            return not truth(v)
        if isinstance(e.op, ast.USub):
            m = _lookup(type(v), "__neg__")
            if m is not None and self.node_of(m) is not None:
                return self.call_value(m, [v], {})
            return -v
        if isinstance(e.op, ast.UAdd):
            return +v
        if isinstance(e.op, ast.Invert):
            return ~v
        raise Unsupported("unary op")

    def e_BinOp(self, e, env):
        return self.binop(type(e.op), self.eval(e.left, env), self.eval(e.right, env))

    def e_BoolOp(self, e, env):
        if isinstance(e.op, ast.And):
            v = True
            for x in e.values:
                v = self.eval(x, env)
                if not truth(v):
                    return v if not isinstance(v, SBool) else False
            return v if not isinstance(v, SBool) else True
        v = False
        for x in e.values:
            v = self.eval(x, env)
            if truth(v):
                return v if not isinstance(v, SBool) else True
        return v if not isinstance(v, SBool) else False

    def e_Compare(self, e, env):
        left = self.eval(e.left, env)
        res = True
        for op, r in zip(e.ops, e.comparators):
            right = self.eval(r, env)
            res = self.compare(op, left, right)
            if len(e.ops) > 1:
                if not truth(res):
                    return False
            left = right
        return res

    def e_IfExp(self, e, env):
        return self.eval(e.body, env) if truth(self.eval(e.test, env)) else self.eval(e.orelse, env)

    def e_Lambda(self, e, env):
        return self.make_func(e, env)

    def e_Call(self, e, env):
        # zero-argument super()
        if isinstance(e.func, ast.Name) and e.func.id == "super" and not e.args and not e.keywords:
            fe = env
            while fe is not None and fe.selfobj is None:
                fe = fe.parent
            if env.cls is None or fe is None:
                raise Unsupported("super() outside a method")
            return super(env.cls, fe.selfobj)
        f = self.eval(e.func, env)
        args = self._elts(e.args, env)
        kwargs = {}
        for k in e.keywords:
            if k.arg is None:
                kwargs.update(self.eval(k.value, env))
            else:
                kwargs[k.arg] = self.eval(k.value, env)
        return self.call_value(f, args, kwargs)

    def eval_index(self, sl, env):
        if isinstance(sl, ast.Slice):
            return slice(self._idx(sl.lower, env), self._idx(sl.upper, env), self._idx(sl.step, env))
        if isinstance(sl, ast.Tuple):
            return tuple(self.eval_index(x, env) for x in sl.elts)
        return self.eval(sl, env)

    def _idx(self, e, env):
        if e is None:
            return None
        v = self.eval(e, env)
        if isinstance(v, Poly):
            if v.is_const():
                return v.to_python() if not v.isint else int(v.to_python())
            return v        # symbolic slice bound: only a symbolic-length array (SymVec) accepts it; native containers raise and the obligation becomes undecided
        return v

    def getitem(self, obj, idx):
        g = _lookup(type(obj), "__getitem__")
        if g is not None and self.node_of(g) is not None:
            return self.call_value(g, [obj, idx], {})
        if isinstance(obj, dict) and isinstance(idx, tuple):
            idx = _concrete_key(idx)
        if isinstance(idx, Poly):
            if idx.is_const():
                idx = idx.to_python()
            elif isinstance(obj, (list, tuple, str)):
                # symbolic index into a concrete sequence: fork over the positions
                n = len(obj)
                for j in range(-n, n):
                    if truth(idx == j):
                        return obj[j]
                raise IndexError("sequence index out of range")
            elif isinstance(obj, dict):
                for k in obj:
                    if truth(self.py_eq(k, idx)):
                        return obj[k]
                raise KeyError(idx)
        if isinstance(idx, slice) and not isinstance(obj, SymVec) and any(isinstance(b, Poly) for b in (idx.start, idx.stop, idx.step)):
            raise Unsupported("symbolic slice bound")
        return obj[idx]

    def setitem(self, obj, idx, v):
        s = _lookup(type(obj), "__setitem__")
        if s is not None and self.node_of(s) is not None:
            self.call_value(s, [obj, idx, v], {})
            return
        if isinstance(idx, Poly):
            if idx.is_const():
                idx = idx.to_python()
            elif isinstance(obj, list):
                n = len(obj)
                for j in range(-n, n):
                    if truth(idx == j):
                        obj[j] = v
                        return
                raise IndexError("list assignment index out of range")
            elif isinstance(obj, dict):
                for k in obj:
                    if truth(self.py_eq(k, idx)):
                        obj[k] = v
                        return
        if isinstance(obj, np.ndarray) and obj.dtype != object and has_sym(v):
            raise Unsupported("symbolic value stored into a numeric numpy array")
        if isinstance(idx, slice) and not isinstance(obj, SymVec) and any(isinstance(b, Poly) for b in (idx.start, idx.stop, idx.step)):
            raise Unsupported("symbolic slice bound")
        obj[idx] = v

    def e_Subscript(self, e, env):
        return self.getitem(self.eval(e.value, env), self.eval_index(e.slice, env))

    def e_Starred(self, e, env):
        raise Unsupported("starred expression")

    def e_JoinedStr(self, e, env):
        out = []
        for v in e.values:
            if isinstance(v, ast.Constant):
                out.append(v.value)
            else:
                out.append(self.e_FormattedValue(v, env))
        return "".join(out)

    def e_FormattedValue(self, e, env):
        v = self.eval(e.value, env)
        spec = self.eval(e.format_spec, env) if e.format_spec is not None else ""
        if e.conversion == ord("r"):
            v = self.call_value(repr, [v], {})
        elif e.conversion == ord("s"):
            v = self.call_value(str, [v], {})
        elif e.conversion == ord("a"):
            v = ascii(v)
        if isinstance(v, (Poly, SBool)):
            if isinstance(v, Poly) and v.is_const():
                return format(v.to_python(), spec)
            return f"<{v!r}>"
        r = _lookup(type(v), "__format__")
        if spec == "" and not isinstance(v, str):
            sm = _lookup(type(v), "__str__")
            if sm is not None and self.node_of(sm) is not None:
                return self.call_value(sm, [v], {})
            rm = _lookup(type(v), "__repr__")
            if sm is object.__str__ and rm is not None and self.node_of(rm) is not None:
                return self.call_value(rm, [v], {})
        try:
            return format(v, spec)
        except _INTERNAL:
            raise
        except Exception as ex:
            if has_sym(getattr(v, "__dict__", v), 3):
                return f"<{type(v).__name__}>"
            raise

    def _comp_ghost(self, e, env, kind):
        """comprehension over a sequence of unknown length (GSeq): evaluated ONCE on the generic element (loop cut); the value is the abstract sequence
        comp(src, kept, image).  Only a single generator is supported; a comprehension executed for its side effects runs between the protocol hooks."""
        gens = e.generators
        itv = self.eval(gens[0].iter, env)
        if not isinstance(itv, GSeq):
            return _NOGHOST, itv
        if len(gens) != 1 or kind not in ("list", "gen"):
            raise Unsupported("comprehension over a ghost sequence with several generators / of set or dict type")
        en = Env(env, env.globals)
        _hook(itv.init, self, en)
        if not itv.nonempty():
            return GSeq("comp", src=itv, kept=False, image=None, n="empty"), itv
        _hook(itv.havoc, self, en)
        temps = _poison_temps(itv, en)
        frame = _frame_state(en)
        self.assign(gens[0].target, itv.element(), en)
        kept = all(truth(self.eval(c, en)) for c in gens[0].ifs)
        image = self.eval(e.elt, en) if kept else None
        _check_loop_carried(itv, frame, en, _target_names(gens[0].target) | temps)
        _hook(itv.step, self, en, False)
        _hook(itv.exit, self, en)
        return GSeq("comp", src=itv, kept=kept, image=image), itv

    def _comp(self, gens, env, emit, first=None):
        def rec(i, env):
            if i == len(gens):
                emit(env)
                return
            g = gens[i]
            for x in self.iterate(first.v if (i == 0 and first is not None) else self.eval(g.iter, env)):
                self.assign(g.target, x, env)
                if all(truth(self.eval(c, env)) for c in g.ifs):
                    rec(i + 1, env)
        rec(0, Env(env, env.globals))

    def e_ListComp(self, e, env):
        g, itv = self._comp_ghost(e, env, "list")
        if g is not _NOGHOST:
            return g
        out = []
        self._comp(e.generators, env, lambda en: out.append(self.eval(e.elt, en)), first=_Once(itv))
        return out

    def e_SetComp(self, e, env):
        out = set()
        self._comp(e.generators, env, lambda en: out.add(self.eval(e.elt, en)))
        return out

    def e_GeneratorExp(self, e, env):
        g, itv = self._comp_ghost(e, env, "gen")
        if g is not _NOGHOST:
            return g
        out = []
        self._comp(e.generators, env, lambda en: out.append(self.eval(e.elt, en)), first=_Once(itv))
        return iter(out)

    def e_DictComp(self, e, env):
        out = {}

        def emit(en):
            k = self.eval(e.key, en)
            out[k] = self.eval(e.value, en)
        self._comp(e.generators, env, emit)
        return out

    def e_Yield(self, e, env):
        env.lookup("__yield__").append(self.eval(e.value, env) if e.value is not None else None)
        return None

    def e_YieldFrom(self, e, env):
        env.lookup("__yield__").extend(self.iterate(self.eval(e.value, env)))
        return None


_NOMODEL = object()
_NOGHOST = object()


class _Once:
    """the already evaluated iterable of a comprehension's first generator (evaluated once, as Python does)"""

    def __init__(self, v):
        self.v = v


def _lookup(t, name):
    for k in t.__mro__:
        if name in k.__dict__:
            v = k.__dict__[name]
            if isinstance(v, (staticmethod, classmethod)):
                return v.__func__
            return v
    return None


def _try_native(m, a, b):
    try:
        return m(a, b)
    except TypeError:
        return NotImplemented


def _class_file(cls):
    try:
        return sys.modules[cls.__module__].__file__
    except Exception:
        return None


def _is_repo_obj(interp, x):
    return interp.in_repo(_class_file(type(x)))


def _contains_repo_or_sym(d):
    for v in d.values():
        if isinstance(v, Poly) or (isinstance(v, (list, tuple)) and any(isinstance(e, Poly) for e in v)):
            return True
        if type(v).__module__.startswith("tangelo"):
            return True
    return False


def _has_yield(node):
    r = getattr(node, "_hasyield", None)
    if r is None:
        r = node._hasyield = _has_yield0(node)
    return r


def _has_yield0(node):
    for n in ast.walk(node):
        if isinstance(n, (ast.Yield, ast.YieldFrom)):
            # make sure it belongs to this function and not to a nested one
            return _owner_has_yield(node)
    return False


def _owner_has_yield(fn):
    stack = list(fn.body)
    while stack:
        n = stack.pop()
        if isinstance(n, (ast.Yield, ast.YieldFrom)):
            return True
        if isinstance(n, (ast.FunctionDef, ast.Lambda, ast.AsyncFunctionDef, ast.ClassDef)):
            continue
        stack.extend(ast.iter_child_nodes(n))
    return False


def _fid(f):
    try:
        return id(f)
    except Exception:
        return None


# ---------------------------------------------------------------------------------------------------------------------
# models of builtins / library functions on symbolic arguments (the assumed contracts).  Each entry documents itself.

_MODELS = {}
MODEL_DOC = {}


def model(*funcs, doc=""):
    def deco(m):
        for f in funcs:
            _MODELS[id(f)] = m
            MODEL_DOC[getattr(f, "__module__", "?") or "?", getattr(f, "__qualname__", getattr(f, "__name__", str(f)))] = doc
        return m
    return deco


def _pt(x):
    return x.pytype() if isinstance(x, Poly) else type(x)


@model(isinstance, doc="isinstance(sym, T): a symbolic scalar behaves as a Python int/float/complex according to its inferred type")
def _m_isinstance(interp, f, args, kw):
    x, T = args
    if isinstance(x, Poly):
        proto = {int: 0, float: 0.0, complex: 0j}[x.pytype()]
        return isinstance(proto, T)
    if isinstance(x, SBool):
        return isinstance(True, T)
    return isinstance(x, T)


@model(type, doc="type(sym) is int/float/complex according to the inferred type")
def _m_type(interp, f, args, kw):
    if len(args) == 1 and isinstance(args[0], Poly):
        return args[0].pytype()
    if len(args) == 1 and isinstance(args[0], SBool):
        return bool
    return type(*args, **kw)


@model(float, doc="float(sym) is the same real number")
def _m_float(interp, f, args, kw):
    if args and isinstance(args[0], Poly):
        p = args[0]
        if p.is_const():
            return float(p.to_python())
        return Poly(p.t, False)
    return float(*args, **kw)


@model(int, doc="int(sym int) is itself; int(sym real) is unsupported")
def _m_int(interp, f, args, kw):
    if args and isinstance(args[0], Poly):
        p = args[0]
        if p.is_const():
            return int(p.to_python())
        if p.isint:
            return p
        raise Unsupported("int() of a symbolic real")
    return int(*args, **kw)


@model(complex, doc="complex(sym) is the same number")
def _m_complex(interp, f, args, kw):
    if args and any(isinstance(a, Poly) for a in args):
        if len(args) == 1:
            return args[0]
        return Poly._coerce(args[0]) + Poly({(): ring.Cyc.I()}) * Poly._coerce(args[1])
    return complex(*args, **kw)


@model(bool, doc="bool(sym) forks")
def _m_bool(interp, f, args, kw):
    return truth(args[0]) if args else False


@model(len, doc="len dispatches to an interpreted __len__ for repository classes")
def _m_len(interp, f, args, kw):
    x = args[0]
    if isinstance(x, GSeq):
        return x.length()
    if isinstance(x, SymVec):
        return x.n
    m = _lookup(type(x), "__len__")
    if m is not None and interp.node_of(m) is not None:
        return interp.call_value(m, [x], {})
    return len(x)


@model(repr, doc="repr dispatches to an interpreted __repr__ for repository classes")
def _m_repr(interp, f, args, kw):
    x = args[0]
    m = _lookup(type(x), "__repr__")
    if m is not None and interp.node_of(m) is not None:
        return interp.call_value(m, [x], {})
    return repr(x)


@model(str, doc="str dispatches to interpreted __str__/__repr__ for repository classes")
def _m_str(interp, f, args, kw):
    if len(args) == 1 and not kw:
        x = args[0]
        m = _lookup(type(x), "__str__")
        if m is not None and interp.node_of(m) is not None:
            return interp.call_value(m, [x], {})
        if m is object.__str__:
            return _m_repr(interp, repr, [x], {})
        if isinstance(x, Poly) and x.is_const():
            return str(x.to_python())
    return str(*args, **kw)


@model(getattr, doc="getattr goes through the interpreter so that repository properties are interpreted")
def _m_getattr(interp, f, args, kw):
    if len(args) == 3:
        try:
            return interp.getattr(args[0], args[1])
        except AttributeError:
            return args[2]
    return interp.getattr(*args)


@model(setattr, doc="setattr goes through the interpreter")
def _m_setattr(interp, f, args, kw):
    interp.setattr(*args)


@model(hasattr, doc="hasattr goes through the interpreter")
def _m_hasattr(interp, f, args, kw):
    if isinstance(args[0], Poly):
        return hasattr(0.0, args[1])
    try:
        interp.getattr(args[0], args[1])
        return True
    except AttributeError:
        return False


@model(iter, doc="iter dispatches to interpreted __iter__")
def _m_iter(interp, f, args, kw):
    if len(args) == 1:
        return interp.iterate(args[0])
    return iter(*args)


@model(callable, doc="callable")
def _m_callable(interp, f, args, kw):
    return isinstance(args[0], IFunc) or callable(args[0])


def _seq_arg(interp, args):
    if len(args) == 1:
        return list(interp.iterate(args[0]))
    return list(args)


@model(max, min, doc="max/min over symbolic values fork on the comparisons; key= functions are interpreted")
def _m_maxmin(interp, f, args, kw):
    key = kw.get("key")
    if len(args) == 1:
        seq = list(interp.iterate(args[0]))
        if not seq:
            if "default" in kw:
                return kw["default"]
            raise ValueError(f"{f.__name__}() iterable argument is empty")
    else:
        seq = list(args)
    if not has_sym(seq, 1) and key is None and not any(_is_repo_obj(interp, x) for x in seq):
        return f(seq)
    kf = (lambda x: interp.call_value(key, [x], {})) if key is not None else (lambda x: x)
    best, bk = seq[0], kf(seq[0])
    for x in seq[1:]:
        k = kf(x)
        c = interp.compare(ast.Gt() if f is max else ast.Lt(), k, bk)
        if truth(c):
            best, bk = x, k
    return best


@model(sorted, doc="sorted: comparisons of symbolic keys fork; key= functions are interpreted; stable insertion sort on symbolic keys")
def _m_sorted(interp, f, args, kw):
    if isinstance(args[0], GSeq):
        return GSeq("sorted", src=args[0])       # a permutation of the source: same generic element, same length (the order itself is not described)
    seq = list(interp.iterate(args[0]))
    key = kw.get("key")
    rev = kw.get("reverse", False)
    kf = (lambda x: interp.call_value(key, [x], {})) if key is not None else (lambda x: x)
    keys = [kf(x) for x in seq]
    if not has_sym(keys, 2):
        idx = sorted(range(len(seq)), key=lambda i: keys[i], reverse=bool(rev))
        return [seq[i] for i in idx]
    out = []
    for i, x in enumerate(seq):
        j = len(out)
        while j > 0:
            c = interp.compare(ast.Lt() if not rev else ast.Gt(), keys[i], out[j - 1][0])
            if truth(c):
                j -= 1
            else:
                break
        out.insert(j, (keys[i], x))
    return [x for _, x in out]


@model(sum, doc="sum adds with the interpreted + so that repository __add__/__radd__ are interpreted")
def _m_sum(interp, f, args, kw):
    seq = list(interp.iterate(args[0]))
    start = args[1] if len(args) > 1 else kw.get("start", 0)
    if not has_sym(seq, 1) and not any(_is_repo_obj(interp, x) for x in seq) and not _is_repo_obj(interp, start):
        return sum(seq, start)
    tot = start
    for x in seq:
        tot = interp.binop(ast.Add, tot, x)
    return tot


@model(any, doc="any/all over symbolic truth values fork in order")
def _m_any(interp, f, args, kw):
    for x in interp.iterate(args[0]):
        if truth(x):
            return True
    return False


@model(all, doc="any/all over symbolic truth values fork in order")
def _m_all(interp, f, args, kw):
    for x in interp.iterate(args[0]):
        if not truth(x):
            return False
    return True


@model(map, doc="map with interpreted callables")
def _m_map(interp, f, args, kw):
    fn = args[0]
    return iter([interp.call_value(fn, list(xs), {}) for xs in zip(*[list(interp.iterate(a)) for a in args[1:]])])


@model(filter, doc="filter with interpreted callables")
def _m_filter(interp, f, args, kw):
    fn = args[0]
    return iter([x for x in interp.iterate(args[1]) if truth(interp.call_value(fn, [x], {}) if fn is not None else x)])


class GhostItems:
    """dict(pairs) / OrderedDict(pairs) for a ghost sequence of (key, value) pairs: a mapping of unknown size whose only supported use is .items() / .keys() / .values()"""

    def __init__(self, seq):
        self.seq = seq

    def items(self):
        return self.seq

    def __getattr__(self, a):
        if a.startswith("__"):
            raise AttributeError(a)
        raise ShapeChanged(f"operation .{a} on a mapping built from a ghost sequence")


import collections as _collections


@model(_collections.OrderedDict, dict, doc="OrderedDict(pairs) / dict(pairs) of a ghost sequence of pairs: opaque mapping with .items()")
def _m_odict(interp, f, args, kw):
    if len(args) == 1 and isinstance(args[0], GSeq):
        return GhostItems(args[0])
    return f(*args, **kw)


@model(list, tuple, set, frozenset, doc="container constructors iterate through interpreted __iter__")
def _m_list(interp, f, args, kw):
    if len(args) == 1 and isinstance(args[0], GSeq):
        if f is list:
            return GSeq("shallow", src=args[0])     # list(xs): a new list with the same elements in the same order
        raise Unsupported(f"{f.__name__}() of a ghost sequence")
    if len(args) == 1:
        items = list(interp.iterate(args[0]))
        if f in (set, frozenset) and any(isinstance(x, Poly) and not x.is_const() for x in items):
            # set of symbolic numbers: duplicates are decided by (forking on) value equality
            out = []
            for x in items:
                if not any(truth(interp.py_eq(x, y)) for y in out):
                    out.append(x)
            return SymSet(out)
        return f(items)
    return f(*args, **kw)


class SymSet(list):
    """a set whose elements are symbolic numbers, already de-duplicated on the current path (supports len / in / iteration / add)"""

    def add(self, x):
        for y in self:
            if truth(y == x):
                return
        self.append(x)


@model(enumerate, zip, reversed, doc="iteration helpers over interpreted iterables")
def _m_enum(interp, f, args, kw):
    if f is reversed:
        x = args[0]
        if isinstance(x, GSeq):
            return x.__reversed__()
        if isinstance(x, GhostIterable):
            x.reversed = True
            return x
        if isinstance(x, (list, tuple, str, range, dict)):
            return reversed(x)
        return reversed(list(interp.iterate(x)))
    if f is enumerate and len(args) == 1 and isinstance(args[0], SymVec):
        return SymVecEnum(args[0])
    return f(*[interp.iterate(a) if not isinstance(a, int) else a for a in args], **kw)


@model(np.zeros, doc="np.zeros(n) with a symbolic length n: a symbolic-length integer array (SymVec)")
def _m_npzeros(interp, f, args, kw):
    if args and isinstance(args[0], Poly) and not args[0].is_const():
        return SymVec(args[0])
    return f(*args, **kw)


@model(np.linspace, doc="np.linspace(0, n - 1, n, dtype=int) with a symbolic n: the symbolic-length array [0, 1, ..., n-1]")
def _m_nplinspace(interp, f, args, kw):
    if len(args) >= 3 and isinstance(args[2], Poly) and not args[2].is_const():
        a, b, n = args[:3]
        if kw.get("dtype") is int and Poly._coerce(a).is_zero() and (Poly._coerce(b) - (n - 1)).is_zero():
            return SymVec(n, read=lambda j: j if isinstance(j, Poly) else Poly.const(j))
        raise Unsupported("np.linspace with symbolic arguments other than (0, n - 1, n, dtype=int)")
    return f(*args, **kw)


@model(np.ceil, math.ceil, np.floor, math.floor, doc="ceil / floor of a symbolic real: the integer c with c - 1 < x <= c (x <= c < x + 1)")
def _m_ceil(interp, f, args, kw):
    x = args[0]
    if isinstance(x, Poly) and not x.is_const():
        import z3
        zx = x.to_z3()
        if x.isint:
            return x
        zr = z3.ToReal(zx) if zx.sort() == z3.IntSort() else zx
        return Poly.atom(-z3.ToInt(-zr) if f in (np.ceil, math.ceil) else z3.ToInt(zr), isint=True)
    if isinstance(x, Poly):
        x = x.to_python()
    return f(x, *args[1:], **kw)


@model(np.concatenate, doc="np.concatenate of two symbolic-length arrays")
def _m_npconcat(interp, f, args, kw):
    if args and isinstance(args[0], (tuple, list)) and any(isinstance(p, SymVec) for p in args[0]):
        return SymVec.concatenate(args[0])
    return f(*args, **kw)


@model(range, doc="range(n) with a symbolic n: loop cut on a generic index (GRange)")
def _m_range(interp, f, args, kw):
    if len(args) == 1 and isinstance(args[0], Poly) and not args[0].is_const():
        protos = getattr(interp, "range_protocols", None)
        if not protos:
            raise Unsupported("range() of a symbolic value without a loop invariant queued by the contract")
        return GRange(args[0], protos.pop(0))
    if any(isinstance(a, Poly) and not a.is_const() for a in args):
        raise Unsupported("range() with symbolic start / step")
    return range(*[int(a.to_python()) if isinstance(a, Poly) else a for a in args])


@model(abs, doc="abs(sym) = If(x>=0,x,-x)")
def _m_abs(interp, f, args, kw):
    x = args[0]
    m = _lookup(type(x), "__abs__")
    if m is not None and interp.node_of(m) is not None:
        return interp.call_value(m, [x], {})
    return abs(x)


@model(round, doc="round(sym, n): r = j/10**n with |r-x| <= 0.5*10**-n")
def _m_round(interp, f, args, kw):
    return round(*args, **kw)


@model(print, doc="print is a no-op")
def _m_print(interp, f, args, kw):
    return None


def _trig(fn_sym, fn_native):
    def m(interp, f, args, kw):
        x = args[0]
        if isinstance(x, Poly):
            if x.is_const() and x.const_cyc().is_rational():
                if x.const_cyc().is_zero():
                    return fn_sym(Poly.const(0) * Poly.pi())
                if not (have_ctx() and current().symbolic):
                    return fn_native(x.to_python())
            return fn_sym(x)
        if isinstance(x, np.ndarray) and x.dtype == object:
            return np.vectorize(lambda v: fn_sym(v) if isinstance(v, Poly) else fn_native(v), otypes=[object])(x)
        return f(*args, **kw)
    return m


def _exp(x):
    if isinstance(x, Poly):
        re = x.real if not x.is_real_valued() else x
        if not x.is_real_valued() and (x - x.imag * Poly({(): ring.Cyc.I()})).is_zero():
            return ring.expi(x.imag)
        if x.is_zero():
            return Poly.const(1.0)
        raise Unsupported("exp of a symbolic value that is not purely imaginary")
    return cmath.exp(x)


model(np.cos, math.cos, cmath.cos, doc="cos of a linear form in symbolic angles and pi: exact polynomial in the trig atoms")(_trig(ring.cos, math.cos))
model(np.sin, math.sin, cmath.sin, doc="sin of a linear form: exact polynomial in the trig atoms")(_trig(ring.sin, math.sin))
model(np.exp, cmath.exp, math.exp, doc="exp(i*phi) for a real linear form phi")(_trig(_exp, cmath.exp))


@model(np.sqrt, math.sqrt, cmath.sqrt, doc="sqrt of exact constants (rational squares and 2*squares)")
def _m_sqrt(interp, f, args, kw):
    x = args[0]
    if isinstance(x, Poly):
        return x ** 0.5
    return f(*args, **kw)


@model(np.abs, np.absolute, doc="np.abs(sym) as abs")
def _m_npabs(interp, f, args, kw):
    x = args[0]
    if isinstance(x, Poly):
        return abs(x)
    return f(*args, **kw)


@model(np.real, doc="real part")
def _m_npreal(interp, f, args, kw):
    x = args[0]
    if isinstance(x, Poly):
        return x.real
    return f(*args, **kw)


@model(np.imag, doc="imag part")
def _m_npimag(interp, f, args, kw):
    x = args[0]
    if isinstance(x, Poly):
        return x.imag
    return f(*args, **kw)


@model(np.conj, np.conjugate, doc="complex conjugate")
def _m_npconj(interp, f, args, kw):
    x = args[0]
    if isinstance(x, Poly):
        return x.conj()
    return f(*args, **kw)


@model(np.mod, doc="np.mod as %")
def _m_npmod(interp, f, args, kw):
    if any(isinstance(a, Poly) for a in args):
        return Poly._coerce(args[0]) % Poly._coerce(args[1])
    return f(*args, **kw)


def _isclose(a, b, rel_tol, abs_tol):
    import z3
    a, b = Poly._coerce(a), Poly._coerce(b)
    d = abs(a - b)
    from .sym import as_z3bool
    conds = []
    if abs_tol:
        conds.append(as_z3bool(d <= abs_tol))
    if rel_tol:
        conds.append(as_z3bool(d <= rel_tol * abs(a)))
        conds.append(as_z3bool(d <= rel_tol * abs(b)))
    if not conds:
        return a == b
    return SBool(z3.Or(*conds))


@model(math.isclose, doc="math.isclose(a,b,rel_tol,abs_tol) as the real inequality |a-b| <= max(rel_tol*max(|a|,|b|), abs_tol)")
def _m_isclose(interp, f, args, kw):
    if any(isinstance(a, Poly) and not a.is_const() for a in args[:2]):
        return _isclose(args[0], args[1], kw.get("rel_tol", 1e-9), kw.get("abs_tol", 0.0))
    args = [a.to_python() if isinstance(a, Poly) else a for a in args]
    return f(*args, **kw)


@model(np.isclose, doc="np.isclose(a,b,rtol,atol) as |a-b| <= atol + rtol*|b|")
def _m_npisclose(interp, f, args, kw):
    if any(isinstance(a, Poly) and not a.is_const() for a in args[:2]):
        rtol, atol = kw.get("rtol", 1e-5), kw.get("atol", 1e-8)
        a, b = Poly._coerce(args[0]), Poly._coerce(args[1])
        return abs(a - b) <= atol + rtol * abs(b)
    args = [a.to_python() if isinstance(a, Poly) else a for a in args]
    return f(*args, **kw)


import copy as _copy


@model(_copy.deepcopy, doc="deepcopy: fresh isomorphic object graph (native; symbolic leaves are immutable and shared)")
def _m_deepcopy(interp, f, args, kw):
    return _copy.deepcopy(*args, **kw)


@model(np.linalg.norm, doc="np.linalg.norm of a vector holding symbolic numbers: sqrt(sum |x_i|^2) (2-norm of the flattened array)")
def _m_norm(interp, f, args, kw):
    x = args[0]
    if isinstance(x, np.ndarray) and x.dtype == object and has_sym(x, 1) and len(args) == 1 and not kw:
        tot = Poly.const(0)
        for v in x.flat:
            v = Poly._coerce(v)
            tot = tot + (v * v.conj() if not v.is_real_valued() else v * v)
        return tot ** 0.5
    return f(*args, **kw)


@model(np.random.random, doc="np.random.random(): an unknown real u with 0 <= u < 1 (the draw is opaque)")
def _m_random(interp, f, args, kw):
    if have_ctx() and current().symbolic and not args and not kw and getattr(current(), "opaque_random", False):
        import z3
        c = current()
        u = c.fresh_real("u")
        c.side.append(z3.And(u >= 0, u < 1))
        p = Poly.atom(u, name=str(u))
        c.inputs[str(u)] = p
        return p
    return f(*args, **kw)
