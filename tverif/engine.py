"""Contracts, obligations, path exploration, replay, evidence."""
from __future__ import annotations

import copy
import json
import os
import sys
import time
import traceback
import warnings
import hashlib

import numpy as np

from . import qsem, ring
from .ring import Poly, Unsupported, ShapeChanged
from .sym import Ctx, SBool, Infeasible, PathLimit, Obligation
from .interp import Interp, has_sym, _INTERNAL

VERIF = os.path.dirname(os.path.dirname(os.path.abspath(__file__)))

CONTRACTS = {}     # id -> Contract


class TargetMissing(ShapeChanged):
    """the function a contract is written for no longer exists under that name (renamed, moved or inlined private helper): the contract is skipped with a note - the contracts
    of its callers, which execute whatever the code now does, still apply"""


class HarnessError(BaseException):
    """bug in a contract harness (not in the code under contract): checker error, never a violation"""


class Contract:
    def __init__(self, prop, cid, fn, targets, level, structures, doc, max_paths, native_samples):
        self.prop, self.id, self.fn, self.targets, self.level = prop, cid, fn, targets, level
        self.structures, self.doc, self.max_paths, self.native_samples = structures, doc, max_paths, native_samples


def contract(prop, cid, targets=(), level="S", structures=None, max_paths=400, native_samples=None):
    """register a contract harness.

    fn(h, st): h is the Harness (inputs / assume / call / check), st one structure (JSON-able) from structures(tier).
    level: "P" unbounded (all inputs), "S" all scalars x bounded structure, "B" bounded stand-in (native runs only).
    native_samples(st, rnd) -> list of dicts of concrete input values: the harness is also executed natively on them
    (bounded stand-in + validation of the exact model against the floating-point code)."""
    def deco(fn):
        full = f"{prop}.{cid}"
        CONTRACTS[full] = Contract(prop, full, fn, list(targets), level, structures or (lambda tier: [None]), fn.__doc__ or "",
                                   max_paths, native_samples)
        return fn
    return deco


# functions specified as functions of their arguments (read-only on their inputs, no dependence on earlier calls): probed twice in the bounded native layer
REPEATABLE = set()


def repeatable(*targets):
    for t in targets:
        REPEATABLE.add(tuple(t))


def _scramble(x, depth=2):
    """consume the containers of a returned value in place (what a caller is allowed to do with what it was handed)"""
    try:
        if isinstance(x, (list, set, dict)):
            if depth > 0:
                for e in (list(x.values()) if isinstance(x, dict) else list(x)):
                    _scramble(e, depth - 1)
            x.clear()
        elif isinstance(x, tuple) and depth > 0:
            for e in x:
                _scramble(e, depth - 1)
        elif isinstance(x, np.ndarray) and x.dtype != object and x.flags.writeable:
            x[...] = 0
        elif type(x).__name__ == "Circuit" and hasattr(x, "add_gate"):
            # a caller may extend the circuit it was handed (e.g. build another determinant on top of a reference circuit)
            from tangelo.linq import Gate
            x.add_gate(Gate("H", 0))
            x.add_gate(Gate("X", 0))
        elif hasattr(x, "terms") and isinstance(getattr(x, "terms"), dict):
            # ... or update the operator it was handed in place
            x.terms[()] = x.terms.get((), 0) + 1.2345
    except Exception:
        pass


def _close(a, b, tol=1e-9):
    """structural equality of snapshots up to a float tolerance"""
    if isinstance(a, (int, float, complex)) and isinstance(b, (int, float, complex)) and not isinstance(a, bool):
        return abs(complex(a) - complex(b)) <= tol
    if isinstance(a, tuple) and isinstance(b, tuple):
        return len(a) == len(b) and all(_close(x, y, tol) for x, y in zip(a, b))
    if isinstance(a, bytes) and isinstance(b, bytes) and len(a) == len(b) and len(a) % 8 == 0:
        try:
            return bool(np.allclose(np.frombuffer(a, dtype=np.float64), np.frombuffer(b, dtype=np.float64), atol=tol, rtol=0, equal_nan=True))
        except Exception:
            return a == b
    return a == b


class NativeCaller:
    """replay / bounded mode: resolves and calls the real function natively"""

    def __init__(self):
        self._i = Interp()
        self.touched = self._i.touched

    def call(self, relfile, qualname, *args, **kwargs):
        try:
            f = self._i.resolve(relfile, qualname)
        except (AttributeError, ImportError) as e:
            raise TargetMissing(f"target {relfile}::{qualname} no longer exists ({type(e).__name__}: {e})")
        if isinstance(f, property):
            return f.fget(*args)
        node = self._i.node_of(f) if hasattr(f, "__code__") else None
        if node is not None:
            self._i._touch(f.__code__.co_filename, node)
        return f(*args, **kwargs)

    def getattr(self, obj, name):
        return getattr(obj, name)


class Harness:
    def __init__(self, ctx: Ctx, caller, cid, st):
        self.ctx, self.I, self.cid, self.st = ctx, caller, cid, st
        self.reached_end = False

    # inputs
    @property
    def symbolic(self):
        return self.ctx.symbolic

    def real(self, name, angle_denom=None):
        return self.ctx.real(name, angle_denom)

    def integer(self, name):
        return self.ctx.integer(name)

    def boolean(self, name):
        return self.ctx.boolean(name)

    @property
    def pi(self):
        if self.symbolic:
            self.ctx.sym_pi = True
            return Poly.pi()
        return np.pi

    def numeric_pi(self):
        """keep math.pi / np.pi as the float (the code under contract hands its angles to a native library)"""
        self.ctx.sym_pi = False

    def assume(self, cond):
        if not self.symbolic:
            if not bool(cond):
                raise Infeasible()
            return
        self.ctx.assume(cond)

    # calling the real code
    def call(self, relfile, qualname, *args, **kwargs):
        if (relfile, qualname) in REPEATABLE and not getattr(self, "_in_repeat", False) and (not self.symbolic or self._plain_call(args, kwargs)):
            self._repeat_probe(relfile, qualname, args, kwargs)
        try:
            return self.I.call(relfile, qualname, *args, **kwargs)
        except _INTERNAL:
            raise
        except Exception as e:
            e._from_target = True     # raised by the code under contract (not by the harness itself)
            raise

    def _plain_call(self, args, kwargs):
        """symbolic run, but this call is entirely concrete: no symbolic scalar, no ghost object, no callee stub installed (modular contracts are not probed)"""
        from .interp import GhostIterable, SymVec
        if getattr(self.I, "stubs", None) or getattr(self.I, "range_protocols", None):
            return False
        vals = list(args) + list(kwargs.values())
        if has_sym(vals, 3):
            return False
        return not any(isinstance(v, (GhostIterable, SymVec, GhostList, GhostSet, GhostDict, Opaque)) for v in vals)

    def _repeat_probe(self, relfile, qualname, args, kwargs):
        """bounded native layer, for functions that are specified as functions of their arguments (REPEATABLE): call once, snapshot the result, SCRAMBLE the containers the
        caller was handed (a caller may consume them), then let the real call follow; its result must equal the first one - results are not aliased with hidden state, and
        nothing the first call left behind changes the second"""
        self._in_repeat = True
        try:
            try:
                r0 = self.I.call(relfile, qualname, *args, **kwargs)
            except Exception:
                return          # exceptional behaviour is judged by the contract itself on the real call
            s0 = snapshot(r0)
            _scramble(r0)
            try:
                r1 = self.I.call(relfile, qualname, *args, **kwargs)
            except Exception as e:
                self.ctx.check(f"{self.cid}::repeatable: {qualname} raises on a second identical call", False, detail=f"{type(e).__name__}: {e}")
                return
            same = snapshot(r1) == s0 or _close(snapshot(r1), s0)
            self.ctx.check(f"{self.cid}::repeatable: {qualname} returns the same value on a second identical call (after the caller consumed the first result)", same,
                           detail="" if same else f"{str(s0)[:160]} vs {str(snapshot(r1))[:160]}")
            _scramble(r1)
        finally:
            self._in_repeat = False

    def getattr(self, obj, name):
        try:
            return self.I.getattr(obj, name)
        except _INTERNAL:
            raise
        except Exception as e:
            e._from_target = True
            raise

    def raises(self, fn, *exc):
        """run fn(); return the exception instance if it raised one of exc (default: any Exception) else None"""
        exc = exc or (Exception,)
        try:
            fn()
        except _INTERNAL:
            raise
        except exc as e:
            return e
        return None

    # obligations
    def check(self, name, cond, detail=""):
        full = f"{self.cid}::{name}"
        if not self.symbolic and isinstance(cond, (Poly, SBool)):
            cond = bool(cond)
        return self.ctx.check(full, cond, detail=detail)

    def check_close(self, name, a, b, tol=1e-9, detail=""):
        """a == b: exact normal-form equality in symbolic mode, |a-b| <= tol natively"""
        for v in (a, b):
            if v is None or isinstance(v, (str, bytes, list, tuple, dict, set)):
                # the code under contract produced something that is not a number where the specification has one: a failed obligation on this path, not a checker crash
                return self.check(name, False, detail=(detail + f" {a!r} is not comparable with {b!r}").strip())
        if self.symbolic:
            a, b = Poly._coerce(a), Poly._coerce(b)
            d = a - b
            full = f"{self.cid}::{name}"
            if d.is_zero():
                self.ctx.discharged(full, "normal-form", detail)
                return True
            if d.is_real_valued():
                return self.ctx.check(full, d == 0, detail=detail)
            if self.ctx.pc:
                # complex-valued difference on a path with a path condition: decide real and imaginary parts under that condition
                re, im = d.real, d.imag
                cond = None
                for part in (re, im):
                    if part.is_zero():
                        continue
                    e = (part == 0)
                    cond = e if cond is None else (cond & e)
                return self.ctx.check(full, cond, detail=detail + f" difference {d}")
            w = qsem.find_witness([d], self.ctx.inputs)
            if w:
                self.ctx.fail_numeric(full, w[1], detail + f" difference {d}")
            else:
                self.ctx.undecided(full, detail + f" non-zero normal form {d} but no witness")
            return False
        return self.check(name, abs(complex(a) - complex(b)) <= tol, detail + f" |{a} - {b}| > {tol}")

    def mat_equal(self, name, a, b, A, n, up_to_phase=False, tol=1e-9, detail=""):
        """operator equality (sparse rows). exact mode: canonical normal forms; numeric: max |a-b| <= tol"""
        full = f"{self.cid}::{name}"
        if A is qsem.Exact:
            t0 = time.time()
            diffs = qsem.proportional_defect(a, b, A) if up_to_phase else qsem.diff_entries(a, b, A)
            if not diffs:
                self.ctx.discharged(full, "normal-form", detail, t=time.time() - t0)
                return True
            polys = [d for _, _, d in diffs]
            const = [d for d in polys if d.is_const()]
            if const:
                m = self.ctx.feasible_model()
                if m is not None:
                    self.ctx.fail_numeric(full, m, detail + f" entry {diffs[0][:2]} differs by {const[0]}")
                else:
                    self.ctx.undecided(full, detail + " constant difference but path model unavailable")
                return False
            w = self._witness(polys)
            if w is not None:
                self.ctx.fail_numeric(full, w, detail + f" {len(diffs)} entries differ, e.g. {diffs[0][:2]}")
            else:
                # difference is a non-zero polynomial: it may still vanish on the whole feasible region of this path
                self.ctx.undecided(full, detail + f" non-zero normal form at {diffs[0][:2]} but no feasible witness found")
            return False
        Ma, Mb = qsem.to_numpy(a, n), qsem.to_numpy(b, n)
        if up_to_phase:
            idx = np.unravel_index(np.argmax(np.abs(Mb)), Mb.shape)
            if abs(Mb[idx]) > 1e-12 and abs(Ma[idx]) > 1e-12:
                Ma = Ma * (Mb[idx] / Ma[idx]) / abs(Mb[idx] / Ma[idx])
        err = float(np.max(np.abs(Ma - Mb)))
        return self.check(name, err <= tol, detail + f" max|diff|={err:.3e}")

    def _witness(self, polys):
        """values of the inputs satisfying the path condition at which one of the polynomials is non-zero"""
        import z3
        ctx = self.ctx
        # try random points that satisfy the path condition
        for attempt in range(6):
            w = qsem.find_witness(polys, ctx.inputs, seed=attempt, tries=60)
            if not w:
                continue
            vals = w[1]
            if ctx.point_feasible(vals):
                return vals
        # ask the solver for a point on the path and perturb
        m = ctx.feasible_model()
        if m:
            env = {}
            for name, p in ctx.inputs.items():
                if isinstance(p, Poly) and name in m and isinstance(m[name], (int, float)):
                    for var in p.vars():
                        env[var.id] = float(m[name])
            for d in polys:
                try:
                    if abs(d.eval(env)) > 1e-7:
                        return m
                except KeyError:
                    pass
        return None

    def shape(self, name, cond, detail=""):
        """a SHAPE precondition of a modular contract (how the code builds its result: which callee is called, from which sequence term, which list is handed on).
        If it does not hold the modular proof does not apply to this code: the contract is skipped with a note (ShapeChanged), it is not a violation"""
        if isinstance(cond, (Poly, SBool)):
            cond = bool(cond)
        if not cond:
            raise ShapeChanged(f"{name}" + (f" [{detail}]" if detail else ""))
        return True

    def done(self):
        self.reached_end = True


# ---------------------------------------------------------------------------------------------------------------------
# opaque sampler: scipy's rv_discrete(values=(xk, pk)).rvs replaced (inside the interpreter only) by a recorded, chosen draw

import contextlib


@contextlib.contextmanager
def opaque_sampler(draw):
    """inside the block, `distr.rvs(size=s)` of a scipy rv_discrete built from values=(xk, pk) returns draw(xk, pk, s, call_index): the code under contract must
    be right for whichever sample sequence over the support the sampler returns; the calls are recorded in the yielded list as (xk, pk, size)"""
    import numpy as np
    from scipy import stats
    from . import interp as _i
    calls = []

    def fake_rvs(interp, f, args, kw):
        size = kw.get("size", args[0] if args else None)
        d = getattr(f, "__self__", None)
        xk, pk = np.array(d.xk), np.array(d.pk)
        calls.append((xk, pk, size))
        out = draw(xk, pk, size, len(calls) - 1)
        return np.array(out, dtype=np.int64)
    cls = type(stats.rv_discrete(name="x", values=(np.array([0]), np.array([1.0]))))
    old = _i._MODELS.get(id(cls.rvs))
    _i._MODELS[id(cls.rvs)] = fake_rvs
    try:
        yield calls
    finally:
        if old is None:
            _i._MODELS.pop(id(cls.rvs), None)
        else:
            _i._MODELS[id(cls.rvs)] = old


# ---------------------------------------------------------------------------------------------------------------------
# snapshots for frame conditions

# declared (observable) state of the repository's core data classes: frame conditions compare THIS state. Attributes outside it (e.g. a memo a later version of the
# code may add) are not part of the observable value: whether such hidden state is used correctly is decided by the history contracts (results on a used object ==
# results on a fresh one), not by flagging every new attribute as "input changed"
DECLARED_FIELDS = {
    "Circuit": ("name", "_gates", "_qubits_simulated", "_qubit_indices", "_gate_counts", "_n_qubit_gate_counts", "_variational_gates", "_probabilities",
                "_cmeasure_control", "_applied_gates"),
    "Gate": ("name", "target", "control", "parameter", "is_variational"),
    "Histogram": ("counts",),
}


def _declared(d):
    """restrict an attribute dictionary to the declared fields when it is the __dict__ of a Circuit / Gate / Histogram"""
    if "_gates" in d and "_qubit_indices" in d:
        f = DECLARED_FIELDS["Circuit"]
    elif "target" in d and "control" in d and "is_variational" in d:
        f = DECLARED_FIELDS["Gate"]
    else:
        return d
    return {k: v for k, v in d.items() if k in f}


def snapshot(x, depth=6):
    """structural, hashable-ish snapshot of an object graph (for 'unchanged' frame conditions)"""
    if isinstance(x, Poly):
        return ("poly", repr(x))
    if isinstance(x, (int, float, complex, str, bool, type(None))):
        return x
    if isinstance(x, np.ndarray):
        if x.dtype == object:
            return ("nd", x.shape, tuple(snapshot(e, depth - 1) for e in x.flat))
        return ("nd", x.shape, x.tobytes())
    if isinstance(x, np.generic):
        return x.item()
    if depth <= 0:
        return ("...",)
    if isinstance(x, (list, tuple)):
        return (type(x).__name__,) + tuple(snapshot(e, depth - 1) for e in x)
    if isinstance(x, (set, frozenset)):
        return ("set",) + tuple(sorted((snapshot(e, depth - 1) for e in x), key=repr))
    if isinstance(x, dict):
        if x and all(isinstance(k, str) for k in x):
            x = _declared(x)
        items = tuple((snapshot(k, depth - 1), snapshot(v, depth - 1)) for k, v in x.items())
        d = getattr(x, "__dict__", None)
        if d:
            return ("dict", items, snapshot(dict(d), depth - 1))
        return ("dict", items)
    d = getattr(x, "__dict__", None)
    if d is not None:
        f = DECLARED_FIELDS.get(type(x).__name__)
        d = {k: v for k, v in d.items() if k in f} if f and all(k in d for k in f[:2]) else dict(d)
        return (type(x).__name__, snapshot(d, depth - 1))
    return ("obj", repr(x))


# ---------------------------------------------------------------------------------------------------------------------
# running one (contract, structure) task

_ABORT = [False]


def run_task(cid, st, tier="quick", timeout_ms=20000, both=False, seed=0):
    c = CONTRACTS[cid]
    t0 = time.time()
    obls = []
    notes = []
    touched = {}
    paths = 0
    ended = 0
    solver_calls = 0
    solver_time = 0.0
    import signal

    def _alarm(sig, frm):
        _ABORT[0] = True
        raise PathLimit("task time limit")
    _ABORT[0] = False
    limit = int(os.environ.get("TVERIF_TASK_LIMIT", "400" if tier == "quick" else "1800"))     # generous: verdicts must not flip when every core is busy
    signal.signal(signal.SIGALRM, _alarm)
    signal.alarm(limit)
    try:
        return _run_task(c, cid, st, tier, timeout_ms, both, seed, t0)
    finally:
        signal.alarm(0)


def _run_task(c, cid, st, tier, timeout_ms, both, seed, t0):
    obls = []
    notes = []
    touched = {}
    paths = 0
    ended = 0
    solver_calls = 0
    solver_time = 0.0
    if c.level != "B":
        work = [()]
        while work:
            prefix = work.pop()
            paths += 1
            if paths > c.max_paths:
                obls.append(Obligation(f"{cid}::path-limit", "undecided", "-", 0.0, f"more than {c.max_paths} paths").to_json())
                break
            interp = Interp()
            ctx = Ctx(prefix, timeout_ms=timeout_ms, both=both)
            h = Harness(ctx, interp, cid, st)
            with ctx:
                try:
                    with warnings.catch_warnings():
                        warnings.simplefilter("ignore")
                        c.fn(h, st)
                    ended += 1
                except Infeasible:
                    pass
                except Unsupported as e:
                    if c.level == "P" or isinstance(e, TargetMissing):
                        # (P contracts: any construct outside the subset is a code shape the modular proof was not written for)
                        # modular proof not applicable to the code's current shape: skipped (note), the S / B contracts of the same function decide
                        ctx.obligations.append(Obligation(f"{cid}::modular-proof-applies", "skipped", "-", 0.0, f"{e}", None, "".join("T" if d else "F" for d in ctx.trace), "shape"))
                        ended += 1
                    else:
                        ctx.undecided(f"{cid}::supported-subset", f"{type(e).__name__}: {e}", kind="subset")
                except (PathLimit, RecursionError) as e:
                    ctx.undecided(f"{cid}::supported-subset", f"{type(e).__name__}: {e}", kind="subset")
                except _INTERNAL:
                    raise
                except Exception as e:
                    if _ABORT[0] or "PathLimit" in str(e) or "task time limit" in str(e):
                        # the task's time limit fired inside a native call (e.g. a z3 ctypes call wraps the alarm into ctypes.ArgumentError): undecided, never a violation
                        ctx.undecided(f"{cid}::supported-subset", f"PathLimit: task time limit ({type(e).__name__})", kind="subset")
                        obls.extend(o.to_json() for o in ctx.obligations)
                        break
                    if not getattr(e, "_from_target", False):
                        raise HarnessError(f"{type(e).__name__}: {e}\n{traceback.format_exc()}")
                    # an exception the contract does not allow: failed implicit safety obligation
                    m = None
                    try:
                        m = ctx.feasible_model()
                    except Exception:
                        pass
                    ctx.obligations.append(Obligation(f"{cid}::no-unexpected-exception", "failed", "path", 0.0,
                                                      f"{type(e).__name__}: {e}", m if m is not None else {}, "".join("T" if d else "F" for d in ctx.trace), "safety"))
            if _ABORT[0]:
                # the time limit fired somewhere that swallowed the exception (a solver wrapper, a try / except of the harness): the rest of this path and the paths
                # still queued were NOT explored - that is an undecided task, never a silent pass
                if not any(o.status == "undecided" for o in ctx.obligations):
                    ctx.undecided(f"{cid}::supported-subset", f"PathLimit: task time limit (path abandoned, {len(work) + len(ctx.forks)} more queued)", kind="subset")
                obls.extend(o.to_json() for o in ctx.obligations)
                break
            for f in ctx.forks:
                work.append(tuple(f))
            obls.extend(o.to_json() for o in ctx.obligations)
            notes.extend(ctx.notes)
            touched.update(interp.touched)
            solver_calls += ctx.n_solver_calls
            solver_time += ctx.solver_time
        if ended == 0 and not any(o["status"] != "discharged" for o in obls):
            obls.append(Obligation(f"{cid}::vacuity", "undecided", "-", 0.0, "no path reached the end of the contract").to_json())
    # replay failed obligations natively
    for o in obls:
        if o["status"] == "failed" and o["model"] is not None:
            o["replay"] = replay_one(cid, st, o["model"], o["name"])
            o["replay"].pop("touched", None)
    # bounded native samples (stand-in layer)
    native = {"runs": 0, "failed": []}
    if c.native_samples is not None:
        import random
        import zlib
        rnd = random.Random(seed * 7919 + zlib.crc32(json.dumps(st, sort_keys=True, default=str).encode()) % 10007)   # stable across processes
        for vals in c.native_samples(st, rnd, tier):
            r = replay_one(cid, st, vals, None)
            native["runs"] += 1
            native["checked"] = native.get("checked", 0) + r.get("checked", 0)
            if "sample" not in native:
                native["sample"] = {"inputs": vals, "contract_evaluations": r.get("checked", 0)}
            touched.update({(t["file"], t["qualname"]): t for t in r.pop("touched", [])})
            if r["failed"]:
                native["failed"].append({"inputs": vals, "failed": r["failed"]})
            if r.get("error") and ((c.level == "P" and ("Unsupported" in r["error"] or "ShapeChanged" in r["error"])) or "TargetMissing" in r["error"]):
                obls.append(Obligation(f"{cid}::modular-proof-applies", "skipped", "-", 0.0, f"native twin: {r['error']}", None, "", "shape").to_json())
            elif r.get("error") and not r["error"].startswith("precondition not met"):
                # a native run that did not finish (time limit, unsupported construct) decided nothing: say so instead of counting it as a pass
                obls.append(Obligation(f"{cid}::native-run-completed", "undecided", "-", 0.0, f"{r['error']} on inputs {vals}", kind="subset").to_json())
            if _ABORT[0]:
                if not any(o["status"] == "undecided" for o in obls):
                    obls.append(Obligation(f"{cid}::native-run-completed", "undecided", "-", 0.0, "PathLimit: task time limit during the native runs", kind="subset").to_json())
                break
    return {"cid": cid, "st": st, "obligations": obls, "paths": paths, "ended": ended, "touched": list(touched.values()),
            "notes": sorted(set(notes)), "solver_calls": solver_calls, "solver_time": solver_time, "native": native,
            "wall": time.time() - t0}


def replay_one(cid, st, values, obligation_name):
    """run the contract natively on concrete input values; report which obligations fail"""
    c = CONTRACTS[cid]
    ctx = Ctx(concrete=dict(values))
    caller = NativeCaller()
    h = Harness(ctx, caller, cid, st)
    failed = []
    err = None
    with ctx:
        try:
            with warnings.catch_warnings():
                warnings.simplefilter("ignore")
                c.fn(h, st)
        except Infeasible:
            err = "precondition not met by these values"
        except _INTERNAL as e:
            err = f"{type(e).__name__}: {e}"
        except Exception as e:
            if _ABORT[0] or "PathLimit" in str(e) or "task time limit" in str(e):
                err = f"PathLimit: task time limit ({type(e).__name__})"
            elif not getattr(e, "_from_target", False):
                raise HarnessError(f"{type(e).__name__}: {e}\n{traceback.format_exc()}")
            else:
                failed.append({"name": f"{cid}::no-unexpected-exception", "detail": f"{type(e).__name__}: {e}"})
    for o in ctx.obligations:
        if o.status == "failed":
            failed.append({"name": o.name, "detail": o.detail})
    confirmed = None
    if obligation_name is not None:
        confirmed = any(f["name"] == obligation_name for f in failed)
    evaluated = obligation_name is not None and any(o.name == obligation_name for o in ctx.obligations)
    return {"values": values, "failed": failed, "confirmed": confirmed, "error": err, "touched": list(caller.touched.values()),
            "checked": len(ctx.obligations), "evaluated": evaluated}


# ---------------------------------------------------------------------------------------------------------------------
# ghost containers: an OPAQUE old value of unknown size plus the updates recorded during the call (unbounded contracts)

class GhostUnsupported(ShapeChanged):
    """an operation on an opaque container / value that the modular contract did not anticipate: the code's shape differs from the one the contract was written for"""


class GhostList:
    """a list whose old content (any length) is opaque; only the operations recorded here are allowed"""

    def __init__(self, name):
        self._name, self.appended, self.cleared = name, [], False

    def append(self, x):
        self.appended.append(x)

    def clear(self):
        """the opaque old content is dropped: from now on the list is exactly what is appended afterwards"""
        self.cleared = True
        self.appended = []

    def extend(self, xs):
        self.appended.extend(list(xs))

    def __deepcopy__(self, memo):
        import copy as _c
        return Opaque(("deepcopy of the opaque list", self._name), of=self, appended=_c.deepcopy(self.appended, memo))

    def __iadd__(self, xs):
        if not isinstance(xs, list):
            raise GhostUnsupported(f"+= of a non-list on the opaque list {self._name}")
        self.appended.extend(xs)
        return self

    def __getattr__(self, a):
        if a.startswith("__"):
            raise AttributeError(a)
        raise GhostUnsupported(f"operation .{a} on the opaque list {self._name}")

    def __iter__(self):
        raise GhostUnsupported(f"iteration over the opaque list {self._name}")

    def __len__(self):
        raise GhostUnsupported(f"len() of the opaque list {self._name}")


class GhostSet:
    def __init__(self, name):
        self._name, self.added = name, []

    def add(self, x):
        self.added.append(x)

    def update(self, xs):
        self.added.extend(list(xs))

    def __getattr__(self, a):
        raise GhostUnsupported(f"operation .{a} on the opaque set {self._name}")

    def __iter__(self):
        raise GhostUnsupported(f"iteration over the opaque set {self._name}")


class GhostDict:
    """a dict whose old content is opaque: get(k, 0) of the old value is the symbolic integer old[k] >= 0 (0 when absent)"""

    def __init__(self, name, ctx):
        self._name, self._ctx, self.written, self._old = name, ctx, {}, {}

    def old(self, k):
        import z3
        if k not in self._old:
            if self._ctx.symbolic:
                a = z3.Int(f"{self._name}[{k!r}]")
                self._ctx.side.append(a >= 0)
                self._old[k] = Poly.atom(a, name=f"{self._name}[{k!r}]", isint=True)
                self._ctx.inputs[f"{self._name}[{k!r}]"] = self._old[k]
            else:
                self._old[k] = int(self._ctx.concrete.get(f"{self._name}[{k!r}]", 0))
        return self._old[k]

    def get(self, k, default=None):
        if k in self.written:
            return self.written[k]
        if default != 0:
            raise GhostUnsupported("get() with a default other than 0 on an opaque dict")
        return self.old(k)

    def __setitem__(self, k, v):
        self.written[k] = v

    def __getattr__(self, a):
        raise GhostUnsupported(f"operation .{a} on the opaque dict {self._name}")

    def __iter__(self):
        raise GhostUnsupported(f"iteration over the opaque dict {self._name}")


class Opaque:
    """an element / value whose content the code under contract must not look at (modular contracts: generic element of a ghost sequence, result of a
    stubbed callee); any access other than identity is outside the contract's frame and reported as Unsupported"""

    def __init__(self, label, **info):
        object.__setattr__(self, "_label", label)
        object.__setattr__(self, "_info", info)

    def __getattr__(self, a):
        if a.startswith("__"):
            raise AttributeError(a)
        raise GhostUnsupported(f"read of .{a} on the opaque value {self._label}")

    def __setattr__(self, a, v):
        raise GhostUnsupported(f"write of .{a} on the opaque value {self._label}")

    def __deepcopy__(self, memo):
        return Opaque(("copy", self._label), of=self)

    def __repr__(self):
        return f"<opaque {self._label}>"


class StandIn:
    """base class of the minimal stand-in objects of modular contracts (an 'operator' that only has .terms, ...): any other attribute the code asks for means the code's shape
    differs from the one the contract was written for (ShapeChanged: the modular proof is skipped), it is not an exception of the code under contract"""

    def __getattr__(self, a):
        if a.startswith("__"):
            raise AttributeError(a)
        raise GhostUnsupported(f"attribute .{a} of the contract's stand-in object {type(self).__name__}")


def stub(h, relfile, qualname, fn, log=None):
    """replace the repository function relfile::qualname by its CONTRACT for this run (modular verification: the caller is checked against the callee's
    contract, not its body).  fn(args, kwargs) -> result; calls are appended to `log` as (args, kwargs)"""
    if not h.symbolic:
        raise HarnessError("stubs exist in symbolic runs only")
    h.I._touch_stub = getattr(h.I, "_touch_stub", [])
    h.I._touch_stub.append(f"{relfile}::{qualname}")

    def run(interp, args, kwargs):
        if log is not None:
            log.append((list(args), dict(kwargs)))
        return fn(list(args), dict(kwargs))
    h.I.stubs[(relfile, qualname)] = run
