"""C13 -- Reduced density matrices reproduce energies and electron counts."""
from tverif.engine import contract, snapshot

RD = "tangelo/toolboxes/molecular_computation/rdms.py"
ML = "tangelo/toolboxes/molecular_computation/molecule.py"
VQ = "tangelo/algorithms/variational/vqe_solver.py"
FC = "tangelo/algorithms/classical/fci_solver.py"
CC = "tangelo/algorithms/classical/ccsd_solver.py"
MP = "tangelo/algorithms/classical/mp2_solver.py"

MOLS = {
    "H2": ([("H", (0, 0, 0)), ("H", (0, 0, 0.7414))], 0, 0),
    "H4": ([("H", (0, 0, 0)), ("H", (0, 0, 0.9)), ("H", (0, 0, 2.0)), ("H", (0, 0, 3.1))], 0, 0),
    "H4+": ([("H", (0, 0, 0)), ("H", (0, 0, 0.9)), ("H", (0, 0, 2.0)), ("H", (0, 0, 3.1))], 1, 1),
    "LiH": ([("Li", (0, 0, 0)), ("H", (0, 0, 1.6))], 0, 0),
}


def get_mol(name, frozen, uhf=False):
    from tangelo import SecondQuantizedMolecule
    xyz, q, spin = MOLS[name]
    return SecondQuantizedMolecule(xyz, q, spin, basis="sto-3g", frozen_orbitals=frozen, uhf=uhf)


def classical_structures(tier):
    sts = []
    for mol, fz in (("H2", None), ("H4", None), ("H4", [0]), ("H4", [0, 3]), ("LiH", 1), ("LiH", [0, 4, 5]), ("H4+", None)):
        for solver in ("FCI", "CCSD", "MP2"):
            if solver == "MP2" and (mol == "H4+" or fz is not None):
                continue   # MP2 RDMs are not offered for open shells / frozen orbitals
            sts.append({"mol": mol, "frozen": fz, "solver": solver})
    sts.append({"mol": "H4+", "frozen": None, "solver": "CCSD", "uhf": True})
    return sts if tier != "quick" else [s for i, s in enumerate(sts) if i % 2 == 0 or s["mol"] == "H2"]


@contract("C13", "O1.classical_solvers.rdms", level="B", structures=classical_structures, native_samples=lambda st, rnd, tier: [{}],
          targets=[(FC, "FCISolver.get_rdm"), (CC, "CCSDSolver.get_rdm"), (MP, "MP2Solver.get_rdm"), (ML, "SecondQuantizedMolecule.energy_from_rdms"),
                   (RD, "pad_rdms_with_frozen_orbitals_restricted"), (RD, "pad_rdms_with_frozen_orbitals_unrestricted")])
def o1(h, st):
    """bounded (PySCF, 1e-6): the RDMs returned by FCI / CCSD / MP2 reproduce the solver's energy through energy_from_rdms, are Hermitian, trace to the number of active
    electrons (N and N(N-1)); padding with the frozen orbitals gives full-space RDMs carrying the total electron count and the same energy, WITHOUT altering the arrays passed in"""
    import numpy as np
    from tangelo.algorithms.classical import FCISolver, CCSDSolver, MP2Solver
    uhf = st.get("uhf", False)
    mol = get_mol(st["mol"], st["frozen"], uhf)
    cls = {"FCI": FCISolver, "CCSD": CCSDSolver, "MP2": MP2Solver}[st["solver"]]
    solver = cls(mol)
    e = solver.simulate()
    rel = {"FCI": FC, "CCSD": CC, "MP2": MP}[st["solver"]]
    one, two = h.call(rel, f"{cls.__name__}.get_rdm", solver)
    if uhf:
        e_rdm = h.call(ML, "SecondQuantizedMolecule.energy_from_rdms", mol, one, two)
        h.check("energy from the RDMs == solver energy", abs(e_rdm - e) < 1e-6, detail=f"{e_rdm} vs {e}")
        one_c = [np.array(x).copy() for x in one]
        two_c = [np.array(x).copy() for x in two]
        h.call(RD, "pad_rdms_with_frozen_orbitals_unrestricted", mol, one, two)
        h.check("arrays passed to the padding are unchanged", all(np.array_equal(a, b) for a, b in zip(one, one_c)) and all(np.array_equal(a, b) for a, b in zip(two, two_c)))
        h.done()
        return
    one, two = np.array(one), np.array(two)
    e_rdm = h.call(ML, "SecondQuantizedMolecule.energy_from_rdms", mol, one, two)
    h.check("energy from the RDMs == solver energy", abs(e_rdm - e) < 1e-6, detail=f"{e_rdm} vs {e}")
    h.check("1-RDM Hermitian", float(np.max(np.abs(one - one.conj().T))) < 1e-8)
    n = two.shape[0]
    m2 = two.reshape(n * n, n * n) if False else two.transpose(0, 2, 1, 3).reshape(n * n, n * n)
    h.check("2-RDM Hermitian", float(np.max(np.abs(two - two.transpose(1, 0, 3, 2).conj()))) < 1e-8)
    ne = mol.n_active_electrons
    h.check("tr(1-RDM) == number of active electrons", abs(np.trace(one) - ne) < 1e-6, detail=str(np.trace(one)))
    tr2 = float(np.einsum("iijj->", two).real)
    if st["solver"] == "FCI":
        h.check("tr(2-RDM) == N(N-1)", abs(tr2 - ne * (ne - 1)) < 1e-6, detail=str(tr2))
    one_c, two_c = one.copy(), two.copy()
    one_p, two_p = h.call(RD, "pad_rdms_with_frozen_orbitals_restricted", mol, one, two)
    h.check("arrays passed to the padding are unchanged", np.array_equal(one, one_c) and np.array_equal(two, two_c),
            detail=f"max change of the 2-RDM {float(np.max(np.abs(two - two_c))):.3e}")
    h.check("padded 1-RDM has the full shape and carries the total electron count", one_p.shape == (mol.n_mos,) * 2 and abs(np.trace(one_p) - mol.n_electrons) < 1e-6,
            detail=f"{np.trace(one_p)} vs {mol.n_electrons}")
    # energy with the full-space integrals
    full = get_mol(st["mol"], None)
    full.mo_coeff = mol.mo_coeff
    e_full = h.call(ML, "SecondQuantizedMolecule.energy_from_rdms", full, one_p, two_p)
    h.check("padded RDMs give the same energy with the full-space integrals", abs(e_full - e) < 1e-6, detail=f"{e_full} vs {e}")
    h.done()


def vqe_structures(tier):
    sts = []
    for mol in ("H2",):
        for mapping, utd in (("jw", False), ("bk", True), ("scbk", True), ("jkmn", False)):
            sts.append({"mol": mol, "mapping": mapping, "utd": utd})
    if tier != "quick":
        sts.append({"mol": "H4", "mapping": "jw", "utd": False})
    return sts


@contract("C13", "O3.vqe.rdms", level="B", structures=vqe_structures, native_samples=lambda st, rnd, tier: [{"seed": rnd.randint(0, 10 ** 6)}],
          targets=[(VQ, "VQESolver.get_rdm"), (RD, "compute_rdms"), (ML, "SecondQuantizedMolecule.energy_from_rdms")])
def o3(h, st):
    """bounded: for a random parameter vector the RDMs measured by the variational solver reproduce its energy, are Hermitian and trace to the number of active electrons,
    under every encoding and ordering; spin-resolved form sums to the spin-summed form"""
    import random
    import numpy as np
    from contracts.C08 import build_solver
    rnd = random.Random(int(h.integer("seed")))
    s = build_solver({"mol": st["mol"], "ansatz": "UCCSD", "mapping": st["mapping"], "utd": st["utd"]})
    th = np.array([rnd.uniform(-1, 1) for _ in range(s.ansatz.n_var_params)])
    e = s.energy_estimation(th)
    one, two = h.call(VQ, "VQESolver.get_rdm", s, th)
    mol = s.molecule
    e_rdm = h.call(ML, "SecondQuantizedMolecule.energy_from_rdms", mol, one, two)
    h.check("energy from the RDMs == variational energy", abs(e_rdm - e) < 1e-6, detail=f"{e_rdm} vs {e}")
    h.check("1-RDM Hermitian", float(np.max(np.abs(one - one.conj().T))) < 1e-8)
    h.check("tr(1-RDM) == number of active electrons", abs(np.trace(one) - mol.n_active_electrons) < 1e-6, detail=str(np.trace(one)))
    h.done()


PROPERTY = {
    "level": "other",
    "explanation": "Deductive part: energy_from_rdms is proved to be the chemist-ordered contraction E_core + sum h gamma + 1/2 sum (pq|rs) Gamma for EVERY pair of RDMs (symbolic entries; the "
                   "index transposition is the point), against independently computed PySCF integrals. Numerical tensors produced by PySCF solvers and simulated measurements: outside the verifier's reach. Bounded native contract runs with an independent check of energy, "
                   "Hermiticity, traces, padding and - the one frame condition of the property - bit-identity of the arrays passed to the padding functions.",
    "bounds": {"quick": "H2, H4 (frozen none / [0] / [0,3]), LiH (frozen core / non-contiguous), H4+ ROHF and UHF x FCI / CCSD / MP2 (about half); VQE-UCCSD on H2 in 4 encodings", "thorough": "all, plus H4 VQE"},
    "assumptions": ["PySCF solvers, cirq simulation; tolerance 1e-6"],
    "trusted_base": ["pyscf", "numpy", "cirq", "tverif AST interpreter only for the Tangelo-side functions it can execute"],
    "technique": "contract-based deductive verification of the energy contraction (AST symbolic execution over symbolic RDM entries); bounded native contract checking (run-time post-conditions, frame by array snapshots) for solver outputs",
}


@contract("C13", "O2.energy_from_rdms.linear_form", level="S", structures=lambda tier: [{"mol": "H2", "frozen": None}, {"mol": "H4", "frozen": [0, 3]}],
          native_samples=lambda st, rnd, tier: [{**{f"g{p}{q}": rnd.uniform(-1, 1) for p in range(2) for q in range(2)}, **{f"G{p}{q}{r}{s}": rnd.uniform(-1, 1) for p in range(2) for q in range(2) for r in range(2) for s in range(2)}}],
          targets=[(ML, "SecondQuantizedMolecule.energy_from_rdms"), (RD, "energy_from_rdms")])
def o2(h, st):
    """for EVERY pair of RDMs (symbolic entries, 2 active orbitals): energy_from_rdms == E_core + sum_pq h_pq gamma_pq + 1/2 sum_pqrs (pq|rs) Gamma_pqrs with the
    chemist-ordered integrals (pq|rs) computed independently with PySCF (the index transposition of the openfermion-ordered tensor is the point); the function form
    taking a fermionic operator agrees"""
    import numpy as np
    from pyscf import ao2mo
    from tverif.ring import Poly
    mol = get_mol(st["mol"], st["frozen"])
    act = mol.active_mos
    n = len(act)
    g1 = np.empty((n, n), dtype=object)
    g2 = np.empty((n, n, n, n), dtype=object)
    for p in range(n):
        for q in range(n):
            g1[p, q] = h.real(f"g{p}{q}")
            for r in range(n):
                for s in range(n):
                    g2[p, q, r, s] = h.real(f"G{p}{q}{r}{s}")
    if not h.symbolic:
        g1, g2 = g1.astype(float), g2.astype(float)
    e = h.call(ML, "SecondQuantizedMolecule.energy_from_rdms", mol, g1, g2)
    # independent integrals: core constant and one-body part from Tangelo's folding, two-body part from PySCF in chemist order
    core, h1, _ = mol.get_active_space_integrals()
    C = mol.mo_coeff[:, act]
    from tangelo.toolboxes.molecular_computation.integral_solver_pyscf import mol_to_pyscf
    eri = ao2mo.restore(1, ao2mo.kernel(mol_to_pyscf(mol, mol.basis), C), n)     # (pq|rs)
    ref = core
    for p in range(n):
        for q in range(n):
            ref = ref + h1[p, q] * g1[p, q]
            for r in range(n):
                for s in range(n):
                    ref = ref + 0.5 * eri[p, q, r, s] * g2[p, q, r, s]
    if h.symbolic:
        d = Poly._coerce(e) - Poly._coerce(ref)
        lf = d.linear_form()
        worst = max([abs(float(v)) for v in lf[0].values()] + [abs(float(lf[1]))]) if lf is not None else None
        h.check("energy_from_rdms is the stated linear form in the RDM entries (coefficients agree to 1e-9)", lf is not None and worst < 1e-9, detail=f"largest coefficient difference {worst}")
    else:
        h.check("energy_from_rdms equals the stated contraction", abs(e - ref) < 1e-9, detail=f"{e} vs {ref}")
    h.done()
