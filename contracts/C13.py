"""C13 -- Reduced density matrices reproduce energies and electron counts."""
import math

from tverif.engine import contract, snapshot

RD = "tangelo/toolboxes/molecular_computation/rdms.py"
ML = "tangelo/toolboxes/molecular_computation/molecule.py"
VQ = "tangelo/algorithms/variational/vqe_solver.py"
FC = "tangelo/algorithms/classical/fci_solver.py"
CC = "tangelo/algorithms/classical/ccsd_solver.py"
MP = "tangelo/algorithms/classical/mp2_solver.py"

MOLS = {
    "H2": ([("H", (0, 0, 0)), ("H", (0, 0, 0.7414))], 0, 0),
    "H4": ([("H", (0, 0, 0)), ("H", (0, 0, 0.9)), ("H", (0, 0, 2.0)), ("H", (0, 0, 3.1))], 0, 0),
    "H4+": ([("H", (0, 0, 0)), ("H", (0, 0, 0.9)), ("H", (0, 0, 2.0)), ("H", (0, 0, 3.1))], 1, 1),
    "LiH": ([("Li", (0, 0, 0)), ("H", (0, 0, 1.6))], 0, 0),
    "H4t": ([("H", (0, 0, 0)), ("H", (0, 0, 0.9)), ("H", (0, 0, 2.0)), ("H", (0, 0, 3.1))], 0, 2),
}


def get_mol(name, frozen, uhf=False):
    from tangelo import SecondQuantizedMolecule
    xyz, q, spin = MOLS[name]
    return SecondQuantizedMolecule(xyz, q, spin, basis="sto-3g", frozen_orbitals=frozen, uhf=uhf)


def classical_structures(tier):
    sts = []
    for mol, fz in (("H2", None), ("H4", None), ("H4", [0]), ("H4", [0, 3]), ("LiH", 1), ("LiH", [0, 4, 5]), ("H4+", None)):
        for solver in ("FCI", "CCSD", "MP2"):
            if solver == "MP2" and (mol == "H4+" or fz is not None):
                continue   # MP2 RDMs are not offered for open shells / frozen orbitals
            sts.append({"mol": mol, "frozen": fz, "solver": solver})
    sts.append({"mol": "H4+", "frozen": None, "solver": "CCSD", "uhf": True})
    sts.append({"mol": "H4t", "frozen": None, "solver": "CCSD"})          # ROHF triplet
    sts.append({"mol": "H4t", "frozen": None, "solver": "FCI"})
    return sts        # every tier: the whole list runs in seconds (an earlier every-second sampling for the quick tier dropped ROHF-CCSD, see seed C13-5)


@contract("C13", "O1.classical_solvers.rdms", level="B", structures=classical_structures, native_samples=lambda st, rnd, tier: [{}],
          targets=[(FC, "FCISolver.get_rdm"), (CC, "CCSDSolver.get_rdm"), (MP, "MP2Solver.get_rdm"), (ML, "SecondQuantizedMolecule.energy_from_rdms"),
                   (RD, "pad_rdms_with_frozen_orbitals_restricted"), (RD, "pad_rdms_with_frozen_orbitals_unrestricted")])
def o1(h, st):
    """bounded (PySCF, 1e-6): the RDMs returned by FCI / CCSD / MP2 reproduce the solver's energy through energy_from_rdms, are Hermitian, trace to the number of active
    electrons (N and N(N-1)); padding with the frozen orbitals gives full-space RDMs carrying the total electron count and the same energy, WITHOUT altering the arrays passed in"""
    import numpy as np
    from tangelo.algorithms.classical import FCISolver, CCSDSolver, MP2Solver
    uhf = st.get("uhf", False)
    mol = get_mol(st["mol"], st["frozen"], uhf)
    cls = {"FCI": FCISolver, "CCSD": CCSDSolver, "MP2": MP2Solver}[st["solver"]]
    solver = cls(mol)
    e = solver.simulate()
    rel = {"FCI": FC, "CCSD": CC, "MP2": MP}[st["solver"]]
    one, two = h.call(rel, f"{cls.__name__}.get_rdm", solver)
    if uhf:
        e_rdm = h.call(ML, "SecondQuantizedMolecule.energy_from_rdms", mol, one, two)
        h.check("energy from the RDMs == solver energy", abs(e_rdm - e) < 1e-6, detail=f"{e_rdm} vs {e}")
        one_c = [np.array(x).copy() for x in one]
        two_c = [np.array(x).copy() for x in two]
        h.call(RD, "pad_rdms_with_frozen_orbitals_unrestricted", mol, one, two)
        h.check("arrays passed to the padding are unchanged", all(np.array_equal(a, b) for a, b in zip(one, one_c)) and all(np.array_equal(a, b) for a, b in zip(two, two_c)))
        h.done()
        return
    one, two = np.array(one), np.array(two)
    e_rdm = h.call(ML, "SecondQuantizedMolecule.energy_from_rdms", mol, one, two)
    h.check("energy from the RDMs == solver energy", abs(e_rdm - e) < 1e-6, detail=f"{e_rdm} vs {e}")
    h.check("1-RDM Hermitian", float(np.max(np.abs(one - one.conj().T))) < 1e-8)
    n = two.shape[0]
    m2 = two.reshape(n * n, n * n) if False else two.transpose(0, 2, 1, 3).reshape(n * n, n * n)
    h.check("2-RDM Hermitian", float(np.max(np.abs(two - two.transpose(1, 0, 3, 2).conj()))) < 1e-8)
    ne = mol.n_active_electrons
    h.check("tr(1-RDM) == number of active electrons", abs(np.trace(one) - ne) < 1e-6, detail=str(np.trace(one)))
    tr2 = float(np.einsum("iijj->", two).real)
    if st["solver"] == "FCI":
        h.check("tr(2-RDM) == N(N-1)", abs(tr2 - ne * (ne - 1)) < 1e-6, detail=str(tr2))
    one_c, two_c = one.copy(), two.copy()
    one_p, two_p = h.call(RD, "pad_rdms_with_frozen_orbitals_restricted", mol, one, two)
    h.check("arrays passed to the padding are unchanged", np.array_equal(one, one_c) and np.array_equal(two, two_c),
            detail=f"max change of the 2-RDM {float(np.max(np.abs(two - two_c))):.3e}")
    h.check("padded 1-RDM has the full shape and carries the total electron count", one_p.shape == (mol.n_mos,) * 2 and abs(np.trace(one_p) - mol.n_electrons) < 1e-6,
            detail=f"{np.trace(one_p)} vs {mol.n_electrons}")
    # energy with the full-space integrals
    full = get_mol(st["mol"], None)
    full.mo_coeff = mol.mo_coeff
    e_full = h.call(ML, "SecondQuantizedMolecule.energy_from_rdms", full, one_p, two_p)
    h.check("padded RDMs give the same energy with the full-space integrals", abs(e_full - e) < 1e-6, detail=f"{e_full} vs {e}")
    h.done()


def vqe_structures(tier):
    sts = []
    for mol in ("H2",):
        for mapping, utd in (("jw", False), ("bk", True), ("scbk", True), ("jkmn", False)):
            sts.append({"mol": mol, "mapping": mapping, "utd": utd})
    # open shell: the (N, spin) sector of the symmetry-conserving encoding differs from the closed-shell default
    sts.append({"mol": "H4t", "mapping": "scbk", "utd": True})
    if tier != "quick":
        sts.append({"mol": "H4", "mapping": "jw", "utd": False})
        sts.append({"mol": "H4+", "mapping": "scbk", "utd": True})
        sts.append({"mol": "H4t", "mapping": "jw", "utd": False})
    return sts


@contract("C13", "O3.vqe.rdms", level="B", structures=vqe_structures, native_samples=lambda st, rnd, tier: [{"seed": rnd.randint(0, 10 ** 6)}],
          targets=[(VQ, "VQESolver.get_rdm"), (RD, "compute_rdms"), (ML, "SecondQuantizedMolecule.energy_from_rdms")])
def o3(h, st):
    """bounded: for a random parameter vector the RDMs measured by the variational solver reproduce its energy, are Hermitian and trace to the number of active electrons,
    under every encoding and ordering; spin-resolved form sums to the spin-summed form"""
    import random
    import numpy as np
    from contracts.C08 import build_solver
    rnd = random.Random(int(h.integer("seed")))
    s = build_solver({"mol": st["mol"], "ansatz": "UCCSD", "mapping": st["mapping"], "utd": st["utd"]})
    th = np.array([rnd.uniform(-1, 1) for _ in range(s.ansatz.n_var_params)])
    e = s.energy_estimation(th)
    one, two = h.call(VQ, "VQESolver.get_rdm", s, th)
    mol = s.molecule
    e_rdm = h.call(ML, "SecondQuantizedMolecule.energy_from_rdms", mol, one, two)
    h.check("energy from the RDMs == variational energy", abs(e_rdm - e) < 1e-6, detail=f"{e_rdm} vs {e}")
    h.check("1-RDM Hermitian", float(np.max(np.abs(one - one.conj().T))) < 1e-8)
    # "whenever the state conserves it": a Trotterised UCCSD whose generators are interleaved (sorted Pauli words) need not be a number eigenstate
    from tangelo.toolboxes.ansatz_generator.fermionic_operators import number_operator
    from tangelo.toolboxes.qubit_mappings.mapping_transform import fermion_to_qubit_mapping
    nq = fermion_to_qubit_mapping(number_operator(mol.n_active_mos, up_then_down=False), s.qubit_mapping, mol.n_active_sos, mol.n_active_electrons, s.up_then_down, mol.spin)
    n1 = s.backend.get_expectation_value(nq, s.ansatz.circuit)
    n2 = s.backend.get_expectation_value(nq * nq, s.ansatz.circuit)
    if abs(n2 - n1 * n1) < 1e-10 and abs(n1 - mol.n_active_electrons) < 1e-8:
        h.check("tr(1-RDM) == number of active electrons", abs(np.trace(one) - mol.n_active_electrons) < 1e-6, detail=str(np.trace(one)))
    else:
        h.check("tr(1-RDM) == <N> of the (not number-conserving) state", abs(np.trace(one) - n1) < 1e-6, detail=f"{np.trace(one)} vs {n1}")
    h.done()


@contract("C13", "O3b.vqe.rdms.noise_model_route", level="B", structures=lambda tier: [{"mapping": m, "utd": u} for m, u in (("jw", False), ("bk", True))],
          native_samples=lambda st, rnd, tier: [{"seed": 1 + rnd.randint(0, 3)}], targets=[(VQ, "VQESolver.get_rdm")])
def o3b(h, st):
    """bounded (sampled, fixed seed): with a noise model set (all rates zero, so that the reference is known) get_rdm takes its 'simulate from scratch' route - measurement-basis
    gates appended to and removed from the preparation circuit for every term -: it returns, the RDMs trace to the number of electrons, reproduce the exact energy within the
    sampling error (20000 shots; tolerance 0.03 Ha, about six standard deviations) and the ansatz circuit is left as it was"""
    import numpy as np
    from tangelo.algorithms.variational import VQESolver, BuiltInAnsatze
    from tangelo.linq.noisy_simulation import NoiseModel
    from contracts.C07 import molecule
    from contracts.C08 import build_solver
    np.random.seed(int(h.integer("seed")))
    mol = molecule("H2")
    nm = NoiseModel()
    nm.add_quantum_error("CNOT", "depol", 0.0)
    s = VQESolver({"molecule": mol, "ansatz": BuiltInAnsatze.UCCSD, "qubit_mapping": st["mapping"], "up_then_down": st["utd"],
                   "backend_options": {"target": "cirq", "n_shots": 20000, "noise_model": nm}})
    s.build()
    th = np.array([0.05, -0.3])
    s.ansatz.update_var_params(th)
    gates_before = snapshot([g.__dict__ for g in s.ansatz.circuit._gates])
    one, two = h.call(VQ, "VQESolver.get_rdm", s, th)
    exact = build_solver({"mol": "H2", "ansatz": "UCCSD", "mapping": st["mapping"], "utd": st["utd"]}).energy_estimation(th)
    e_rdm = mol.energy_from_rdms(one, two)
    h.check("energy from the sampled RDMs within the sampling error of the exact energy", abs(e_rdm - exact) < 0.03, detail=f"{e_rdm} vs {exact}")
    h.check("tr(1-RDM) == number of active electrons (within the sampling error)", abs(np.trace(one) - 2) < 0.05, detail=str(np.trace(one)))
    s.ansatz.update_var_params(th)
    h.check("ansatz circuit left as it was (basis-change gates removed again)", snapshot([g.__dict__ for g in s.ansatz.circuit._gates]) == gates_before)
    # resampling route (bootstrapping of error bars): the frequencies saved by the call above are resampled with the backend's shot number
    saved = snapshot(s.rdm_freq_dict)
    one_r, two_r = h.call(VQ, "VQESolver.get_rdm", s, th, True)
    e_res = mol.energy_from_rdms(one_r, two_r)
    h.check("resampled RDMs: energy within the sampling error of the exact energy", abs(e_res - exact) < 0.04, detail=f"{e_res} vs {exact}")
    h.check("resampled RDMs: tr(1-RDM) == number of active electrons (within the sampling error)", abs(np.trace(one_r) - 2) < 0.06, detail=str(np.trace(one_r)))
    h.check("resampling leaves the saved frequencies unchanged", snapshot(s.rdm_freq_dict) == saved)
    h.done()


# O5 variational RDMs with OPAQUE expectation values: index placement as a linear identity ------------------------------------------------

def _pname(term):
    return "E_" + ("_".join(f"{p}{i}" for i, p in term) if term else "I")


@contract("C13", "O5.vqe.get_rdm.placement", level="S", structures=lambda tier: vqe_structures(tier)[:5] + [dict(x, sum_spin=False) for x in vqe_structures(tier)[:2]],
          targets=[(VQ, "VQESolver.get_rdm"), (ML, "SecondQuantizedMolecule.energy_from_rdms")], max_paths=4)
def o5(h, st):
    """the compute backend OPAQUE - the expectation value of every Pauli word P measured on the ansatz state is an arbitrary symbol E_P -: the RDMs assembled by get_rdm,
    contracted by energy_from_rdms, give  sum_P c_P E_P  with c_P the coefficients of the solver's qubit Hamiltonian (identity of linear forms in the E_P, coefficients
    to 1e-9): every fermionic term is measured through its own qubit image and placed at the right tensor position, for every state; each word is measured in the basis
    prescribed by measurement_basis_gates on the prepared state; the spin-resolved form sums to the spin-summed one"""
    import numpy as np
    from contracts.C08 import build_solver
    from tangelo.linq.helpers.circuits.measurement_basis import measurement_basis_gates
    from tverif.ring import Poly
    s = build_solver({"mol": st["mol"], "ansatz": "UCCSD", "mapping": st["mapping"], "utd": st["utd"]})
    mol = s.molecule
    syms = {}
    rec = {"sims": [], "bad": []}

    class Opaque:
        n_shots = None

        def simulate(self, circuit, return_statevector=False, initial_statevector=None, **kw):
            if return_statevector:
                rec["prep"] = circuit
                return None, ("prepared-state",)
            rec["sims"].append((circuit, initial_statevector))
            return {"basis": [(g.name, tuple(g.target)) for g in circuit._gates], "init": initial_statevector}, None

        def get_expectation_value_from_frequencies_oneterm(self, term, freqs):
            exp_basis = [(g.name, tuple(g.target)) for g in measurement_basis_gates(term)]
            if freqs["basis"] != exp_basis or freqs["init"] != ("prepared-state",):
                rec["bad"].append(term)
            nm = _pname(term)
            if nm not in syms:
                syms[nm] = h.real(nm) if h.symbolic else float(h.ctx.concrete.get(nm, 0.3))
            return syms[nm]
    s.backend = Opaque()
    s.backend_options = {"noise_model": None}
    th = np.array([0.11 * math.cos(1.7 * k + 0.3) + 0.02 for k in range(s.ansatz.n_var_params)])
    sum_spin = st.get("sum_spin", True)
    one, two = h.call(VQ, "VQESolver.get_rdm", s, th, False, sum_spin)
    h.check("every Pauli word measured in its own basis on the prepared state", not rec["bad"], detail=str(rec["bad"][:3]))
    h.check("state prepared once from the ansatz circuit", rec.get("prep") is not None and [g.name for g in rec["prep"]._gates] == [g.name for g in s.ansatz.circuit._gates])
    if not sum_spin:
        # spin-resolved tensors: summing the spin blocks gives the spin-summed form, which is then contracted
        n = mol.n_active_mos
        o1 = np.zeros((n, n), dtype=object)
        o2 = np.zeros((n,) * 4, dtype=object)
        ns = 2 * n
        for i in range(ns):
            for j in range(ns):
                o1[i // 2, j // 2] = o1[i // 2, j // 2] + one[i, j]
                for k in range(ns):
                    for l in range(ns):
                        o2[i // 2, j // 2, k // 2, l // 2] = o2[i // 2, j // 2, k // 2, l // 2] + two[i, j, k, l]
        one, two = o1, o2
    e = h.call(ML, "SecondQuantizedMolecule.energy_from_rdms", mol, one, two)
    ref = 0
    for term, c in s.qubit_hamiltonian.terms.items():
        if not term:
            ref = ref + complex(c).real
            continue
        nm = _pname(term)
        if nm not in syms:
            syms[nm] = h.real(nm) if h.symbolic else float(h.ctx.concrete.get(nm, 0.3))
        ref = ref + complex(c).real * syms[nm]
    if h.symbolic:
        d = Poly._coerce(e) - Poly._coerce(ref)
        lf = d.linear_form()
        worst = max([abs(complex(v)) for v in lf[0].values()] + [abs(complex(lf[1]))]) if lf is not None else None
        h.check("energy_from_rdms(get_rdm) == sum_P c_P E_P as linear forms in the expectation values (1e-9)", lf is not None and worst < 1e-9, detail=f"largest coefficient difference {worst}")
    else:
        h.check("energy_from_rdms(get_rdm) == sum_P c_P E_P", abs(complex(e) - complex(ref)) < 1e-9, detail=f"{e} vs {ref}")
    h.done()


# O4 padding with frozen orbitals: polynomial identities in symbolic RDMs and integrals ---------------------------------------------------

import itertools


def _register_takebak_model():
    """pyscf.lib.takebak_2d(out, a, idx, idy) is documented as  out[idx[:,None], idy] += a  (a C routine that only accepts numeric arrays): modelled as that
    statement when the arrays hold symbolic entries"""
    import numpy as np
    from pyscf.lib import takebak_2d
    from tverif import interp as _i

    def m(interp, f, args, kw):
        out, a, idx, idy = args[:4]
        out[np.asarray(idx)[:, None], np.asarray(idy)] += a
        return out
    _i._MODELS[id(takebak_2d)] = m
    _i.MODEL_DOC[("pyscf.lib", "takebak_2d")] = "out[idx[:,None], idy] += a (pyscf documentation)"


def o4_structures(tier):
    sts = [{"occ": [2, 2, 0], "frozen": [0]}, {"occ": [2, 2, 0], "frozen": [1]}, {"occ": [2, 2, 0], "frozen": [0, 2]}, {"occ": [2, 0, 0], "frozen": [2]},
           {"occ": [2, 2, 0], "frozen": []}]
    if tier != "quick":
        sts += [{"occ": [2, 2, 0, 0], "frozen": [0, 3]}, {"occ": [2, 2, 2, 0], "frozen": [0, 1]}, {"occ": [2, 2, 2, 0], "frozen": [1]}]
    return sts


def _MockMol():
    """a molecule object for the padding functions: an uninitialised instance of a SUBCLASS of the real SecondQuantizedMolecule in which the derived read-only properties the
    contracts prescribe (n_active_mos, active_mos, ...) are plain attributes. Methods the code under contract may delegate to resolve through the real class, whereas a duck-typed
    stand-in breaks as soon as a method is split into helpers (false alarm found by the refactoring round)"""
    from tangelo.toolboxes.molecular_computation.molecule import SecondQuantizedMolecule as _SQM

    class _Mol(_SQM):
        n_active_mos = n_active_electrons = n_active_sos = active_mos = frozen_mos = active_spin = n_active_ab_electrons = None

        def __init__(self):
            pass
    return _Mol()


@contract("C13", "O4.pad_rdms_restricted.identities", level="S", structures=o4_structures, targets=[(RD, "pad_rdms_with_frozen_orbitals_restricted")],
          native_samples=lambda st, rnd, tier: [{"seed": rnd.randint(0, 10 ** 6)}])
def o4(h, st):
    """for EVERY active-space one- and two-particle RDM (symbolic entries, no symmetry assumed) and EVERY set of molecular integrals (symbolic h_pq symmetric,
    (pq|rs) with the 8-fold symmetry of real orbitals), each frozen selection on 3 (4) orbitals: the padded matrices have the full-space shape, their active blocks
    are the inputs, trace(gamma_full) == trace(gamma) + 2 n_frozen_occupied, and the full-space contraction  sum h gamma_full + 1/2 sum (pq|rs) Gamma_full  equals the
    active-space energy expression with the frozen orbitals folded into core constant and one-body integrals (openfermion's get_active_space_integrals, executed on
    the same symbols); the arrays passed in are unchanged"""
    import numpy as np
    from openfermion.ops.representations.interaction_operator import get_active_space_integrals
    _register_takebak_model()
    occ, frozen = st["occ"], st["frozen"]
    n = len(occ)
    conc = None if h.symbolic else h.ctx.concrete
    rs = None if h.symbolic or "seed" not in conc else np.random.default_rng(int(conc["seed"]))
    cache = {}

    def sym(name):
        if h.symbolic:
            return h.real(name)
        if name not in cache:
            cache[name] = float(conc[name]) if name in conc else (float(rs.normal()) if rs is not None else 0.0)
        return cache[name]
    hh = np.empty((n, n), dtype=object)
    for p_ in range(n):
        for q_ in range(n):
            hh[p_, q_] = sym(f"h_{min(p_, q_)}{max(p_, q_)}")
    chem = {}

    def eri(p_, q_, r_, s_):
        a, b = (min(p_, q_), max(p_, q_)), (min(r_, s_), max(r_, s_))
        key = min((a, b), (b, a))
        return sym("v_" + "".join(str(x) for pair in key for x in pair))
    gof = np.empty((n,) * 4, dtype=object)
    for p_, q_, r_, s_ in itertools.product(range(n), repeat=4):
        gof[p_, q_, r_, s_] = eri(p_, s_, q_, r_)            # openfermion order: g[p,q,r,s] = (ps|qr)
    act = [i for i in range(n) if occ[i] > 0 and i not in frozen] + [i for i in range(n) if occ[i] == 0 and i not in frozen]
    focc = [i for i in frozen if occ[i] > 0]
    na = len(act)
    g1 = np.empty((na, na), dtype=object)
    for u, v in itertools.product(range(na), repeat=2):
        g1[u, v] = sym(f"d1_{u}{v}")
    g2 = np.empty((na,) * 4, dtype=object)
    for idx in itertools.product(range(na), repeat=4):
        g2[idx] = sym("d2_" + "".join(map(str, idx)))
    if not h.symbolic:
        hh, gof, g1, g2 = hh.astype(float), gof.astype(float), g1.astype(float), g2.astype(float)
    mol = _MockMol()
    mol.uhf, mol.n_mos, mol.n_active_mos, mol.mo_occ = False, n, na, np.array(occ)
    mol.frozen_occupied, mol.active_mos = list(focc), list(act)
    b1, b2 = snapshot(g1.tolist()), snapshot(g2.tolist())
    one_f, two_f = h.call(RD, "pad_rdms_with_frozen_orbitals_restricted", mol, g1, g2)
    h.check("arrays passed to the padding are unchanged", snapshot(g1.tolist()) == b1 and snapshot(g2.tolist()) == b2)
    h.check("full-space shapes", tuple(one_f.shape) == (n, n) and tuple(two_f.shape) == (n,) * 4)
    tr_f, tr_a = 0, 0
    for p_ in range(n):
        tr_f = tr_f + one_f[p_, p_]
    for u in range(na):
        tr_a = tr_a + g1[u, u]
    h.check_close("trace(gamma_full) == trace(gamma) + 2 n_frozen_occupied", tr_f, tr_a + 2 * len(focc))
    ok = True
    for u, v in itertools.product(range(na), repeat=2):
        d = one_f[act[u], act[v]] - g1[u, v]
        ok = ok and (d.is_zero() if hasattr(d, "is_zero") else abs(d) < 1e-12)
    h.check("active block of the padded one-particle matrix is the input", bool(ok))
    ok = True
    for idx in itertools.product(range(na), repeat=4):
        d = two_f[tuple(act[k] for k in idx)] - g2[idx]
        ok = ok and (d.is_zero() if hasattr(d, "is_zero") else abs(d) < 1e-12)
    h.check("active block of the padded two-particle matrix is the input", bool(ok))
    # energies
    e_full = 0
    for p_, q_ in itertools.product(range(n), repeat=2):
        e_full = e_full + hh[p_, q_] * one_f[p_, q_]
    for p_, q_, r_, s_ in itertools.product(range(n), repeat=4):
        e_full = e_full + eri(p_, q_, r_, s_) * two_f[p_, q_, r_, s_] * 0.5
    core, h_a, g_a = get_active_space_integrals(hh, gof, list(focc), list(act))
    e_act = core
    for u, v in itertools.product(range(na), repeat=2):
        e_act = e_act + h_a[u, v] * g1[u, v]
    for u, v, w, x in itertools.product(range(na), repeat=4):
        e_act = e_act + g_a[u, w, x, v] * g2[u, v, w, x] * 0.5        # (uv|wx) = g[u,w,x,v]
    h.check_close("full-space energy contraction == active-space energy with folded frozen orbitals", e_full, e_act, tol=1e-9)
    h.done()


def o4b_structures(tier):
    sts = [{"occ": [[1, 1, 0], [1, 0, 0]], "frozen": [[0], [0]]}, {"occ": [[1, 1, 0], [1, 0, 0]], "frozen": [[1], [0]]}, {"occ": [[1, 1, 0], [1, 0, 0]], "frozen": [[0, 2], [1]]},
           {"occ": [[1, 1, 0], [1, 1, 0]], "frozen": [[0], []]}, {"occ": [[1, 1, 0], [1, 0, 0]], "frozen": [[], []]}, {"occ": [[1, 1, 0], [1, 1, 0]], "frozen": [[1], [0, 2]]}]
    if tier != "quick":
        sts += [{"occ": [[1, 1, 1, 0], [1, 0, 0, 0]], "frozen": [[0, 3], [0]]}, {"occ": [[1, 1, 0, 0], [1, 1, 0, 0]], "frozen": [[0], [1, 3]]}]
    return sts


@contract("C13", "O4b.pad_rdms_unrestricted.identities", level="S", structures=o4b_structures, targets=[(RD, "pad_rdms_with_frozen_orbitals_unrestricted")],
          native_samples=lambda st, rnd, tier: [{"seed": rnd.randint(0, 10 ** 6)}])
def o4b(h, st):
    """unrestricted form, per spin channel independent frozen selections: for EVERY (alpha, beta) one-particle and (alpha-alpha, alpha-beta, beta-beta) two-particle
    active-space RDM (symbolic entries) and EVERY set of spin-resolved integrals (symbolic, with the symmetries of real orbitals): shapes, active blocks,
    trace(gamma_s,full) == trace(gamma_s) + n_frozen_occupied(s), and the full-space contraction  sum_s h_s gamma_s + 1/2 (aa) + (ab) + 1/2 (bb)  equals the
    active-space energy expression with the integrals folded by SecondQuantizedMolecule._get_active_space_integrals_uhf (itself under contract C04.O8, executed on the
    same symbols); the arrays passed in are unchanged"""
    import numpy as np
    from tangelo.toolboxes.molecular_computation.molecule import SecondQuantizedMolecule
    _register_takebak_model()
    occ, frozen = st["occ"], st["frozen"]
    n = len(occ[0])
    conc = None if h.symbolic else h.ctx.concrete
    rs = None if h.symbolic or "seed" not in conc else np.random.default_rng(int(conc["seed"]))
    cache = {}

    def sym(name):
        if h.symbolic:
            return h.real(name)
        if name not in cache:
            cache[name] = float(conc[name]) if name in conc else (float(rs.normal()) if rs is not None else 0.0)
        return cache[name]

    def pair(a, b):
        return (min(a, b), max(a, b))

    def eri(block, p_, q_, r_, s_):
        a, b = pair(p_, q_), pair(r_, s_)
        key = min((a, b), (b, a)) if block != 1 else (a, b)
        return sym(f"v{block}_" + "".join(str(x) for pr in key for x in pr))
    hs = [np.empty((n, n), dtype=object) for _ in range(2)]
    for s_ in range(2):
        for p_, q_ in itertools.product(range(n), repeat=2):
            hs[s_][p_, q_] = sym(f"h{s_}_{min(p_, q_)}{max(p_, q_)}")
    gof = [np.empty((n,) * 4, dtype=object) for _ in range(3)]
    for b_ in range(3):
        for p_, q_, r_, s_ in itertools.product(range(n), repeat=4):
            gof[b_][p_, q_, r_, s_] = eri(b_, p_, s_, q_, r_)        # openfermion order g[p,q,r,s] = (ps|qr); for the alpha-beta block p,s are alpha and q,r beta
    act = [[i for i in range(n) if occ[s_][i] > 0 and i not in frozen[s_]] + [i for i in range(n) if occ[s_][i] == 0 and i not in frozen[s_]] for s_ in range(2)]
    focc = [[i for i in frozen[s_] if occ[s_][i] > 0] for s_ in range(2)]
    na = [len(act[0]), len(act[1])]
    g1 = [np.empty((na[s_], na[s_]), dtype=object) for s_ in range(2)]
    for s_ in range(2):
        for u, v in itertools.product(range(na[s_]), repeat=2):
            g1[s_][u, v] = sym(f"d1{s_}_{u}{v}")
    shapes = [(na[0],) * 4, (na[0], na[0], na[1], na[1]), (na[1],) * 4]
    g2 = [np.empty(shapes[b_], dtype=object) for b_ in range(3)]
    for b_ in range(3):
        for idx in itertools.product(*[range(k) for k in shapes[b_]]):
            g2[b_][idx] = sym(f"d2{b_}_" + "".join(map(str, idx)))
    if not h.symbolic:
        hs, gof, g1, g2 = [x.astype(float) for x in hs], [x.astype(float) for x in gof], [x.astype(float) for x in g1], [x.astype(float) for x in g2]
    mol = _MockMol()
    mol.uhf, mol.mo_occ, mol.n_active_mos = True, [np.array(occ[0]), np.array(occ[1])], list(na)
    mol.frozen_occupied, mol.active_mos = [list(focc[0]), list(focc[1])], [list(act[0]), list(act[1])]
    before = snapshot([x.tolist() for x in g1] + [x.tolist() for x in g2])
    one_f, two_f = h.call(RD, "pad_rdms_with_frozen_orbitals_unrestricted", mol, tuple(g1), tuple(g2))
    h.check("arrays passed to the padding are unchanged", snapshot([x.tolist() for x in g1] + [x.tolist() for x in g2]) == before)
    h.check("full-space shapes", all(tuple(x.shape) == (n, n) for x in one_f) and all(tuple(x.shape) == (n,) * 4 for x in two_f))
    for s_ in range(2):
        tr_f, tr_a = 0, 0
        for p_ in range(n):
            tr_f = tr_f + one_f[s_][p_, p_]
        for u in range(na[s_]):
            tr_a = tr_a + g1[s_][u, u]
        h.check_close(f"spin {s_}: trace(gamma_full) == trace(gamma) + n_frozen_occupied", tr_f, tr_a + len(focc[s_]))
    ok = True
    sel = [(act[0],) * 4, (act[0], act[0], act[1], act[1]), (act[1],) * 4]
    for b_ in range(3):
        for idx in itertools.product(*[range(k) for k in shapes[b_]]):
            d = two_f[b_][tuple(sel[b_][k][idx[k]] for k in range(4))] - g2[b_][idx]
            ok = ok and (d.is_zero() if hasattr(d, "is_zero") else abs(d) < 1e-12)
    h.check("active blocks of the padded two-particle matrices are the inputs", bool(ok))
    factor = [0.5, 1.0, 0.5]
    e_full = 0
    for s_ in range(2):
        for p_, q_ in itertools.product(range(n), repeat=2):
            e_full = e_full + hs[s_][p_, q_] * one_f[s_][p_, q_]
    for b_ in range(3):
        for p_, q_, r_, s_ in itertools.product(range(n), repeat=4):
            e_full = e_full + eri(b_, p_, q_, r_, s_) * two_f[b_][p_, q_, r_, s_] * factor[b_]
    # (the repository's own folding, under contract C04.O8, as the reference for the folded energy; if it no longer exists under this name this contract is skipped)
    core, h_a, g_a = h.call("tangelo/toolboxes/molecular_computation/molecule.py", "SecondQuantizedMolecule._get_active_space_integrals_uhf", mol, 0, hs, gof,
                            [list(focc[0]), list(focc[1])], [list(act[0]), list(act[1])])
    e_act = core
    for s_ in range(2):
        for u, v in itertools.product(range(na[s_]), repeat=2):
            e_act = e_act + h_a[s_][u, v] * g1[s_][u, v]
    for b_ in range(3):
        for idx in itertools.product(*[range(k) for k in shapes[b_]]):
            u, v, w, x = idx
            e_act = e_act + g_a[b_][u, w, x, v] * g2[b_][idx] * factor[b_]     # (uv|wx) = g[u,w,x,v]
    h.check_close("full-space energy contraction == active-space energy with folded frozen orbitals", e_full, e_act, tol=1e-9)
    h.done()


PROPERTY = {
    "level": "other",
    "explanation": "Deductive part: energy_from_rdms is proved to be the chemist-ordered contraction E_core + sum h gamma + 1/2 sum (pq|rs) Gamma for EVERY pair of RDMs (symbolic entries; the "
                   "index transposition is the point), against independently computed PySCF integrals; and the padding of active-space RDMs with the frozen orbitals (restricted and unrestricted) "
                   "is proved, for EVERY RDM and EVERY set of integrals (symbolic tensors) on each frozen selection of 3-4 orbitals, to keep the active blocks, to add the frozen electrons to the trace, to leave its "
                   "arguments unchanged and to reproduce the active-space energy expression with folded frozen orbitals (polynomial identities, exact normal forms). Numerical tensors produced by PySCF solvers and simulated measurements: outside the verifier's reach. Bounded native contract runs with an independent check of energy, "
                   "Hermiticity, traces, padding and - the one frame condition of the property - bit-identity of the arrays passed to the padding functions. The noise-model route of get_rdm (basis gates appended to / removed from the preparation circuit) is run with zero rates against the exact energy within the sampling error (O3b).",
    "bounds": {"quick": "H2, H4 (frozen none / [0] / [0,3]), LiH (frozen core / non-contiguous), H4+ ROHF and UHF x FCI / CCSD / MP2 (about half); VQE-UCCSD on H2 in 4 encodings", "thorough": "all, plus H4 VQE"},
    "assumptions": ["PySCF solvers, cirq simulation; tolerance 1e-6", "pyscf.lib.takebak_2d modelled by its documented meaning out[idx[:,None], idy] += a when the arrays are symbolic",
                    "numpy indexing / arithmetic executed natively on object arrays of exact polynomials", "openfermion's get_active_space_integrals executed natively on the same symbols (reference for the folded energy)"],
    "trusted_base": ["pyscf", "numpy", "cirq", "tverif AST interpreter only for the Tangelo-side functions it can execute"],
    "technique": "contract-based deductive verification of the energy contraction and of the frozen-orbital padding (AST symbolic execution over symbolic RDM / integral tensors, exact normal forms); bounded native contract checking (run-time post-conditions, frame by array snapshots) for solver outputs",
}


@contract("C13", "O2.energy_from_rdms.linear_form", level="S", structures=lambda tier: [{"mol": "H2", "frozen": None}, {"mol": "H4", "frozen": [0, 3]}],
          native_samples=lambda st, rnd, tier: [{**{f"g{p}{q}": rnd.uniform(-1, 1) for p in range(2) for q in range(2)}, **{f"G{p}{q}{r}{s}": rnd.uniform(-1, 1) for p in range(2) for q in range(2) for r in range(2) for s in range(2)}}],
          targets=[(ML, "SecondQuantizedMolecule.energy_from_rdms"), (RD, "energy_from_rdms")])
def o2(h, st):
    """for EVERY pair of RDMs (symbolic entries, 2 active orbitals): energy_from_rdms == E_core + sum_pq h_pq gamma_pq + 1/2 sum_pqrs (pq|rs) Gamma_pqrs with the
    chemist-ordered integrals (pq|rs) computed independently with PySCF (the index transposition of the openfermion-ordered tensor is the point); the function form
    taking a fermionic operator agrees"""
    import numpy as np
    from pyscf import ao2mo
    from tverif.ring import Poly
    mol = get_mol(st["mol"], st["frozen"])
    act = mol.active_mos
    n = len(act)
    g1 = np.empty((n, n), dtype=object)
    g2 = np.empty((n, n, n, n), dtype=object)
    for p in range(n):
        for q in range(n):
            g1[p, q] = h.real(f"g{p}{q}")
            for r in range(n):
                for s in range(n):
                    g2[p, q, r, s] = h.real(f"G{p}{q}{r}{s}")
    if not h.symbolic:
        g1, g2 = g1.astype(float), g2.astype(float)
    e = h.call(ML, "SecondQuantizedMolecule.energy_from_rdms", mol, g1, g2)
    # independent integrals: core constant and one-body part from Tangelo's folding, two-body part from PySCF in chemist order
    core, h1, _ = mol.get_active_space_integrals()
    C = mol.mo_coeff[:, act]
    from tangelo.toolboxes.molecular_computation.integral_solver_pyscf import mol_to_pyscf
    eri = ao2mo.restore(1, ao2mo.kernel(mol_to_pyscf(mol, mol.basis), C), n)     # (pq|rs)
    ref = core
    for p in range(n):
        for q in range(n):
            ref = ref + h1[p, q] * g1[p, q]
            for r in range(n):
                for s in range(n):
                    ref = ref + 0.5 * eri[p, q, r, s] * g2[p, q, r, s]
    if h.symbolic:
        d = Poly._coerce(e) - Poly._coerce(ref)
        lf = d.linear_form()
        worst = max([abs(float(v)) for v in lf[0].values()] + [abs(float(lf[1]))]) if lf is not None else None
        h.check("energy_from_rdms is the stated linear form in the RDM entries (coefficients agree to 1e-9)", lf is not None and worst < 1e-9, detail=f"largest coefficient difference {worst}")
    else:
        h.check("energy_from_rdms equals the stated contraction", abs(e - ref) < 1e-9, detail=f"{e} vs {ref}")
    h.done()
