"""C08 -- Variational solver energies are faithful and variational."""
import itertools

from tverif.engine import contract, snapshot
from tverif import qsem

VQ = "tangelo/algorithms/variational/vqe_solver.py"
BK = "tangelo/linq/target/backend.py"

CONFIGS = [
    {"mol": "H2", "ansatz": "UCCSD", "mapping": "jw", "utd": False}, {"mol": "H2", "ansatz": "UCCSD", "mapping": "bk", "utd": True}, {"mol": "H2", "ansatz": "UCCSD", "mapping": "scbk", "utd": True},
    {"mol": "H2", "ansatz": "UCCSD", "mapping": "jkmn", "utd": False}, {"mol": "H2", "ansatz": "HEA", "mapping": "jw", "utd": False}, {"mol": "H2", "ansatz": "UpCCGSD", "mapping": "bk", "utd": False},
    {"mol": "H4+", "ansatz": "UCCSD", "mapping": "jw", "utd": False}, {"mol": "H2", "ansatz": "UCCSD", "mapping": "BK", "utd": False}, {"mol": "H2", "ansatz": "UCCSD", "mapping": "JKMN", "utd": True},
    {"mol": "H2", "ansatz": "QCC", "mapping": "jw", "utd": False}, {"mol": "H2", "ansatz": "UCCSD", "mapping": "SCBK", "utd": True}, {"mol": "H2", "ansatz": "pUCCD", "mapping": "HCB", "utd": False},
    {"mol": "H4", "ansatz": "UCCSD", "mapping": "jw", "utd": False},
]

_SOLVERS = {}


def build_solver(cfg, extra=None):
    from tangelo.algorithms.variational import VQESolver, BuiltInAnsatze
    from contracts.C07 import molecule
    key = (cfg["mol"], cfg["ansatz"], cfg["mapping"], cfg["utd"], str(extra))
    if key in _SOLVERS:
        return _SOLVERS[key]
    opts = {"molecule": molecule(cfg["mol"]), "ansatz": getattr(BuiltInAnsatze, cfg["ansatz"]), "qubit_mapping": cfg["mapping"], "up_then_down": cfg["utd"]}
    if extra:
        opts.update(extra)
    s = VQESolver(opts)
    s.build()
    _SOLVERS[key] = s
    return s


def state_of(circuit, n):
    import numpy as np
    U = qsem.to_numpy(qsem.unitary(circuit._gates, n, exact=False)[0], n)
    return U[:, 0]


def op_matrix(qop, n):
    from openfermion.linalg import get_sparse_operator
    import openfermion as of
    o = of.QubitOperator()
    o.terms = dict(qop.terms)
    return get_sparse_operator(o, n_qubits=n).toarray()


@contract("C08", "O1.energy_estimation", level="B", structures=lambda tier: [dict(c) for c in (CONFIGS if tier != "quick" else CONFIGS[:12])],
          native_samples=lambda st, rnd, tier: [{"seed": rnd.randint(0, 10 ** 6)} for _ in range(2 if tier == "quick" else 5)],
          targets=[(VQ, "VQESolver.energy_estimation"), (BK, "Backend.get_expectation_value")])
def o1(h, st):
    """bounded: energy_estimation(theta) == <psi(theta)|H|psi(theta)> computed independently (exact state of the ansatz circuit, matrix of the qubit Hamiltonian), and is
    never below the lowest eigenvalue; the solver's Hamiltonian and ansatz gate structure are unchanged"""
    import random
    import numpy as np
    rnd = random.Random(int(h.integer("seed")))
    s = build_solver(st)
    n = s.ansatz.n_var_params
    th = np.array([rnd.uniform(-1.5, 1.5) for _ in range(n)])
    ham_before = snapshot(dict(s.qubit_hamiltonian.terms))
    e = h.call(VQ, "VQESolver.energy_estimation", s, th)
    h.check("Hamiltonian unchanged by the evaluation", snapshot(dict(s.qubit_hamiltonian.terms)) == ham_before)
    w = s.ansatz.circuit.width
    psi = state_of(s.ansatz.circuit, w)
    M = op_matrix(s.qubit_hamiltonian, w)
    ref = float(np.real(psi.conj() @ M @ psi))
    h.check("energy == <psi|H|psi>", abs(e - ref) < 1e-8, detail=f"{e} vs {ref}")
    lam = float(np.min(np.linalg.eigvalsh(M)))
    h.check("energy >= lowest eigenvalue of the Hamiltonian", e >= lam - 1e-9, detail=f"{e} vs {lam}")
    h.done()


@contract("C08", "O1b.deflation", level="B", structures=lambda tier: [dict(c) for c in CONFIGS[:2]],
          native_samples=lambda st, rnd, tier: [{"seed": rnd.randint(0, 10 ** 6)} for _ in range(2)],
          targets=[(VQ, "VQESolver.energy_estimation")])
def o1b(h, st):
    """bounded: with deflation circuits the energy exceeds the plain energy by exactly deflation_coeff * sum |<phi_k|psi>|^2; the ansatz circuit is not modified by the
    concatenations"""
    import random
    import numpy as np
    from tangelo.linq import Circuit, Gate
    rnd = random.Random(int(h.integer("seed")))
    plain = build_solver(st)
    w = plain.ansatz.circuit.width
    defl = [Circuit([Gate("X", 0), Gate("RY", 1, parameter=0.4)], n_qubits=w), Circuit([Gate("H", 0), Gate("CNOT", 1, 0)], n_qubits=w)]
    s = build_solver(st, {"deflation_circuits": defl, "deflation_coeff": 0.7})
    th = np.array([rnd.uniform(-1.5, 1.5) for _ in range(s.ansatz.n_var_params)])
    e0 = h.call(VQ, "VQESolver.energy_estimation", plain, th)
    gates_before = len(s.ansatz.circuit._gates)
    e1 = h.call(VQ, "VQESolver.energy_estimation", s, th)
    s.ansatz.update_var_params(th)
    psi = state_of(s.ansatz.circuit, w)
    ov = sum(abs(np.vdot(state_of(c, w), psi)) ** 2 for c in defl)
    h.check("deflated energy == plain energy + coeff * overlaps", abs((e1 - e0) - 0.7 * ov) < 1e-8, detail=f"{e1 - e0} vs {0.7 * ov}")
    h.check("ansatz gate structure not modified", len(s.ansatz.circuit._gates) == gates_before)
    h.done()


@contract("C08", "O2.operator_expectation", level="B", structures=lambda tier: [dict(c) for c in CONFIGS if c["ansatz"] in ("UCCSD", "HEA") and c["mapping"].lower() != "hcb"],
          native_samples=lambda st, rnd, tier: [{"seed": rnd.randint(0, 10 ** 6)}],
          targets=[(VQ, "VQESolver.operator_expectation")])
def o2(h, st):
    """bounded: operator_expectation('N' | 'Sz' | 'S^2') equals the expectation value of the correspondingly encoded operator on the same state, under EVERY supported encoding
    (lower- or upper-case name), and the solver's Hamiltonian is restored (same object) afterwards"""
    import random
    import numpy as np
    from tangelo.toolboxes.ansatz_generator import fermionic_operators as fo
    from tangelo.toolboxes.qubit_mappings.mapping_transform import fermion_to_qubit_mapping
    rnd = random.Random(int(h.integer("seed")))
    s = build_solver(st)
    mol = s.molecule
    th = np.array([rnd.uniform(-1.0, 1.0) for _ in range(s.ansatz.n_var_params)])
    ham = s.qubit_hamiltonian
    for name, fn in (("N", fo.number_operator), ("Sz", fo.spinz_operator), ("S^2", fo.spin2_operator)):
        val = h.call(VQ, "VQESolver.operator_expectation", s, name, th)
        h.check(f"Hamiltonian restored after operator_expectation({name})", s.qubit_hamiltonian is ham)
        w = s.ansatz.circuit.width
        psi = state_of(s.ansatz.circuit, w)
        q = fermion_to_qubit_mapping(fn(mol.n_active_mos, up_then_down=False), st["mapping"], mol.n_active_sos, mol.n_active_electrons, st["utd"], mol.active_spin)
        M = op_matrix(q, w)
        ref = float(np.real(psi.conj() @ M @ psi))
        h.check(f"<{name}> equals the value on the same state", abs(val - ref) < 1e-8, detail=f"{val} vs {ref}")
    h.done()


PROPERTY = {
    "level": "exploration",
    "explanation": "Numerical statements about simulated energies: no contract within the verifier's reach decides them (floating-point state simulation, eigenvalues). Bounded native contract "
                   "runs: the solver's methods are executed and compared with an independent evaluation (exact state of the ansatz circuit by tverif.qsem, matrix of the qubit operator "
                   "by openfermion) for random parameter vectors, every encoding (lower / upper case), deflation on and off.",
    "bounds": {"quick": "12 (molecule, ansatz, encoding, ordering) configurations on H2 / H4+ x 2 parameter vectors; N, Sz, S^2 for 8 configurations", "thorough": "13 configurations x 5 vectors"},
    "assumptions": ["cirq simulator, PySCF, openfermion executed natively; tolerance 1e-8", "variational bound: checked against numpy eigenvalues"],
    "trusted_base": ["tverif AST interpreter (only to record the functions exercised)", "tverif.qsem (independent state evaluation)", "cirq", "pyscf", "openfermion", "numpy"],
    "technique": "bounded native contract checking (run-time pre/post-conditions with an independent oracle); not a proof",
}
