"""C08 -- Variational solver energies are faithful and variational."""
import itertools

from tverif.engine import contract, snapshot
from tverif import qsem

VQ = "tangelo/algorithms/variational/vqe_solver.py"
BK = "tangelo/linq/target/backend.py"

CONFIGS = [
    {"mol": "H2", "ansatz": "UCCSD", "mapping": "jw", "utd": False}, {"mol": "H2", "ansatz": "UCCSD", "mapping": "bk", "utd": True}, {"mol": "H2", "ansatz": "UCCSD", "mapping": "scbk", "utd": True},
    {"mol": "H2", "ansatz": "UCCSD", "mapping": "jkmn", "utd": False}, {"mol": "H2", "ansatz": "HEA", "mapping": "jw", "utd": False}, {"mol": "H2", "ansatz": "UpCCGSD", "mapping": "bk", "utd": False},
    {"mol": "H4+", "ansatz": "UCCSD", "mapping": "jw", "utd": False}, {"mol": "H2", "ansatz": "UCCSD", "mapping": "BK", "utd": False}, {"mol": "H2", "ansatz": "UCCSD", "mapping": "JKMN", "utd": True},
    {"mol": "H2", "ansatz": "QCC", "mapping": "jw", "utd": False}, {"mol": "H2", "ansatz": "UCCSD", "mapping": "SCBK", "utd": True}, {"mol": "H2", "ansatz": "pUCCD", "mapping": "HCB", "utd": False},
    {"mol": "H4", "ansatz": "UCCSD", "mapping": "jw", "utd": False},
]
CONFIGS.insert(11, {"mol": "H2", "ansatz": "circuit", "mapping": "jw", "utd": False})      # (within the quick tier's cut)

_SOLVERS = {}


def build_solver(cfg, extra=None):
    from tangelo.algorithms.variational import VQESolver, BuiltInAnsatze
    from contracts.C07 import molecule
    key = (cfg["mol"], cfg["ansatz"], cfg["mapping"], cfg["utd"], str(extra))
    if key in _SOLVERS:
        return _SOLVERS[key]
    if cfg["ansatz"] == "circuit":
        # the ansatz handed over as a plain Circuit with variational gates (wrapped by the solver into a VariationalCircuitAnsatz)
        from tangelo.linq import Circuit, Gate
        ans = Circuit([Gate("X", 0), Gate("X", 1), Gate("RY", 2, parameter=0.1, is_variational=True), Gate("CNOT", 3, 2), Gate("RZ", 0, parameter=0.2, is_variational=True),
                       Gate("CRX", 1, 2, parameter=0.3, is_variational=True), Gate("H", 3), Gate("RX", 3, parameter=-0.4, is_variational=True)], n_qubits=4)
    else:
        ans = getattr(BuiltInAnsatze, cfg["ansatz"])
    opts = {"molecule": molecule(cfg["mol"]), "ansatz": ans, "qubit_mapping": cfg["mapping"], "up_then_down": cfg["utd"]}
    if extra:
        opts.update(extra)
    s = VQESolver(opts)
    s.build()
    _SOLVERS[key] = s
    return s


def state_of(circuit, n):
    import numpy as np
    U = qsem.to_numpy(qsem.unitary(circuit._gates, n, exact=False)[0], n)
    return U[:, 0]


def op_matrix(qop, n):
    from openfermion.linalg import get_sparse_operator
    import openfermion as of
    o = of.QubitOperator()
    o.terms = dict(qop.terms)
    return get_sparse_operator(o, n_qubits=n).toarray()


@contract("C08", "O1.energy_estimation", level="B", structures=lambda tier: [dict(c) for c in (CONFIGS if tier != "quick" else CONFIGS[:13])],
          native_samples=lambda st, rnd, tier: [{"seed": rnd.randint(0, 10 ** 6)} for _ in range(2 if tier == "quick" else 5)],
          targets=[(VQ, "VQESolver.energy_estimation"), (BK, "Backend.get_expectation_value")])
def o1(h, st):
    """bounded: energy_estimation(theta) == <psi(theta)|H|psi(theta)> computed independently (exact state of the ansatz circuit, matrix of the qubit Hamiltonian), and is
    never below the lowest eigenvalue; the solver's Hamiltonian and ansatz gate structure are unchanged"""
    import random
    import numpy as np
    rnd = random.Random(int(h.integer("seed")))
    s = build_solver(st)
    n = s.ansatz.n_var_params
    th = np.array([rnd.uniform(-1.5, 1.5) for _ in range(n)])
    ham_before = snapshot(dict(s.qubit_hamiltonian.terms))
    e = h.call(VQ, "VQESolver.energy_estimation", s, th)
    h.check("Hamiltonian unchanged by the evaluation", snapshot(dict(s.qubit_hamiltonian.terms)) == ham_before)
    w = s.ansatz.circuit.width
    psi = state_of(s.ansatz.circuit, w)
    M = op_matrix(s.qubit_hamiltonian, w)
    ref = float(np.real(psi.conj() @ M @ psi))
    h.check("energy == <psi|H|psi>", abs(e - ref) < 1e-8, detail=f"{e} vs {ref}")
    lam = float(np.min(np.linalg.eigvalsh(M)))
    h.check("energy >= lowest eigenvalue of the Hamiltonian", e >= lam - 1e-9, detail=f"{e} vs {lam}")
    h.done()


@contract("C08", "O1b.deflation", level="B", structures=lambda tier: [dict(c) for c in CONFIGS[:2]],
          native_samples=lambda st, rnd, tier: [{"seed": rnd.randint(0, 10 ** 6)} for _ in range(2)],
          targets=[(VQ, "VQESolver.energy_estimation")])
def o1b(h, st):
    """bounded: with deflation circuits the energy exceeds the plain energy by exactly deflation_coeff * sum |<phi_k|psi>|^2; the ansatz circuit is not modified by the
    concatenations"""
    import random
    import numpy as np
    from tangelo.linq import Circuit, Gate
    rnd = random.Random(int(h.integer("seed")))
    plain = build_solver(st)
    w = plain.ansatz.circuit.width
    defl = [Circuit([Gate("X", 0), Gate("RY", 1, parameter=0.4)], n_qubits=w), Circuit([Gate("H", 0), Gate("CNOT", 1, 0)], n_qubits=w)]
    s = build_solver(st, {"deflation_circuits": defl, "deflation_coeff": 0.7})
    th = np.array([rnd.uniform(-1.5, 1.5) for _ in range(s.ansatz.n_var_params)])
    e0 = h.call(VQ, "VQESolver.energy_estimation", plain, th)
    gates_before = len(s.ansatz.circuit._gates)
    e1 = h.call(VQ, "VQESolver.energy_estimation", s, th)
    s.ansatz.update_var_params(th)
    psi = state_of(s.ansatz.circuit, w)
    ov = sum(abs(np.vdot(state_of(c, w), psi)) ** 2 for c in defl)
    h.check("deflated energy == plain energy + coeff * overlaps", abs((e1 - e0) - 0.7 * ov) < 1e-8, detail=f"{e1 - e0} vs {0.7 * ov}")
    h.check("ansatz gate structure not modified", len(s.ansatz.circuit._gates) == gates_before)
    h.done()


@contract("C08", "O2.operator_expectation", level="B", structures=lambda tier: [dict(c) for c in CONFIGS if c["ansatz"] in ("UCCSD", "HEA") and c["mapping"].lower() != "hcb"]
          + [dict(CONFIGS[0], defl=True), dict(CONFIGS[4], defl=True), dict(CONFIGS[0], proj=True)]
          # frozen occupied orbitals (an odd number of them): the sector of the symmetry-conserving encoding is that of the ACTIVE electrons
          + [{"mol": m, "ansatz": "UCCSD", "mapping": mp, "utd": u} for m in ("H4f0", "H4f03") for mp, u in (("scbk", True), ("scbk", False), ("jw", False))],
          native_samples=lambda st, rnd, tier: [{"seed": rnd.randint(0, 10 ** 6)}],
          targets=[(VQ, "VQESolver.operator_expectation")])
def o2(h, st):
    """bounded: operator_expectation('N' | 'Sz' | 'S^2') equals the expectation value of the correspondingly encoded operator on the same state, under EVERY supported encoding
    (lower- or upper-case name), and the solver's Hamiltonian is restored (same object) afterwards"""
    import random
    import numpy as np
    from tangelo.toolboxes.ansatz_generator import fermionic_operators as fo
    from tangelo.toolboxes.qubit_mappings.mapping_transform import fermion_to_qubit_mapping
    rnd = random.Random(int(h.integer("seed")))
    extra = None
    if st.get("defl"):
        # deflation circuits concern the ENERGY only: symmetry expectation values are plain <psi|O|psi> (states with a large overlap with the deflated ones included)
        from tangelo.linq import Circuit, Gate
        extra = {"deflation_circuits": [Circuit([Gate("X", 0), Gate("X", 1)], n_qubits=4), Circuit([Gate("H", 0), Gate("CNOT", 1, 0)], n_qubits=4)], "deflation_coeff": 0.9}
    s = build_solver({k: v for k, v in st.items() if k not in ("defl", "proj")}, extra)
    mol = s.molecule
    th = np.array([rnd.uniform(-1.0, 1.0) for _ in range(s.ansatz.n_var_params)])
    if st.get("defl") and rnd.random() < 0.5:
        th = th * 0.05            # close to the reference determinant: large overlap with the first deflated state
    ham = s.qubit_hamiltonian
    for name, fn in (("N", fo.number_operator), ("Sz", fo.spinz_operator), ("S^2", fo.spin2_operator)):
        val = h.call(VQ, "VQESolver.operator_expectation", s, name, th)
        h.check(f"Hamiltonian restored after operator_expectation({name})", s.qubit_hamiltonian is ham)
        w = s.ansatz.circuit.width
        psi = state_of(s.ansatz.circuit, w)
        q = fermion_to_qubit_mapping(fn(mol.n_active_mos, up_then_down=False), st["mapping"], mol.n_active_sos, mol.n_active_electrons, st["utd"], mol.active_spin)
        M = op_matrix(q, w)
        ref = float(np.real(psi.conj() @ M @ psi))
        h.check(f"<{name}> equals the value on the same state", abs(val - ref) < 1e-8, detail=f"{val} vs {ref}")
        # the same observable handed over as an operator OBJECT: a FermionOperator (mapped by the solver with its own encoding) and the already mapped QubitOperator
        val_f = h.call(VQ, "VQESolver.operator_expectation", s, fn(mol.n_active_mos, up_then_down=False), th)
        h.check(f"<{name}> given as a FermionOperator equals the value on the same state", abs(val_f - ref) < 1e-8, detail=f"{val_f} vs {ref}")
        val_q = h.call(VQ, "VQESolver.operator_expectation", s, q, th)
        h.check(f"<{name}> given as a QubitOperator equals the value on the same state", abs(val_q - ref) < 1e-8, detail=f"{val_q} vs {ref}")
        h.check(f"Hamiltonian restored after operator_expectation with operator objects ({name})", s.qubit_hamiltonian is ham)
    h.done()


# ---------------------------------------------------------------------------------------------------------------------
# P1  the deflation loop of energy_estimation for ANY number of deflation circuits (loop cut, backend opaque)

from tverif.interp import GhostIterable, GSeq


class _DeflationLoop(GhostIterable):
    managed = ("energy", "self")       # "self" is the solver holding the opaque backend (its call log grows)

    def __init__(self, h, elem, coeff, f, E):
        self.h, self.elem, self.coeff, self.f, self.E = h, elem, coeff, f, E
        self.iterations = 0

    def element(self):
        self.iterations += 1
        return self.elem

    def init(self, interp, env):
        s = env.lookup("self")
        self.h.check_close("on loop entry: energy is the expectation value returned by the backend", env.lookup("energy"), self.E)
        self.n_calls = len(s.backend.calls)
        self.state_circuit = env.lookup("circuit")
        self.state_sig = [(g.name, tuple(g.target), g.parameter) for g in self.state_circuit._gates]

    def havoc(self, interp, env):
        env.assign("energy", self.e0)

    def step(self, interp, env, broke):
        h = self.h
        s = env.lookup("self")
        new = s.backend.calls[self.n_calls:]
        h.check("one simulation per deflation circuit, nothing else asked of the backend", len(new) == 1 and new[0][0] == "simulate")
        if len(new) == 1:
            from tangelo.linq import Circuit
            inv = Circuit(self.state_circuit._gates, n_qubits=None).inverse()
            want = [(g.name, tuple(g.target), g.parameter) for g in list(self.elem._gates) + list(inv._gates)]
            got = [(g.name, tuple(g.target), g.parameter) for g in new[0][1]._gates]
            h.check("overlap circuit == deflation circuit ++ inverse(state circuit)", got == want)
        h.check_close("energy += deflation_coeff * f('0...0' on the ansatz register)", env.lookup("energy"), self.e0 + self.coeff * self.f)
        h.check("state circuit not modified", [(g.name, tuple(g.target), g.parameter) for g in self.state_circuit._gates] == self.state_sig)


@contract("C08", "P1.energy_estimation.deflation_loop.any_number", level="P", targets=[(VQ, "VQESolver.energy_estimation")],
          structures=lambda tier: [{"ref": r, "proj": p, "narrow": nw} for r in (False, True) for p in (False, True) for nw in (False, True)])
def p1(h, st):
    """with the compute backend opaque and ANY number of deflation circuits: the loop starts from the expectation value E of the solver's Hamiltonian on the state circuit, and one
    generic iteration on a generic deflation circuit (narrower than the ansatz or not), from an arbitrary accumulated energy, simulates exactly deflation circuit ++ inverse(state
    circuit), reads the frequency of the all-zero outcome OF THE ANSATZ REGISTER and adds deflation_coeff times it - for every value of E, f, the coefficient and the accumulated
    energy; the state circuit is not modified. By induction energy == E + coeff * sum_k f_k for any number of deflation circuits"""
    if not h.symbolic:
        h.check("native: covered by O3 / O1b", True)
        h.done()
        return
    import numpy as np
    from tangelo.linq import Circuit, Gate
    from tangelo.algorithms.variational import VQESolver, BuiltInAnsatze
    from contracts.C07 import molecule
    E, coeff, f, e0 = h.real("E"), h.real("coeff"), h.real("f0"), h.real("energy_so_far")
    s = VQESolver({"molecule": molecule("H2"), "ansatz": BuiltInAnsatze.UCCSD, "qubit_mapping": "jw"})
    s.build()
    w = s.ansatz.circuit.width
    s.backend = _OpaqueBackend(E, [f] * 4)
    elem = Circuit([Gate("X", 1)], n_qubits=None if st["narrow"] else w)
    proto = _DeflationLoop(h, elem, coeff, f, E)
    proto.e0 = e0
    s.deflation_circuits = GSeq.atom("deflation_circuits", elem, proto=proto)
    s.deflation_coeff = coeff
    s.ref_state = [1, 0, 0, 0] if st["ref"] else None
    s.reference_circuit = Circuit([Gate("X", 0)], n_qubits=w) if st["ref"] else Circuit()
    s.projective_circuit = Circuit([Gate("H", 1)], n_qubits=w) if st["proj"] else None
    h.numeric_pi()
    e = h.call(VQ, "VQESolver.energy_estimation", s, np.array([0.11, -0.23]))
    if s.deflation_circuits.iterations == 0:
        h.check_close("no deflation circuit: the energy is E", e, E)
    else:
        h.shape("the loop body was entered once for the generic deflation circuit", s.deflation_circuits.iterations == 1)
        h.check_close("the accumulated energy is returned", e, e0 + coeff * f)
    h.done()


# ---------------------------------------------------------------------------------------------------------------------
# O5  penalty terms: the penalised Hamiltonian is H + sum mu (O - v)^2 in the solver's own encoding and ordering

SAV = "tangelo/algorithms/variational/sa_vqe_solver.py"
PEN_SETS = [{"N": [1.5, 2]}, {"Sz": [2.0, 0]}, {"S^2": [1.2, 0]}, {"N": [0.8, 2], "Sz": [1.1, 1], "S^2": [0.6, 2]}]


@contract("C08", "O5.penalty_terms", level="B",
          structures=lambda tier: [{"mol": m, "ansatz": a, "mapping": mp, "utd": u, "pen": k, "solver": sv}
                                   for (m, a, mp, sv) in (("H2", "UCCSD", "jw", "vqe"), ("H2", "HEA", "bk", "vqe"), ("H4", "UCCSD", "jw", "vqe"), ("H2", "UCCSD", "jkmn", "vqe"), ("H2", "UCCSD", "jw", "sa"))
                                   for u in (False, True) for k in range(len(PEN_SETS)) if tier != "quick" or (m == "H2" and (k in (1, 3) or (mp == "jw" and sv == "vqe")))],
          native_samples=lambda st, rnd, tier: [{"seed": rnd.randint(0, 10 ** 6)}],
          targets=[(VQ, "VQESolver.build"), (VQ, "VQESolver.energy_estimation"), (SAV, "SA_VQESolver.build")])
def o5(h, st):
    """bounded: a solver built with penalty_terms minimises H + sum_O mu_O (O - v_O)^2 for O in N, Sz, S^2: its qubit Hamiltonian equals the image - under the solver's own encoding
    and spin-orbital ordering - of the molecular Hamiltonian plus the penalties written with the reference (alternating-order) operators, and energy_estimation(theta) is the
    expectation value of exactly that operator on the ansatz state"""
    import random
    import numpy as np
    from tangelo.algorithms.variational import VQESolver, SA_VQESolver, BuiltInAnsatze
    from tangelo.toolboxes.ansatz_generator import fermionic_operators as fo
    from tangelo.toolboxes.qubit_mappings.mapping_transform import fermion_to_qubit_mapping
    from contracts.C07 import molecule
    rnd = random.Random(int(h.integer("seed")))
    mol = molecule(st["mol"])
    pen = {k: list(v) for k, v in PEN_SETS[st["pen"]].items()}
    opts = {"molecule": mol, "ansatz": getattr(BuiltInAnsatze, st["ansatz"]), "qubit_mapping": st["mapping"], "up_then_down": st["utd"], "penalty_terms": pen}
    if st["solver"] == "sa":
        from tangelo.linq import Circuit, Gate
        opts["ref_states"] = [[1, 1, 0, 0], [1, 0, 0, 1]] if not st["utd"] else [[1, 0, 1, 0], [1, 0, 0, 1]]
        s = h.call(SAV, "SA_VQESolver", opts)
        h.call(SAV, "SA_VQESolver.build", s)
    else:
        s = h.call(VQ, "VQESolver", opts)
        h.call(VQ, "VQESolver.build", s)
    h.check("penalty dictionary of the caller unchanged", pen == {k: list(v) for k, v in PEN_SETS[st["pen"]].items()})
    # reference: fermionic penalties in the alternating order (the operators of C12), everything mapped with the solver's options
    n_mos = mol.n_active_mos
    ref_f = mol.fermionic_hamiltonian
    ops = {"N": fo.number_operator, "Sz": fo.spinz_operator, "S^2": fo.spin2_operator}
    total = None
    for name, (mu, v) in PEN_SETS[st["pen"]].items():
        o = ops[name](n_mos, up_then_down=False)
        term = (o - v) * (o - v) * mu
        total = term if total is None else total + term
    def to_q(fop):
        return fermion_to_qubit_mapping(fop, st["mapping"], mol.n_active_sos, mol.n_active_electrons, st["utd"], mol.active_spin)
    w = s.ansatz.circuit.width if st["solver"] != "sa" else s.ansatz.circuit.width
    Mref = op_matrix(to_q(ref_f), w) + op_matrix(to_q(total), w)
    M = op_matrix(s.qubit_hamiltonian, w)
    h.check("qubit Hamiltonian == encoded (H + sum mu (O - v)^2)", float(np.max(np.abs(M - Mref))) < 1e-8, detail=f"max deviation {float(np.max(np.abs(M - Mref))):.3e}")
    if st["solver"] != "sa":
        th = np.array([rnd.uniform(-1.0, 1.0) for _ in range(s.ansatz.n_var_params)])
        e = h.call(VQ, "VQESolver.energy_estimation", s, th)
        psi = state_of(s.ansatz.circuit, w)
        ref = float(np.real(psi.conj() @ Mref @ psi))
        h.check("energy == <psi| H + penalties |psi>", abs(e - ref) < 1e-8, detail=f"{e} vs {ref}")
    h.done()


# ---------------------------------------------------------------------------------------------------------------------
# O4  histories on ONE solver object

@contract("C08", "O4.solver_histories", level="B", structures=lambda tier: [dict(c) for c in (CONFIGS[0], CONFIGS[2], CONFIGS[4], CONFIGS[6])[: 3 if tier == "quick" else 4]] + [dict(CONFIGS[0], defl=True), dict(CONFIGS[1], defl=True)],
          native_samples=lambda st, rnd, tier: [{"seed": rnd.randint(0, 10 ** 6)}],
          targets=[(VQ, "VQESolver.energy_estimation"), (VQ, "VQESolver.operator_expectation"), (VQ, "VQESolver.get_rdm")])
def o4(h, st):
    """bounded: ONE solver object along a history energy(t1), <N>(t2), energy(t2), get_rdm(t2), energy(t3), energy(t1), <Sz>(t1), energy(t2) (with deflation circuits:
    get_resources() interleaved with the energies and symmetry expectation values): every value equals the value a FRESHLY
    built solver returns for the same parameters (and, for the energies, the independent <psi|H|psi> of a freshly built ansatz state): nothing a call leaves behind in the solver,
    its ansatz, its backend or its Hamiltonian influences a later call; the energy of t1 is the same the second time"""
    import random
    import numpy as np
    from tangelo.algorithms.variational import VQESolver, BuiltInAnsatze
    from contracts.C07 import molecule
    rnd = random.Random(int(h.integer("seed")))

    from tangelo.linq import Circuit, Gate

    def fresh():
        opts = {"molecule": molecule(st["mol"]), "ansatz": getattr(BuiltInAnsatze, st["ansatz"]), "qubit_mapping": st["mapping"], "up_then_down": st["utd"]}
        if st.get("defl"):
            # deflation circuits (fresh objects for every solver), default reference state
            opts["deflation_circuits"] = [Circuit([Gate("X", 0), Gate("RY", 1, parameter=0.4)], n_qubits=4), Circuit([Gate("H", 0), Gate("CNOT", 1, 0)], n_qubits=4)]
            opts["deflation_coeff"] = 0.7
        s_ = VQESolver(opts)
        s_.build()
        return s_
    s = fresh()
    n = s.ansatz.n_var_params
    ts = [np.array([rnd.uniform(-1.5, 1.5) for _ in range(n)]) for _ in range(3)]
    first = {}
    history = [("energy", 0), ("N", 1), ("energy", 1), ("rdm", 1), ("energy", 2), ("energy", 0), ("Sz", 0), ("energy", 1)]
    if st.get("defl"):
        history = [("energy", 0), ("resources", 0), ("energy", 0), ("N", 1), ("resources", 1), ("energy", 1), ("Sz", 0), ("resources", 0), ("energy", 2), ("energy", 0)]
    for k, (what, ti) in enumerate(history):
        th = ts[ti]
        tag = f"call {k} ({what}, parameter vector {ti}): "
        f = fresh()
        if what == "energy":
            e = h.call(VQ, "VQESolver.energy_estimation", s, th.copy())
            ef = f.energy_estimation(th.copy())
            h.check(tag + "same energy as a freshly built solver", abs(e - ef) < 1e-9, detail=f"{e} vs {ef}")
            w = f.ansatz.circuit.width
            psi = state_of(f.ansatz.circuit, w)
            ref = float(np.real(psi.conj() @ op_matrix(f.qubit_hamiltonian, w) @ psi))
            if st.get("defl"):
                ref = ref + 0.7 * sum(abs(np.vdot(state_of(c_, w), psi)) ** 2 for c_ in f.deflation_circuits)
            h.check(tag + "energy == <psi|H|psi> [+ coeff * overlaps] (independent evaluation)", abs(e - ref) < 1e-8, detail=f"{e} vs {ref}")
            if ti in first:
                h.check(tag + "same energy as the first time these parameters were used", abs(e - first[ti]) < 1e-10, detail=f"{e} vs {first[ti]}")
            first.setdefault(ti, e)
        elif what == "resources":
            r = h.call(VQ, "VQESolver.get_resources", s)
            rf = f.get_resources()
            h.check(tag + "same resources as a freshly built solver", r == rf, detail=f"{r} vs {rf}")
            h.check(tag + "the ansatz circuit still has the gates of a freshly built ansatz", len(s.ansatz.circuit._gates) == len(f.ansatz.circuit._gates),
                    detail=f"{len(s.ansatz.circuit._gates)} vs {len(f.ansatz.circuit._gates)}")
        elif what in ("N", "Sz"):
            v = h.call(VQ, "VQESolver.operator_expectation", s, what, th.copy())
            vf = f.operator_expectation(what, th.copy())
            h.check(tag + "same expectation value as a freshly built solver", abs(v - vf) < 1e-9, detail=f"{v} vs {vf}")
        else:
            r1, r2 = h.call(VQ, "VQESolver.get_rdm", s, th.copy())
            f1, f2 = f.get_rdm(th.copy())
            h.check(tag + "same RDMs as a freshly built solver", float(np.max(np.abs(np.asarray(r1) - np.asarray(f1)))) < 1e-9 and float(np.max(np.abs(np.asarray(r2) - np.asarray(f2)))) < 1e-9)
    h.done()


PROPERTY = {
    "level": "other",
    "explanation": "Deductive part: energy_estimation's assembly (which circuit and Hamiltonian reach the backend, reference / projective placement, deflation sum E + coeff * sum f_k) is proved "
                   "from the AST with the backend opaque, for every value of E, f_k and the coefficient. The numerical statements about simulated energies are not decidable by contracts "
                   "(floating-point state simulation, eigenvalues): bounded native contract "
                   "runs: the solver's methods are executed and compared with an independent evaluation (exact state of the ansatz circuit by tverif.qsem, matrix of the qubit operator "
                   "by openfermion) for random parameter vectors, every encoding (lower / upper case), deflation on and off. Unbounded: the deflation loop for ANY number of deflation circuits (P1, loop cut). Bounded histories on one solver object against freshly built solvers (O4). Penalty terms: the solver's Hamiltonian equals the encoded H + sum mu (O - v)^2 under its own encoding and ordering (O5, VQE and SA-VQE); observables handed to operator_expectation by name, as FermionOperator or as QubitOperator (O2); ansatz handed over as a plain Circuit.",
    "bounds": {"quick": "12 (molecule, ansatz, encoding, ordering) configurations on H2 / H4+ x 2 parameter vectors; N, Sz, S^2 for 8 configurations", "thorough": "13 configurations x 5 vectors"},
    "assumptions": ["cirq simulator, PySCF, openfermion executed natively; tolerance 1e-8", "variational bound: checked against numpy eigenvalues"],
    "trusted_base": ["tverif AST interpreter (only to record the functions exercised)", "tverif.qsem (independent state evaluation)", "cirq", "pyscf", "openfermion", "numpy"],
    "technique": "contract-based deductive verification of the solver's assembly code (AST symbolic execution, opaque backend); bounded native contract checking with an independent oracle for the simulated values (labelled bounded)",
}


class _OpaqueBackend:
    """an opaque compute backend: returns symbolic values and records what it is asked"""

    def __init__(self, E, freqs):
        self.E, self.freqs = E, list(freqs)
        self.calls = []
        self.n_shots = None

    def get_expectation_value(self, qubit_operator, circuit, **kw):
        self.calls.append(("expectation", qubit_operator, circuit, kw))
        return self.E

    def simulate(self, circuit, **kw):
        k = sum(1 for c in self.calls if c[0] == "simulate")
        self.calls.append(("simulate", circuit, kw))
        w = circuit.width
        return ({"0" * w: self.freqs[k], "1" * w: 1 - self.freqs[k]}, None)


@contract("C08", "O3.energy_estimation.structure", level="S", native_samples=lambda st, rnd, tier: [{"E": -1.1, "f0": 0.3, "f1": 0.05, "coeff": 0.7}],
          structures=lambda tier: [{"ref": r, "proj": p, "ndefl": d, "narrow": nw} for r in (False, True) for p in (False, True) for d in (0, 1, 2)
                                   for nw in ((False, True) if d else (False,))],
          targets=[(VQ, "VQESolver.energy_estimation")])
def o3(h, st):
    """with the compute backend opaque: energy_estimation(theta) updates the ansatz with theta, asks the backend for the expectation value of the solver's Hamiltonian
    (same object) on ansatz.circuit [reference first, projective circuit last], and returns E + deflation_coeff * sum_k f_k('0...0') where f_k comes from
    deflation_circuit_k followed by the inverse of that same circuit - for EVERY value of E, f_k and the coefficient; the ansatz circuit object is not modified"""
    import numpy as np
    from tangelo.linq import Circuit, Gate
    from tangelo.algorithms.variational import VQESolver, BuiltInAnsatze
    from contracts.C07 import molecule
    E, coeff = h.real("E"), h.real("coeff")
    fs = [h.real(f"f{k}") for k in range(2)]
    s = VQESolver({"molecule": molecule("H2"), "ansatz": BuiltInAnsatze.UCCSD, "qubit_mapping": "jw"})
    s.build()
    w = s.ansatz.circuit.width
    s.backend = _OpaqueBackend(E, fs)
    # a deflation circuit may address fewer qubits than the ansatz (narrow): the overlap is still the all-zero outcome of the whole register
    s.deflation_circuits = [Circuit([Gate("X", k)], n_qubits=None if st.get("narrow") else w) for k in range(st["ndefl"])]
    s.deflation_coeff = coeff
    s.ref_state = [1, 0, 0, 0] if st["ref"] else None
    s.reference_circuit = Circuit([Gate("X", 0)], n_qubits=w) if st["ref"] else Circuit()
    s.projective_circuit = Circuit([Gate("H", 1)], n_qubits=w) if st["proj"] else None
    th = np.array([0.11, -0.23])
    ham = s.qubit_hamiltonian
    n_ansatz = len(s.ansatz.circuit._gates)
    ansatz_circuit = s.ansatz.circuit
    e = h.call(VQ, "VQESolver.energy_estimation", s, th)
    exp = E
    for k in range(st["ndefl"]):
        exp = exp + coeff * fs[k]
    h.check_close("energy == E + coeff * sum_k f_k('0...0')", e, exp, tol=1e-12)
    calls = s.backend.calls
    h.check("one expectation-value request", sum(1 for c in calls if c[0] == "expectation") == 1)
    ex = [c for c in calls if c[0] == "expectation"][0]
    h.check("the solver's Hamiltonian object is passed unchanged", ex[1] is ham and s.qubit_hamiltonian is ham)
    circ = ex[2]
    sig = [(g.name, tuple(g.target)) for g in circ._gates]
    ans = [(g.name, tuple(g.target)) for g in s.ansatz.circuit._gates]
    exp_sig = ([("X", (0,))] if st["ref"] else []) + ans + ([("H", (1,))] if st["proj"] else [])
    h.check("circuit == [reference] ++ ansatz ++ [projective]", sig == exp_sig)
    h.check("ansatz parameters were updated with theta", all(abs(float(a) - float(b)) < 1e-12 for a, b in zip(s.ansatz.var_params, th)))
    h.check("ansatz circuit not modified by the concatenations", s.ansatz.circuit is ansatz_circuit and len(s.ansatz.circuit._gates) == n_ansatz)
    sims = [c for c in calls if c[0] == "simulate"]
    h.check("one overlap circuit per deflation circuit", len(sims) == st["ndefl"])
    for k, c in enumerate(sims):
        g = [(x.name, tuple(x.target)) for x in c[1]._gates]
        h.check(f"overlap circuit {k} == deflation circuit ++ inverse(state circuit)", g[0] == ("X", (k,)) and len(g) == 1 + len(exp_sig))
    h.done()
