"""C02 -- Expectation values equal <psi|H|psi> on every evaluation path."""
import itertools
import math

from tverif.engine import contract, snapshot
from tverif import qsem, ring
from tverif.ring import Poly

BK = "tangelo/linq/target/backend.py"
MB = "tangelo/linq/helpers/circuits/measurement_basis.py"
TGC = "tangelo/linq/target/target_cirq.py"


def mk_gate(name, target, control=None, parameter="", is_variational=False):
    from tangelo.linq import Gate
    return Gate(name, target, control, parameter, is_variational)


def mk_circuit(gates, n_qubits=None):
    from tangelo.linq import Circuit
    return Circuit(gates, n_qubits=n_qubits)


def keys(n):
    return ["".join(b) for b in itertools.product("01", repeat=n)]


def subsets(n):
    out = []
    for k in range(n + 1):
        out += [list(c) for c in itertools.combinations(range(n), k)]
    return out


# O1/O2 one-term estimators ---------------------------------------------------------------------------------------------

@contract("C02", "O2.variance_oneterm", targets=[(BK, "get_variance_from_frequencies_oneterm"), (BK, "get_expectation_value_from_frequencies_oneterm")], level="S",
          structures=lambda tier: [{"n": n, "supp": s} for n in ((1, 2) if tier == "quick" else (1, 2, 3)) for s in subsets(n)],
          native_samples=lambda st, rnd, tier: [{f"f{k}": rnd.uniform(0.01, 1) for k in keys(st["n"])} for _ in range(3)])
def o2(h, st):
    """E == sum_b f[b] (-1)^{ones of b on supp}; Var == sum_b f[b] (E - s_b)^2, for every frequency assignment"""
    n, supp = st["n"], st["supp"]
    f = {k: h.real(f"f{k}") for k in keys(n)}
    term = tuple((i, "Z") for i in supp)
    E = h.call(BK, "get_expectation_value_from_frequencies_oneterm", term, f)
    V = h.call(BK, "get_variance_from_frequencies_oneterm", term, f)
    sgn = {k: (-1) ** sum(1 for i in supp if k[i] == "1") for k in f}
    expE = sum(sgn[k] * f[k] for k in f)
    h.check_close("expectation", E, expE)
    expV = sum(f[k] * (expE - sgn[k]) * (expE - sgn[k]) for k in f)
    h.check_close("variance", V, expV)
    h.done()


# O3 measurement basis --------------------------------------------------------------------------------------------------

@contract("C02", "O3.measurement_basis_gates", targets=[(MB, "measurement_basis_gates")], level="S",
          structures=lambda tier: [{"word": "".join(w)} for w in itertools.product("IXYZ", repeat=2)] + [{"word": "XYZ"}, {"word": "QZ"}])
def o3(h, st):
    """for the emitted rotation R (product over the letters): R^dag (Z..Z on the support) R == P(word) exactly; I/Z emit nothing; other letters raise"""
    _ = h.pi
    word = st["word"]
    term = tuple((i, p) for i, p in enumerate(word) if p != "I")
    if "Q" in word:
        e = h.raises(lambda: h.call(MB, "measurement_basis_gates", term), RuntimeError)
        h.check("unsupported letter raises", e is not None)
        h.done()
        return
    gates = h.call(MB, "measurement_basis_gates", term)
    n = len(word)
    h.check("one rotation per X / Y letter, none for I / Z", len(gates) == sum(1 for p in word if p in "XY"))
    R, A = qsem.unitary(gates, n, exact=True if h.symbolic else None)
    Zs = qsem.pauli_rows([(i, "Z") for i, p in enumerate(word) if p != "I"], n, A)
    P = qsem.pauli_rows([(i, p) for i, p in enumerate(word) if p != "I"], n, A)
    lhs = qsem.rows_mul(qsem.rows_mul(qsem.rows_dagger(R, A), Zs, A), R, A)
    h.mat_equal("R^dag Z R == P", lhs, P, A, n)
    h.done()


# O5 linearity of the frequency route in the coefficients ------------------------------------------------------------------

PREPS = [
    [("H", [0], None, ""), ("CNOT", [1], [0], ""), ("RY", [2], None, 0.7)],
    [("RX", [0], None, 1.1), ("RY", [1], None, -0.4), ("CZ", [2], [0], ""), ("H", [2], None, "")],
    [("X", [0], None, ""), ("X", [2], None, "")],
    [("H", [0], None, ""), ("MEASURE", [0], None, ""), ("RY", [1], None, 0.9), ("CNOT", [2], [1], "")],
]
OPS = [["ZII", "IXI", "YYI"], ["XXZ", "III", "ZZZ"], ["IIZ"], ["YIX", "ZIZ", "III"], ["XYZ", "ZXY"]]


def exact_expectation(prep_gates, n, word, desired=None, init=None):
    """<psi|P|psi> from qsem (numeric), with projection on mid-circuit outcomes when MEASURE gates are present"""
    import numpy as np
    psi = np.zeros(2 ** n, dtype=complex)
    psi[0] = 1
    if init is not None:
        psi = np.array(init, dtype=complex)
    k = 0
    for g in prep_gates:
        if g.name == "MEASURE":
            q = g.target[0]
            bit = int(desired[k])
            k += 1
            for i in range(2 ** n):
                if ((i >> (n - 1 - q)) & 1) != bit:
                    psi[i] = 0
            psi = psi / np.linalg.norm(psi)
        else:
            U = qsem.to_numpy(qsem.unitary([g], n, exact=False)[0], n)
            psi = U @ psi
    P = qsem.to_numpy(qsem.pauli_rows([(i, p) for i, p in enumerate(word) if p != "I"], n, qsem.Numeric), n)
    return float(np.real(psi.conj() @ P @ psi)), psi


def build_prep(spec):
    return [mk_gate(nm, t, c, p) for nm, t, c, p in spec]


@contract("C02", "O5.frequency_route.linearity", level="S", targets=[(BK, "Backend._get_expectation_value_from_frequencies"), (BK, "Backend.simulate"),
                                                                    (MB, "measurement_basis_gates"), (BK, "get_expectation_value_from_frequencies_oneterm")],
          structures=lambda tier: [{"prep": p, "op": o, "init": i} for p in range(len(PREPS)) for o in range(len(OPS)) for i in (False, True)],
          native_samples=lambda st, rnd, tier: [{f"c{j}": rnd.uniform(-2, 2) for j in range(3)} for _ in range(2)])
def o5(h, st):
    """_get_expectation_value_from_frequencies == sum_t c_t <psi|P_t|psi> as a linear form in the coefficients c_t (identity term contributes c),
    for every coefficient value; per-term circuits are the preparation followed by the basis rotation; desired mid-circuit results forwarded"""
    import numpy as np
    from tangelo.linq import get_backend
    from tangelo.toolboxes.operators import QubitOperator
    n = 3
    gates = build_prep(PREPS[st["prep"]])
    mixed = any(g.name == "MEASURE" for g in gates)
    words = OPS[st["op"]]
    cs = [h.real(f"c{j}") for j in range(len(words))]
    h.numeric_pi()
    qop = QubitOperator()
    for w, c in zip(words, cs):
        qop.terms[tuple((i, p) for i, p in enumerate(w) if p != "I")] = c
    sim = get_backend("cirq")
    c = mk_circuit(gates, n)
    desired = "1" if mixed else None
    init = None
    if st.get("init"):
        rs = np.random.default_rng(7)
        init = rs.normal(size=8) + 1j * rs.normal(size=8)
        init = init / np.linalg.norm(init)
    val = h.call(BK, "Backend._get_expectation_value_from_frequencies", sim, qop, c, init, desired)
    exps = [exact_expectation(gates, n, w, desired, init)[0] for w in words]
    if h.symbolic:
        val = Poly._coerce(val)
        lf = val.linear_form()
        h.check("result is a linear form in the coefficients", lf is not None)
        if lf is not None:
            lin, const = lf
            h.check("no constant offset", abs(float(const)) < 1e-9)
            for cj, e in zip(cs, exps):
                vid = cj.vars()[0].id
                h.check("coefficient of c_t is <psi|P_t|psi>", abs(float(lin.get(vid, 0)) - e) < 1e-8, detail=f"{float(lin.get(vid, 0))} vs {e}")
    else:
        h.check("value", abs(val - sum(cj * e for cj, e in zip(cs, exps))) < 1e-8)
    h.done()


# O4/O6 public routes ----------------------------------------------------------------------------------------------------

def routes(tier):
    sts = []
    for p in range(len(PREPS)):
        for o in range(len(OPS)):
            for route in ("plain", "initial_statevector", "complex", "variance", "stderr", "variance_init"):
                sts.append({"prep": p, "op": o, "route": route, "backend": "cirq"})
    for o in range(len(OPS)):
        sts.append({"prep": 2, "op": o, "route": "shots_deterministic", "backend": "cirq"})
        sts.append({"prep": "empty", "op": o, "route": "empty_circuit", "backend": "cirq"})
    for p in (0, 2):
        for o in (0, 2):
            sts.append({"prep": p, "op": o, "route": "plain", "backend": "sympy"})
    sts.append({"prep": 0, "op": "too_wide", "route": "too_wide", "backend": "cirq"})
    return sts


@contract("C02", "O4.get_expectation_value.routes", level="S", structures=routes,
          targets=[(BK, "Backend.get_expectation_value"), (BK, "Backend.get_variance"), (BK, "Backend.get_standard_error"),
                   (BK, "Backend._get_expectation_value_from_statevector"), (BK, "Backend._get_expectation_value_from_frequencies"),
                   (BK, "Backend._get_variance_from_frequencies"), (TGC, "CirqSimulator.expectation_value_from_prepared_state")])
def o4(h, st):
    """get_expectation_value == <psi|H|psi> (qsem, 1e-8) on every route: statevector, exact frequencies, supplied initial statevector, post-selection on
    desired mid-circuit results, complex coefficients; get_variance / get_standard_error accept the same arguments (desired results forwarded);
    deterministic shots give the exact value with zero variance; too-wide operators raise ValueError"""
    import numpy as np
    from tangelo.linq import get_backend
    from tangelo.toolboxes.operators import QubitOperator
    n = 3
    route = st["route"]
    if route == "too_wide":
        sim = get_backend("cirq")
        c = mk_circuit(build_prep(PREPS[0]), n)
        e = h.raises(lambda: h.call(BK, "Backend.get_expectation_value", sim, QubitOperator("Z0 Z1 Z2 Z3"), c), ValueError)
        h.check("operator wider than the circuit raises ValueError", e is not None)
        h.done()
        return
    gates = [] if st["prep"] == "empty" else build_prep(PREPS[st["prep"]])
    mixed = any(g.name == "MEASURE" for g in gates)
    words = OPS[st["op"]]
    coefs = [0.7, -1.3, 0.45][:len(words)]
    if route == "complex":
        coefs = [0.7 + 0.2j, -1.3, 0.45 - 1j][:len(words)]
    qop = QubitOperator()
    for w, cf in zip(words, coefs):
        qop += QubitOperator(tuple((i, p) for i, p in enumerate(w) if p != "I"), cf)
    desired = "1" if mixed else None
    sim = get_backend(st["backend"], n_shots=100) if route == "shots_deterministic" else get_backend(st["backend"])
    c = mk_circuit(gates, n)
    before = snapshot({k: v for k, v in c.__dict__.items() if k not in ("_probabilities", "_applied_gates")})
    init = None
    v0 = None
    if route in ("initial_statevector", "variance_init"):
        rs = np.random.default_rng(5)
        v0 = rs.normal(size=8) + 1j * rs.normal(size=8)
        v0 = v0 / np.linalg.norm(v0)
        init = v0
    def exact():
        tot = 0
        for w, cf in zip(words, coefs):
            e, _ = exact_expectation(gates, n, w, desired, v0)
            tot = tot + cf * e
        return tot
    if route in ("variance", "stderr", "variance_init"):
        name = "Backend.get_standard_error" if route == "stderr" else "Backend.get_variance"
        val = h.call(BK, name, sim, qop, c, init, desired)
        if route == "stderr":
            h.check("standard error is 0 without shots", val == 0.)
        else:
            # Var = sum_t c_t^2 (1 - E_t^2) for exact frequencies
            ev = sum(cf * cf * (1 - exact_expectation(gates, n, w, desired, v0)[0] ** 2) for w, cf in zip(words, coefs) if w.strip("I"))
            h.check("variance == sum c_t^2 (1 - <P_t>^2)", abs(val - ev) < 1e-8, detail=f"{val} vs {ev}")
    elif route == "shots_deterministic":
        zwords = [w for w in words if set(w) <= set("IZ")]
        qz = QubitOperator()
        for w in zwords:
            qz += QubitOperator(tuple((i, p) for i, p in enumerate(w) if p != "I"), 0.5)
        if not zwords:
            h.check("n/a", True)
            h.done()
            return
        val = h.call(BK, "Backend.get_expectation_value", sim, qz, c)
        ev = sum(0.5 * exact_expectation(gates, n, w)[0] for w in zwords)
        h.check("deterministic shots: exact value", abs(val - ev) < 1e-12)
        var = h.call(BK, "Backend.get_variance", sim, qz, c)
        h.check("deterministic shots: zero variance", abs(var) < 1e-12)
        se = h.call(BK, "Backend.get_standard_error", sim, qz, c)
        h.check("deterministic shots: zero standard error", abs(se) < 1e-12)
    else:
        val = h.call(BK, "Backend.get_expectation_value", sim, qop, c, init, desired)
        ev = exact()
        h.check("expectation value == <psi|H|psi>", abs(complex(val) - complex(ev)) < 1e-8, detail=f"{val} vs {ev}")
    h.check("state-preparation circuit unchanged", snapshot({k: v for k, v in c.__dict__.items() if k not in ("_probabilities", "_applied_gates")}) == before)
    h.done()


# O6 estimators over an OPAQUE simulate(): any backend, any (sampled) histogram -------------------------------------------------------

OPS2 = [["ZI", "XY"], ["II", "ZZ", "YX"], ["IX"], ["YI", "IZ", "XX"]]
PREPS2 = {"pure": [("H", [0], None, ""), ("CNOT", [1], [0], "")], "mixed": [("H", [0], None, ""), ("MEASURE", [0], None, ""), ("RY", [1], None, 0.9)], "empty": []}


def o6_structures(tier):
    sts = []
    for prep in PREPS2:
        for op in (range(len(OPS2)) if tier != "quick" else (1, 3)):
            for sv in (True, False):
                for shots in (None, 100):
                    for noise in (False, True):
                        if (noise or not sv) and shots is None:
                            continue           # the constructor refuses
                        for init in ((False, True) if sv else (False,)):
                            for what in ("expectation", "variance"):
                                sts.append({"prep": prep, "op": op, "sv": sv, "shots": shots, "noise": noise, "init": init, "what": what})
    sts += [{"prep": "pure", "op": 1, "sv": True, "shots": 100, "noise": False, "init": True, "what": w, "complex": True} for w in ("expectation", "variance")]
    sts += [{"prep": "pure", "op": 0, "sv": False, "shots": 100, "noise": False, "init": True, "what": w, "refused": True} for w in ("expectation", "variance")]
    return sts


def _freq_names(n_calls, n):
    return [f"f{k}_{b}" for k in range(n_calls) for b in keys(n)]


def _o6_native(st, rnd, tier):
    vals = {nm: rnd.uniform(0.0, 1.0) for nm in _freq_names(8, 2)}
    vals.update({f"c{j}": rnd.uniform(-2, 2) for j in range(3)})
    vals["E"] = rnd.uniform(-1, 1)
    return [vals]


@contract("C02", "O6.estimators.opaque_simulate", level="S", structures=o6_structures, native_samples=_o6_native, max_paths=8,
          targets=[(BK, "Backend.get_expectation_value"), (BK, "Backend.get_variance"), (BK, "Backend._get_expectation_value_from_frequencies"),
                   (BK, "Backend._get_variance_from_frequencies"), (BK, "Backend._get_expectation_value_from_statevector"),
                   (BK, "get_expectation_value_from_frequencies_oneterm"), (BK, "get_variance_from_frequencies_oneterm"), (MB, "measurement_basis_gates")])
def o6(h, st):
    """simulate() OPAQUE (any backend, exact or sampled: call k returns an arbitrary histogram f_k over all bitstrings, or an opaque statevector token):
    get_expectation_value == sum_t c_t sum_b f_k(t)[b] (-1)^{|b & supp t|} + c_identity and get_variance == sum_t c_t^2 sum_b f_k(t)[b] (E_t - s_b)^2, as polynomial
    identities in EVERY coefficient and histogram entry; the circuit of call k(t) is the preparation followed by the basis rotation of term t (statevector shortcut:
    one preparation call, then the rotation alone on the returned state); the caller's initial statevector (same object) and desired mid-circuit results are
    forwarded on every route - mixed-state, noisy and statevector-less ones included; backends without statevectors refuse an initial statevector (ValueError);
    without shots on a noiseless statevector backend the prepared state is handed to expectation_value_from_prepared_state with the operator and width"""
    import numpy as np
    from tangelo.linq import Circuit
    from tangelo.linq.target.backend import Backend
    from tangelo.linq.helpers.circuits.measurement_basis import measurement_basis_gates
    from tangelo.toolboxes.operators import QubitOperator
    n = 2
    words = OPS2[st["op"]]
    cs = [h.real(f"c{j}") for j in range(len(words))]
    E = h.real("E")
    fsym = {nm: h.real(nm) for nm in _freq_names(8, n)}
    h.numeric_pi()
    sv_avail, shots, noisy = st["sv"], st["shots"], st["noise"]

    class Opaque(Backend):
        def __init__(self):
            super().__init__(n_shots=shots, noise_model=({"X": ("pauli", [0.1, 0.0, 0.0])} if noisy else None))
            self.calls, self.evcalls = [], []

        def simulate_circuit(self, *a, **k):
            raise AssertionError("opaque backend")

        def simulate(self, source_circuit, return_statevector=False, initial_statevector=None, desired_meas_result=None, save_mid_circuit_meas=False):
            k = len([c for c in self.calls if not c["rsv"]])
            rec = {"circuit": source_circuit, "rsv": return_statevector, "init": initial_statevector, "desired": desired_meas_result, "k": k}
            self.calls.append(rec)
            freqs = {b: fsym[f"f{k}_{b}"] for b in keys(source_circuit.width)} if not return_statevector else {}
            rec["token"] = ("statevector-of-call", len(self.calls)) if return_statevector else None
            return freqs, rec["token"]

        def expectation_value_from_prepared_state(self, qubit_operator, n_qubits, prepared_state):
            self.evcalls.append((qubit_operator, n_qubits, prepared_state))
            return E

        @staticmethod
        def backend_info():
            return {"statevector_available": sv_avail, "statevector_order": "lsq_first", "noisy_simulation": True, "n_qubits_max": 20}

    sim = Opaque()
    gates = build_prep(PREPS2[st["prep"]])
    mixed = any(g.name == "MEASURE" for g in gates)
    c = mk_circuit(gates, n)
    qop = QubitOperator()
    if st.get("complex"):
        coefs = [0.5 + 1.5j, -0.25 + 2j, 1.0 - 1j][:len(words)]
    else:
        coefs = cs
    for w, cf in zip(words, coefs):
        qop.terms[tuple((i, p) for i, p in enumerate(w) if p != "I")] = cf
    init = ("caller-statevector",) if st["init"] else None
    desired = "1" if mixed else None
    fn = "Backend.get_expectation_value" if st["what"] == "expectation" else "Backend.get_variance"
    if st.get("refused"):
        e = h.raises(lambda: h.call(BK, fn, sim, qop, c, init, desired), ValueError)
        h.check("initial statevector refused by a backend without statevectors", e is not None)
        h.check("nothing simulated", sim.calls == [])
        h.done()
        return
    val = h.call(BK, fn, sim, qop, c, init, desired)
    sv_shortcut = sv_avail and not mixed and not noisy
    if st["what"] == "expectation" and sv_avail and not noisy and shots is None and len(gates) > 0 and not st.get("complex"):
        # statevector route of a backend that evaluates operators itself (mixed-state preparations too: the branch selected by the desired results)
        h.check("one preparation call returning the statevector", len(sim.calls) == 1 and sim.calls[0]["rsv"] is True and sim.calls[0]["circuit"] is c)
        h.check("initial statevector / desired results forwarded to the preparation", sim.calls[0]["init"] is init and sim.calls[0]["desired"] == desired)
        h.check("operator, width and prepared state handed to the backend", len(sim.evcalls) == 1 and sim.evcalls[0][0] is qop and sim.evcalls[0][1] == n
                and sim.evcalls[0][2] == sim.calls[0]["token"])
        h.check_close("value is the backend's answer", val, E)
        h.done()
        return
    # frequency routes
    calls = list(sim.calls)
    parts = [[(w, cf) for w, cf in zip(words, coefs)]]
    if st.get("complex"):
        parts = [[(w, cf.real) for w, cf in zip(words, coefs)], [(w, cf.imag) for w, cf in zip(words, coefs)]]
    totals = []
    k = 0
    ok_circ = ok_fw = ok_prep = True
    for part in parts:
        tot = 0
        token = None
        if sv_shortcut:
            # the state is prepared once per (real / imaginary) operator
            if k < len(calls) and calls[k]["rsv"] is True and calls[k]["circuit"] is c and calls[k]["init"] is init and calls[k]["desired"] == desired:
                token = calls[k]["token"]
            else:
                ok_prep = False
            k += 1
        for w, cf in part:
            term = tuple((i, p) for i, p in enumerate(w) if p != "I")
            if not term and st["what"] == "expectation":
                tot = tot + cf
                continue
            if k >= len(calls):
                ok_circ = False
                break
            call = calls[k]
            f = {b: fsym[f"f{call['k']}_{b}"] for b in keys(n)}
            sgn = {b: (-1) ** sum(1 for i, _ in term if b[i] == "1") for b in f}
            Et = sum(sgn[b] * f[b] for b in f)
            if st["what"] == "expectation":
                tot = tot + cf * Et
            else:
                tot = tot + cf * cf * sum(f[b] * (Et - sgn[b]) * (Et - sgn[b]) for b in f)
            exp_basis = [(g.name, list(g.target), float(g.parameter) if g.parameter != "" else "") for g in measurement_basis_gates(term)]
            got = [(g.name, list(g.target), float(g.parameter) if g.parameter != "" else "") for g in call["circuit"]._gates]
            exp_prefix = [] if sv_shortcut else [(g.name, list(g.target), float(g.parameter) if g.parameter != "" else "") for g in gates]
            if got != exp_prefix + exp_basis or call["circuit"].width != n or call["rsv"]:
                ok_circ = False
            if not ((call["init"] == token if sv_shortcut else call["init"] is init) and call["desired"] == desired):
                ok_fw = False
            k += 1
        totals.append(tot)
    if sv_shortcut:
        h.check("statevector shortcut: the state is prepared once (per Hermitian part) with the caller's initial statevector and desired results", ok_prep)
    h.check("call k(t) simulates preparation ++ basis rotation of term t (rotation alone after the statevector shortcut), one call per non-identity term",
            ok_circ and k == len(calls), detail=f"{k} of {len(calls)} calls")
    h.check("initial statevector (the caller's object, or the prepared state after the shortcut) and desired mid-circuit results forwarded to every call", ok_fw)
    if st.get("complex"):
        exp = totals[0] + (1j * totals[1] if st["what"] == "expectation" else totals[1])
    else:
        exp = totals[0]
    h.check_close("value == the estimator of the returned histograms (polynomial identity)", val, exp)
    h.check("state-preparation circuit and operator unchanged", [g.name for g in c._gates] == [g.name for g in gates] and len(qop.terms) == len(words))
    h.done()


# ---------------------------------------------------------------------------------------------------------------------
# P1  the term loops of the frequency routes for an operator with ANY number of terms (loop cut; simulate and the one-term estimators replaced by their contracts)

from tverif.engine import stub, StandIn
from tverif.interp import GhostIterable, GSeq
from tverif.ring import Poly


class _EstimatorLoop(GhostIterable):
    def __init__(self, h, what, term, coef, sim, prep, n, init, desired, est_calls):
        self.h, self.what, self.term, self.coef, self.sim, self.prep, self.n, self.init_sv, self.desired, self.est_calls = h, what, term, coef, sim, prep, n, init, desired, est_calls
        self.var = "expectation_value" if what == "expectation" else "variance"
        self.managed = (self.var, "self")       # "self" is the opaque backend (its call log grows); the accumulator is the loop-carried state
        self.temps = ("_",)                     # second component of simulate()'s result: written, never read
        self.iterations = 0

    def element(self):
        self.iterations += 1
        return (self.term, self.coef)

    def init(self, interp, env):
        self.h.check_close("on loop entry: accumulator is 0", env.lookup(self.var), 0)
        self.calls_before = len(self.sim.calls)

    def havoc(self, interp, env):
        env.assign(self.var, self.acc0)          # arbitrary value accumulated over the terms seen so far (declared by the contract)

    def step(self, interp, env, broke):
        h, term = self.h, self.term
        acc = env.lookup(self.var)
        new_calls = self.sim.calls[self.calls_before:]
        if not term and self.what == "expectation":
            h.check_close("identity term: its coefficient is added", acc, self.acc0 + self.coef)
            h.check("identity term: nothing simulated", new_calls == [] and self.est_calls == [])
            return
        h.check("one simulation per term", len(new_calls) == 1 and new_calls[0]["rsv"] is False)
        h.check("one one-term estimate per term", len(self.est_calls) == 1)
        if len(new_calls) != 1 or len(self.est_calls) != 1:
            return
        call = new_calls[0]
        from tangelo.linq.helpers.circuits.measurement_basis import measurement_basis_gates
        want = [(g.name, g.target, g.control, g.parameter) for g in self.prep] + [(g.name, g.target, g.control, g.parameter) for g in measurement_basis_gates(term)]
        got = [(g.name, g.target, g.control, g.parameter) for g in call["circuit"]._gates]
        h.check("simulated circuit == preparation (or nothing, when the prepared state is passed on) followed by the basis rotation of the term", got == want, detail=f"{got} vs {want}")
        h.check("simulated on the register of the preparation", call["circuit"].width == self.n)
        h.check("initial statevector and desired mid-circuit results forwarded", call["init"] is self.init_sv and call["desired"] == self.desired)
        a, k = self.est_calls[0]
        h.check("the one-term estimator receives the term and the frequencies of that simulation", a[-2] == term and a[-1] is call["freqs"])
        est = self.est_value
        h.check_close("accumulator += coef * E_term" if self.what == "expectation" else "accumulator += coef^2 * Var_term", acc,
                      self.acc0 + (self.coef * est if self.what == "expectation" else self.coef * self.coef * est))


def p1_structures(tier):
    sts = []
    for what in ("expectation", "variance"):
        for prep in ("pure", "mixed", "empty"):
            for sv in (True, False):
                for noise in (False, True):
                    for term in ([], [[0, "X"]], [[0, "Z"], [1, "Y"]], [[0, "Z"], [1, "Z"], [2, "Z"]]):
                        for init in ((False, True) if sv else (False,)):
                            sts.append({"what": what, "prep": prep, "sv": sv, "noise": noise, "term": term, "init": init})
    return sts


@contract("C02", "P1.frequency_routes.term_loop.any_number_of_terms", level="P", structures=p1_structures,
          targets=[(BK, "Backend._get_expectation_value_from_frequencies"), (BK, "Backend._get_variance_from_frequencies")])
def p1(h, st):
    """for an operator with ANY number of terms (simulate, the one-term estimators opaque - contracts O2 / C01): the accumulator starts at 0 and one generic iteration on a generic
    (term, coef) - every real coef, an arbitrary value accumulated so far - simulates exactly the preparation followed by the term's basis rotation (the rotation alone on the
    prepared state when the statevector shortcut applies) with the caller's / prepared initial statevector and the desired mid-circuit results, hands THAT histogram with the term
    to the one-term estimator and adds coef * E_term (coef^2 * Var_term); an identity term adds coef without simulating; a term longer than the register raises ValueError.
    By induction the result is sum_t c_t E_t (sum_t c_t^2 Var_t) for operators of any size"""
    if not h.symbolic:
        h.check("native: covered by O4 / O5 / O6", True)
        h.done()
        return
    from tangelo.linq.target.backend import Backend
    n = 2
    shots, noisy, sv_avail = 100, st["noise"], st["sv"]

    class Opaque(Backend):
        def __init__(self):
            super().__init__(n_shots=shots, noise_model=({"X": ("pauli", [0.1, 0.0, 0.0])} if noisy else None))
            self.calls = []

        def simulate_circuit(self, *a, **k):
            raise AssertionError("opaque backend")

        def simulate(self, source_circuit, return_statevector=False, initial_statevector=None, desired_meas_result=None, save_mid_circuit_meas=False):
            rec = {"circuit": source_circuit, "rsv": return_statevector, "init": initial_statevector, "desired": desired_meas_result, "freqs": {"<opaque histogram>": len(self.calls)}}
            self.calls.append(rec)
            rec["token"] = ("statevector-of-call", len(self.calls)) if return_statevector else None
            return rec["freqs"], rec["token"]

        @staticmethod
        def backend_info():
            return {"statevector_available": sv_avail, "statevector_order": "lsq_first", "noisy_simulation": True, "n_qubits_max": 20}

    sim = Opaque()
    gates = build_prep(PREPS2[st["prep"]])
    mixed = any(g.name == "MEASURE" for g in gates)
    c = mk_circuit(gates, n)
    term = tuple((i, l) for i, l in st["term"])
    coef = h.real("coef")
    est_calls = []
    E = h.real("E_term")
    what = st["what"]
    stub(h, BK, "Backend.get_expectation_value_from_frequencies_oneterm", lambda a, k: E, log=est_calls)
    stub(h, BK, "Backend.get_variance_from_frequencies_oneterm", lambda a, k: E, log=est_calls)
    init = ("caller-statevector",) if st["init"] else None
    desired = "1" if mixed else None
    shortcut = sv_avail and not mixed and not noisy
    proto = _EstimatorLoop(h, what, term, coef, sim, [] if shortcut else list(c._gates), n, None, desired, est_calls)
    proto.est_value = E
    proto.acc0 = h.real("acc")

    class _Terms(StandIn):
        def items(self_):
            return proto

    class _Op(StandIn):
        terms = _Terms()

        def __repr__(self_):
            return "<operator with any number of terms>"
    fn = "Backend._get_expectation_value_from_frequencies" if what == "expectation" else "Backend._get_variance_from_frequencies"
    box = {}

    def run():
        h.numeric_pi()
        box["v"] = h.call(BK, fn, sim, _Op(), c, init, desired)
    # the initial statevector handed to the per-term simulations: the prepared state (shortcut) or the caller's
    pre_calls = sim.calls
    e = None
    try:
        # set the expected initial statevector lazily: on the shortcut route it is the token returned by the preparation call
        class _Lazy:
            pass
        orig_init = proto.init

        def init_hook(interp, env):
            orig_init(interp, env)
            if shortcut:
                ok = len(sim.calls) == 1 and sim.calls[0]["rsv"] is True and sim.calls[0]["circuit"] is c and sim.calls[0]["init"] is init and sim.calls[0]["desired"] == desired
                h.check("statevector shortcut: the state is prepared once, from the caller's initial statevector, with the desired results", ok)
                proto.init_sv = sim.calls[0]["token"] if sim.calls else None
            else:
                h.check("no preparation call on the mixed-state / noisy / statevector-less routes", sim.calls == [])
                proto.init_sv = init
        proto.init = init_hook
        e = h.raises(run, ValueError)
    finally:
        pass
    if len(term) > n:
        h.check("a term longer than the register is refused", e is not None)
        h.done()
        return
    h.check("no exception", e is None, detail=str(e))
    h.shape("the loop body was entered once for the generic term", proto.iterations == 1)
    h.done()


# ---------------------------------------------------------------------------------------------------------------------
# O7  histories on ONE backend object: operators and circuits updated IN PLACE between evaluations, changing initial states

HIST_STEPS = ["eval", "op_iadd", "op_imul", "op_setterm", "op_compress", "circ_add_gate", "init_v1", "init_v2", "init_none", "other_op", "other_circuit"]


def o7_structures(tier):
    import itertools as it
    sts = []
    for b in ("cirq", "sympy"):
        for prep in (0, 1):
            seqs = [list(x) for x in it.permutations(["op_iadd", "op_imul", "op_setterm", "circ_add_gate", "init_v1", "init_none", "other_op", "other_circuit", "op_compress", "init_v2"], 3)]
            step = 29 if tier == "quick" else 7
            for i, q in enumerate(seqs):
                if i % step == (prep * 3) % step:
                    sts.append({"backend": b, "prep": prep, "steps": q})
    return sts if tier != "quick" else [x for x in sts if x["backend"] == "cirq"] + [x for x in sts if x["backend"] == "sympy"][::4]


@contract("C02", "O7.expectation.histories_in_place_updates", level="B", structures=o7_structures, native_samples=lambda st, rnd, tier: [{}],
          targets=[(BK, "Backend.get_expectation_value"), (BK, "Backend._get_expectation_value_from_statevector"), (TGC, "CirqSimulator.expectation_value_from_prepared_state")])
def o7(h, st):
    """bounded: ONE backend object, ONE operator object and ONE circuit object used along a history in which, between evaluations, the operator is updated IN PLACE (+=, *=,
    a coefficient overwritten, compress), a gate is appended to the circuit, the initial statevector changes, or another operator / circuit is evaluated: after EVERY step
    get_expectation_value(operator, circuit[, initial statevector]) equals <psi|H|psi> for the CURRENT operator, circuit and initial state (independent evaluation, 1e-8) -
    no value computed for an earlier state of these objects is reused"""
    import numpy as np
    from tangelo.linq import get_backend
    from tangelo.toolboxes.operators import QubitOperator
    n = 3
    sim = get_backend(st["backend"])
    gates = build_prep(PREPS[st["prep"]])
    c = mk_circuit(gates, n)
    words = {"ZII": 0.7, "IXI": -1.3, "YYI": 0.45}
    qop = QubitOperator()
    for w, cf in words.items():
        qop += QubitOperator(tuple((i, p) for i, p in enumerate(w) if p != "I"), cf)
    other_op = QubitOperator(((2, "Z"),), 0.9) + QubitOperator(((0, "X"), (1, "X")), -0.2)
    other_words = {"IIZ": 0.9, "XXI": -0.2}
    other_gates = build_prep(PREPS[2])
    other_c = mk_circuit(other_gates, n)
    rs = np.random.default_rng(11)
    vs = []
    for _ in range(2):
        v = rs.normal(size=8) + 1j * rs.normal(size=8)
        vs.append(v / np.linalg.norm(v))
    init = None

    def exact(ws, gs, v0):
        return sum(cf * exact_expectation(gs, n, w, None, v0)[0] for w, cf in ws.items())

    order = sim.backend_info()["statevector_order"]
    perm = list(range(2 ** n)) if order == "lsq_first" else [int(format(i, f"0{n}b")[::-1], 2) for i in range(2 ** n)]

    def evaluate(tag, op, ws, circ, gs):
        args = [sim, op, circ]
        if init is not None:
            v = np.array(init)[perm]       # in the backend's advertised index order
            args.append(v if st["backend"] == "cirq" else v.reshape(-1, 1))
        val = h.call(BK, "Backend.get_expectation_value", *args)
        ev = exact(ws, gs, init)
        h.check(tag + "expectation value == <psi|H|psi> for the current operator, circuit and initial state", abs(complex(val) - ev) < 1e-8, detail=f"{val} vs {ev}")
    evaluate("initial evaluation: ", qop, words, c, gates)
    for k, step in enumerate(st["steps"]):
        tag = f"step {k} ({step}): "
        if step == "op_iadd":
            qop += QubitOperator(((1, "Z"), (2, "Z")), 0.31)
            words["IZZ"] = words.get("IZZ", 0) + 0.31
        elif step == "op_imul":
            qop *= 1.5
            words = {w: cf * 1.5 for w, cf in words.items()}
        elif step == "op_setterm":
            qop.terms[((0, "Z"),)] = -0.9
            words["ZII"] = -0.9
        elif step == "op_compress":
            qop.terms[((1, "X"),)] = 1e-12
            qop.compress()
            words.pop("IXI", None)
        elif step == "circ_add_gate":
            g = mk_gate("RY", 1, None, 0.6)
            c.add_gate(g)
            gates = gates + [g]
        elif step == "init_v1":
            init = vs[0]
        elif step == "init_v2":
            init = vs[1]
        elif step == "init_none":
            init = None
        elif step == "other_op":
            evaluate(tag + "(another operator) ", other_op, other_words, c, gates)
        elif step == "other_circuit":
            evaluate(tag + "(another circuit) ", qop, words, other_c, other_gates)
        evaluate(tag, qop, words, c, gates)
    h.done()


# ---------------------------------------------------------------------------------------------------------------------
# O8  the GENERIC statevector route (backends without a native expectation value): Pauli-circuit overlap, and its sampled variant

def _generic_backend(n_shots=None):
    """a cirq backend whose native expectation-value method is hidden, as on a backend that does not offer one: Backend._get_expectation_value_from_statevector then takes
    its own generic route (the installed backends both have a native method, so no other contract reaches those lines)"""
    from tangelo.linq.target.target_cirq import CirqSimulator

    class _NoNativeExpectation(CirqSimulator):
        def __getattribute__(self, name):
            if name == "expectation_value_from_prepared_state":
                raise AttributeError(name)
            return super().__getattribute__(name)
    return _NoNativeExpectation(n_shots=n_shots)


@contract("C02", "O8.generic_statevector_route", level="B",
          structures=lambda tier: [{"prep": p, "op": o, "init": it, "mode": md} for p in (0, 1, 2, 3) for o in range(len(OPS)) for it in (False, True) for md in ("exact", "direct", "sampled_certain")
                                   if not (p == 3 and md == "sampled_certain")],
          native_samples=lambda st, rnd, tier: [{"seed": rnd.randint(0, 10 ** 6)}],
          targets=[(BK, "Backend._get_expectation_value_from_statevector"), (BK, "Backend.get_expectation_value")])
def o8(h, st):
    """bounded (cirq simulation, 1e-8), on a backend WITHOUT a native expectation value: get_expectation_value (exact mode; real and complex coefficients, identity term,
    supplied initial statevector, desired mid-circuit result) and the direct call of the statevector route equal <psi|H|psi> computed independently; the sampled variant of
    the route (n_shots set) is exact whenever every outcome is certain (computational basis states, Z / identity words); the operator and the circuit are unchanged"""
    import random
    import numpy as np
    from tangelo.toolboxes.operators import QubitOperator
    rnd = random.Random(int(h.integer("seed")))
    n = 3
    mode = st["mode"]
    spec = PREPS[st["prep"]]
    words = list(OPS[st["op"]])
    if mode == "sampled_certain":
        # every outcome certain: a basis-state preparation and diagonal words
        spec = [("X", [0], None, ""), ("X", [2], None, "")] if st["prep"] % 2 == 0 else [("X", [1], None, ""), ("CNOT", [2], [1], "")]
        words = ["ZII", "IZZ", "III", "ZIZ"][: 2 + st["op"] % 3]
        if st["prep"] == 2 and not st["init"]:
            # eigenstates of X and Y on single qubits: certain after the basis rotation of the term (|+> on qubit 0, |-> on qubit 1, |+i> on qubit 2)
            spec = [("H", [0], None, ""), ("X", [1], None, ""), ("H", [1], None, ""), ("H", [2], None, ""), ("S", [2], None, "")]
            words = ["XII", "IXI", "IIY", "XXI", "XIY"][: 2 + st["op"] % 4]
    gates = build_prep(spec)
    mixed = any(g.name == "MEASURE" for g in gates)
    desired = "1" if mixed else None
    c = mk_circuit(gates, n)
    coefs = {w: (rnd.uniform(-1, 1) + (1j * rnd.uniform(-1, 1) if (mode == "exact" and st["op"] % 2 == 1) else 0)) for w in words}
    qop = QubitOperator()
    for w, cf in coefs.items():
        qop += QubitOperator(tuple((i, p_) for i, p_ in enumerate(w) if p_ != "I"), cf)
    init = None
    if st["init"]:
        if mode == "sampled_certain":
            init = np.zeros(2 ** n, dtype=complex)
            init[rnd.randrange(2 ** n)] = 1.0
        else:
            v = np.array([rnd.gauss(0, 1) + 1j * rnd.gauss(0, 1) for _ in range(2 ** n)])
            init = v / np.linalg.norm(v)
    ref = sum(cf * exact_expectation(gates, n, w, desired, init)[0] for w, cf in coefs.items())
    def circ_state():      # (the success probabilities / applied gates a simulation with mid-circuit measurements records on the circuit are documented outputs)
        return snapshot({k: v for k, v in c.__dict__.items() if k not in ("_probabilities", "_applied_gates")})
    op_before, c_before = snapshot(dict(qop.terms)), circ_state()
    sim = _generic_backend(n_shots=7 if mode == "sampled_certain" else None)
    args = [sim, qop, c, init] + ([desired] if desired else [])
    if mode == "exact":
        val = h.call(BK, "Backend.get_expectation_value", *args)
    else:
        val = h.call(BK, "Backend._get_expectation_value_from_statevector", *args)
    h.check("expectation value == <psi|H|psi> (generic statevector route)", abs(complex(val) - ref) < 1e-8, detail=f"{val} vs {ref}")
    h.check("operator unchanged", snapshot(dict(qop.terms)) == op_before)
    h.check("circuit unchanged", circ_state() == c_before)
    h.done()


from tverif.engine import repeatable
repeatable((MB, "measurement_basis_gates"))

PROPERTY = {
    "level": "other",
    "explanation": "One-term estimators (parity-weighted sums, variance) are proved for every frequency assignment, the basis rotations exactly "
                   "(R^dag Z R == P), and the frequency route is proved linear in the coefficients with the right per-term values (symbolic coefficients). "
                   "Route selection / forwarding of initial statevector and desired mid-circuit results is exercised from the AST on every route "
                   "against an independent exact evaluation (the simulators themselves are assumed). Unbounded: the term loops of both frequency routes for operators with ANY number of terms (P1, loop cut, simulate and the one-term estimators as callee contracts). Bounded histories (O7): one backend / operator / circuit object with in-place updates between evaluations. The GENERIC statevector route (Pauli-circuit overlap and its sampled variant), which no installed backend takes, is run on a backend whose native expectation value is hidden (O8, bounded).",
    "bounds": {"quick": "3-qubit preparations (4, one with a mid-circuit measurement) x 5 operators x 5 routes, cirq and sympy; histograms on <= 2 qubits", "thorough": "histograms on <= 3 qubits"},
    "assumptions": ["cirq / sympy simulators executed natively (assumed to return the state of the translated circuit; see C01)", "floats as reals; tolerance 1e-8 on simulated values",
                    "finite shots: only the deterministic case is checked exactly (no statistical tests)"],
    "trusted_base": ["tverif AST interpreter", "tverif.ring / qsem", "z3", "cirq", "sympy"],
}
