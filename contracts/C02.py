"""C02 -- Expectation values equal <psi|H|psi> on every evaluation path."""
import itertools
import math

from tverif.engine import contract, snapshot
from tverif import qsem, ring
from tverif.ring import Poly

BK = "tangelo/linq/target/backend.py"
MB = "tangelo/linq/helpers/circuits/measurement_basis.py"
TGC = "tangelo/linq/target/target_cirq.py"


def mk_gate(name, target, control=None, parameter="", is_variational=False):
    from tangelo.linq import Gate
    return Gate(name, target, control, parameter, is_variational)


def mk_circuit(gates, n_qubits=None):
    from tangelo.linq import Circuit
    return Circuit(gates, n_qubits=n_qubits)


def keys(n):
    return ["".join(b) for b in itertools.product("01", repeat=n)]


def subsets(n):
    out = []
    for k in range(n + 1):
        out += [list(c) for c in itertools.combinations(range(n), k)]
    return out


# O1/O2 one-term estimators ---------------------------------------------------------------------------------------------

@contract("C02", "O2.variance_oneterm", targets=[(BK, "get_variance_from_frequencies_oneterm"), (BK, "get_expectation_value_from_frequencies_oneterm")], level="S",
          structures=lambda tier: [{"n": n, "supp": s} for n in ((1, 2) if tier == "quick" else (1, 2, 3)) for s in subsets(n)],
          native_samples=lambda st, rnd, tier: [{f"f{k}": rnd.uniform(0.01, 1) for k in keys(st["n"])} for _ in range(3)])
def o2(h, st):
    """E == sum_b f[b] (-1)^{ones of b on supp}; Var == sum_b f[b] (E - s_b)^2, for every frequency assignment"""
    n, supp = st["n"], st["supp"]
    f = {k: h.real(f"f{k}") for k in keys(n)}
    term = tuple((i, "Z") for i in supp)
    E = h.call(BK, "get_expectation_value_from_frequencies_oneterm", term, f)
    V = h.call(BK, "get_variance_from_frequencies_oneterm", term, f)
    sgn = {k: (-1) ** sum(1 for i in supp if k[i] == "1") for k in f}
    expE = sum(sgn[k] * f[k] for k in f)
    h.check_close("expectation", E, expE)
    expV = sum(f[k] * (expE - sgn[k]) * (expE - sgn[k]) for k in f)
    h.check_close("variance", V, expV)
    h.done()


# O3 measurement basis --------------------------------------------------------------------------------------------------

@contract("C02", "O3.measurement_basis_gates", targets=[(MB, "measurement_basis_gates")], level="S",
          structures=lambda tier: [{"word": "".join(w)} for w in itertools.product("IXYZ", repeat=2)] + [{"word": "XYZ"}, {"word": "QZ"}])
def o3(h, st):
    """for the emitted rotation R (product over the letters): R^dag (Z..Z on the support) R == P(word) exactly; I/Z emit nothing; other letters raise"""
    _ = h.pi
    word = st["word"]
    term = tuple((i, p) for i, p in enumerate(word) if p != "I")
    if "Q" in word:
        e = h.raises(lambda: h.call(MB, "measurement_basis_gates", term), RuntimeError)
        h.check("unsupported letter raises", e is not None)
        h.done()
        return
    gates = h.call(MB, "measurement_basis_gates", term)
    n = len(word)
    h.check("one rotation per X / Y letter, none for I / Z", len(gates) == sum(1 for p in word if p in "XY"))
    R, A = qsem.unitary(gates, n, exact=True if h.symbolic else None)
    Zs = qsem.pauli_rows([(i, "Z") for i, p in enumerate(word) if p != "I"], n, A)
    P = qsem.pauli_rows([(i, p) for i, p in enumerate(word) if p != "I"], n, A)
    lhs = qsem.rows_mul(qsem.rows_mul(qsem.rows_dagger(R, A), Zs, A), R, A)
    h.mat_equal("R^dag Z R == P", lhs, P, A, n)
    h.done()


# O5 linearity of the frequency route in the coefficients ------------------------------------------------------------------

PREPS = [
    [("H", [0], None, ""), ("CNOT", [1], [0], ""), ("RY", [2], None, 0.7)],
    [("RX", [0], None, 1.1), ("RY", [1], None, -0.4), ("CZ", [2], [0], ""), ("H", [2], None, "")],
    [("X", [0], None, ""), ("X", [2], None, "")],
    [("H", [0], None, ""), ("MEASURE", [0], None, ""), ("RY", [1], None, 0.9), ("CNOT", [2], [1], "")],
]
OPS = [["ZII", "IXI", "YYI"], ["XXZ", "III", "ZZZ"], ["IIZ"], ["YIX", "ZIZ", "III"], ["XYZ", "ZXY"]]


def exact_expectation(prep_gates, n, word, desired=None, init=None):
    """<psi|P|psi> from qsem (numeric), with projection on mid-circuit outcomes when MEASURE gates are present"""
    import numpy as np
    psi = np.zeros(2 ** n, dtype=complex)
    psi[0] = 1
    if init is not None:
        psi = np.array(init, dtype=complex)
    k = 0
    for g in prep_gates:
        if g.name == "MEASURE":
            q = g.target[0]
            bit = int(desired[k])
            k += 1
            for i in range(2 ** n):
                if ((i >> (n - 1 - q)) & 1) != bit:
                    psi[i] = 0
            psi = psi / np.linalg.norm(psi)
        else:
            U = qsem.to_numpy(qsem.unitary([g], n, exact=False)[0], n)
            psi = U @ psi
    P = qsem.to_numpy(qsem.pauli_rows([(i, p) for i, p in enumerate(word) if p != "I"], n, qsem.Numeric), n)
    return float(np.real(psi.conj() @ P @ psi)), psi


def build_prep(spec):
    return [mk_gate(nm, t, c, p) for nm, t, c, p in spec]


@contract("C02", "O5.frequency_route.linearity", level="S", targets=[(BK, "Backend._get_expectation_value_from_frequencies"), (BK, "Backend.simulate"),
                                                                    (MB, "measurement_basis_gates"), (BK, "get_expectation_value_from_frequencies_oneterm")],
          structures=lambda tier: [{"prep": p, "op": o, "init": i} for p in range(len(PREPS)) for o in range(len(OPS)) for i in (False, True)],
          native_samples=lambda st, rnd, tier: [{f"c{j}": rnd.uniform(-2, 2) for j in range(3)} for _ in range(2)])
def o5(h, st):
    """_get_expectation_value_from_frequencies == sum_t c_t <psi|P_t|psi> as a linear form in the coefficients c_t (identity term contributes c),
    for every coefficient value; per-term circuits are the preparation followed by the basis rotation; desired mid-circuit results forwarded"""
    import numpy as np
    from tangelo.linq import get_backend
    from tangelo.toolboxes.operators import QubitOperator
    n = 3
    gates = build_prep(PREPS[st["prep"]])
    mixed = any(g.name == "MEASURE" for g in gates)
    words = OPS[st["op"]]
    cs = [h.real(f"c{j}") for j in range(len(words))]
    h.numeric_pi()
    qop = QubitOperator()
    for w, c in zip(words, cs):
        qop.terms[tuple((i, p) for i, p in enumerate(w) if p != "I")] = c
    sim = get_backend("cirq")
    c = mk_circuit(gates, n)
    desired = "1" if mixed else None
    init = None
    if st.get("init"):
        rs = np.random.default_rng(7)
        init = rs.normal(size=8) + 1j * rs.normal(size=8)
        init = init / np.linalg.norm(init)
    val = h.call(BK, "Backend._get_expectation_value_from_frequencies", sim, qop, c, init, desired)
    exps = [exact_expectation(gates, n, w, desired, init)[0] for w in words]
    if h.symbolic:
        val = Poly._coerce(val)
        lf = val.linear_form()
        h.check("result is a linear form in the coefficients", lf is not None)
        if lf is not None:
            lin, const = lf
            h.check("no constant offset", abs(float(const)) < 1e-9)
            for cj, e in zip(cs, exps):
                vid = cj.vars()[0].id
                h.check("coefficient of c_t is <psi|P_t|psi>", abs(float(lin.get(vid, 0)) - e) < 1e-8, detail=f"{float(lin.get(vid, 0))} vs {e}")
    else:
        h.check("value", abs(val - sum(cj * e for cj, e in zip(cs, exps))) < 1e-8)
    h.done()


# O4/O6 public routes ----------------------------------------------------------------------------------------------------

def routes(tier):
    sts = []
    for p in range(len(PREPS)):
        for o in range(len(OPS)):
            for route in ("plain", "initial_statevector", "complex", "variance", "stderr", "variance_init"):
                sts.append({"prep": p, "op": o, "route": route, "backend": "cirq"})
    for o in range(len(OPS)):
        sts.append({"prep": 2, "op": o, "route": "shots_deterministic", "backend": "cirq"})
        sts.append({"prep": "empty", "op": o, "route": "empty_circuit", "backend": "cirq"})
    for p in (0, 2):
        for o in (0, 2):
            sts.append({"prep": p, "op": o, "route": "plain", "backend": "sympy"})
    sts.append({"prep": 0, "op": "too_wide", "route": "too_wide", "backend": "cirq"})
    return sts


@contract("C02", "O4.get_expectation_value.routes", level="S", structures=routes,
          targets=[(BK, "Backend.get_expectation_value"), (BK, "Backend.get_variance"), (BK, "Backend.get_standard_error"),
                   (BK, "Backend._get_expectation_value_from_statevector"), (BK, "Backend._get_expectation_value_from_frequencies"),
                   (BK, "Backend._get_variance_from_frequencies"), (TGC, "CirqSimulator.expectation_value_from_prepared_state")])
def o4(h, st):
    """get_expectation_value == <psi|H|psi> (qsem, 1e-8) on every route: statevector, exact frequencies, supplied initial statevector, post-selection on
    desired mid-circuit results, complex coefficients; get_variance / get_standard_error accept the same arguments (desired results forwarded);
    deterministic shots give the exact value with zero variance; too-wide operators raise ValueError"""
    import numpy as np
    from tangelo.linq import get_backend
    from tangelo.toolboxes.operators import QubitOperator
    n = 3
    route = st["route"]
    if route == "too_wide":
        sim = get_backend("cirq")
        c = mk_circuit(build_prep(PREPS[0]), n)
        e = h.raises(lambda: h.call(BK, "Backend.get_expectation_value", sim, QubitOperator("Z0 Z1 Z2 Z3"), c), ValueError)
        h.check("operator wider than the circuit raises ValueError", e is not None)
        h.done()
        return
    gates = [] if st["prep"] == "empty" else build_prep(PREPS[st["prep"]])
    mixed = any(g.name == "MEASURE" for g in gates)
    words = OPS[st["op"]]
    coefs = [0.7, -1.3, 0.45][:len(words)]
    if route == "complex":
        coefs = [0.7 + 0.2j, -1.3, 0.45 - 1j][:len(words)]
    qop = QubitOperator()
    for w, cf in zip(words, coefs):
        qop += QubitOperator(tuple((i, p) for i, p in enumerate(w) if p != "I"), cf)
    desired = "1" if mixed else None
    sim = get_backend(st["backend"], n_shots=100) if route == "shots_deterministic" else get_backend(st["backend"])
    c = mk_circuit(gates, n)
    before = snapshot({k: v for k, v in c.__dict__.items() if k not in ("_probabilities", "_applied_gates")})
    init = None
    v0 = None
    if route in ("initial_statevector", "variance_init"):
        rs = np.random.default_rng(5)
        v0 = rs.normal(size=8) + 1j * rs.normal(size=8)
        v0 = v0 / np.linalg.norm(v0)
        init = v0
    def exact():
        tot = 0
        for w, cf in zip(words, coefs):
            e, _ = exact_expectation(gates, n, w, desired, v0)
            tot = tot + cf * e
        return tot
    if route in ("variance", "stderr", "variance_init"):
        name = "Backend.get_standard_error" if route == "stderr" else "Backend.get_variance"
        val = h.call(BK, name, sim, qop, c, init, desired)
        if route == "stderr":
            h.check("standard error is 0 without shots", val == 0.)
        else:
            # Var = sum_t c_t^2 (1 - E_t^2) for exact frequencies
            ev = sum(cf * cf * (1 - exact_expectation(gates, n, w, desired, v0)[0] ** 2) for w, cf in zip(words, coefs) if w.strip("I"))
            h.check("variance == sum c_t^2 (1 - <P_t>^2)", abs(val - ev) < 1e-8, detail=f"{val} vs {ev}")
    elif route == "shots_deterministic":
        zwords = [w for w in words if set(w) <= set("IZ")]
        qz = QubitOperator()
        for w in zwords:
            qz += QubitOperator(tuple((i, p) for i, p in enumerate(w) if p != "I"), 0.5)
        if not zwords:
            h.check("n/a", True)
            h.done()
            return
        val = h.call(BK, "Backend.get_expectation_value", sim, qz, c)
        ev = sum(0.5 * exact_expectation(gates, n, w)[0] for w in zwords)
        h.check("deterministic shots: exact value", abs(val - ev) < 1e-12)
        var = h.call(BK, "Backend.get_variance", sim, qz, c)
        h.check("deterministic shots: zero variance", abs(var) < 1e-12)
        se = h.call(BK, "Backend.get_standard_error", sim, qz, c)
        h.check("deterministic shots: zero standard error", abs(se) < 1e-12)
    else:
        val = h.call(BK, "Backend.get_expectation_value", sim, qop, c, init, desired)
        ev = exact()
        h.check("expectation value == <psi|H|psi>", abs(complex(val) - complex(ev)) < 1e-8, detail=f"{val} vs {ev}")
    h.check("state-preparation circuit unchanged", snapshot({k: v for k, v in c.__dict__.items() if k not in ("_probabilities", "_applied_gates")}) == before)
    h.done()


PROPERTY = {
    "level": "other",
    "explanation": "One-term estimators (parity-weighted sums, variance) are proved for every frequency assignment, the basis rotations exactly "
                   "(R^dag Z R == P), and the frequency route is proved linear in the coefficients with the right per-term values (symbolic coefficients). "
                   "Route selection / forwarding of initial statevector and desired mid-circuit results is exercised from the AST on every route "
                   "against an independent exact evaluation (the simulators themselves are assumed).",
    "bounds": {"quick": "3-qubit preparations (4, one with a mid-circuit measurement) x 5 operators x 5 routes, cirq and sympy; histograms on <= 2 qubits", "thorough": "histograms on <= 3 qubits"},
    "assumptions": ["cirq / sympy simulators executed natively (assumed to return the state of the translated circuit; see C01)", "floats as reals; tolerance 1e-8 on simulated values",
                    "finite shots: only the deterministic case is checked exactly (no statistical tests)"],
    "trusted_base": ["tverif AST interpreter", "tverif.ring / qsem", "z3", "cirq", "sympy"],
}
