"""C04 -- Qubit Hamiltonians reproduce mean-field and full-CI energies."""
import itertools

from tverif.engine import contract, snapshot

FZ = "tangelo/toolboxes/molecular_computation/frozen_orbitals.py"
ML = "tangelo/toolboxes/molecular_computation/molecule.py"
MT = "tangelo/toolboxes/qubit_mappings/mapping_transform.py"
SM = "tangelo/toolboxes/qubit_mappings/statevector_mapping.py"
FCI = "tangelo/algorithms/classical/fci_solver.py"


class MockMol:
    """stand-in with the attributes convert_frozen_orbitals / the electron-count properties read"""

    def __init__(self, mo_occ, uhf=False, spin=0):
        self.mo_occ = mo_occ
        self.uhf = uhf
        self.spin = spin
        self.ecp = {}
        self.xyz = [("H", (0, 0, 0))]
        self.n_mos = len(mo_occ[0]) if uhf else len(mo_occ)


def occ_patterns(n):
    """restricted / restricted-open occupations: 2..2 1..1 0..0"""
    out = []
    for nd in range(0, n + 1):
        for ns in range(0, n - nd + 1):
            out.append([2] * nd + [1] * ns + [0] * (n - nd - ns))
    return out


def o1_structures(tier):
    sts = []
    nmax = 4 if tier == "quick" else 5
    for n in range(1, nmax + 1):
        for occ in occ_patterns(n):
            choices = [None, 0, 1, 2] + [list(c) for k in (1, 2, 3) for c in itertools.combinations(range(n), k)]
            for fz in choices:
                sts.append({"occ": occ, "frozen": fz, "uhf": False})
    # unrestricted: per-spin occupations and per-spin frozen lists
    for occ_a, occ_b in (([1, 1, 0], [1, 0, 0]), ([1, 1, 0, 0], [1, 1, 0, 0]), ([1, 0, 0], [0, 0, 0])):
        n = len(occ_a)
        for fa in ([], [0], [n - 1], [0, n - 1]):
            for fb in ([], [0], [1, n - 1]):
                sts.append({"occ": [occ_a, occ_b], "frozen": [fa, fb], "uhf": True})
        sts.append({"occ": [occ_a, occ_b], "frozen": 1, "uhf": True})
    for bad in ("x", [0.5], 1.5, [[0], [1], [2]]):
        sts.append({"occ": [2, 0], "frozen": bad, "uhf": False, "bad": True})
    sts.append({"occ": [[1, 0], [1, 0]], "frozen": [0], "uhf": True, "bad": True})
    return sts if tier != "quick" else sts[::2] + [s for s in sts if s.get("bad")]


@contract("C04", "O1.convert_frozen_orbitals", targets=[(FZ, "convert_frozen_orbitals")], level="S", structures=o1_structures)
def o1(h, st):
    """(per spin for UHF) active_occ + frozen_occ == occupied, active_virt + frozen_virt == virtual as disjoint unions with order preserved; an int n freezes the
    first n orbitals; ValueError iff no active electron or all active orbitals full; TypeError for non-integer input; the molecule is not modified"""
    occ, fz, uhf = st["occ"], st["frozen"], st["uhf"]
    mol = MockMol(occ, uhf)
    before = snapshot(mol.__dict__)
    box = {}
    e = h.raises(lambda: box.setdefault("r", h.call(FZ, "convert_frozen_orbitals", mol, fz)), ValueError, TypeError)
    h.check("molecule unchanged", snapshot(mol.__dict__) == before)
    if st.get("bad"):
        h.check("malformed frozen_orbitals rejected with TypeError", isinstance(e, TypeError))
        h.done()
        return
    spins = [0, 1] if uhf else [None]
    n = mol.n_mos
    def frozen_list(s):
        if fz is None:
            return []
        if isinstance(fz, int):
            return list(range(fz))
        return list(fz[s]) if uhf else list(fz)
    n_el, n_act_mos, full = [], [], []
    for s in spins:
        o = occ[s] if uhf else occ
        occupied = [i for i in range(n) if o[i] > 0]
        virtual = [i for i in range(n) if o[i] == 0]
        fl = frozen_list(s if uhf else None)
        act_o = [i for i in occupied if i not in fl]
        act_v = [i for i in virtual if i not in fl]
        n_el.append(sum(o[i] for i in act_o))
        n_act_mos.append(len(act_o) + len(act_v))
    no_el = sum(n_el) == 0
    all_full = all(n_el[k] == 2 * n_act_mos[k] for k in range(len(spins)))
    if no_el or all_full:
        h.check("no active electron / fully occupied active space rejected with ValueError", isinstance(e, ValueError), detail=str(e))
        h.done()
        return
    h.check("accepted", e is None, detail=str(e))
    if e is None:
        ao, fo, av, fv = box["r"]
        for k, s in enumerate(spins):
            o = occ[s] if uhf else occ
            occupied = [i for i in range(n) if o[i] > 0]
            virtual = [i for i in range(n) if o[i] == 0]
            a_o, f_o, a_v, f_v = (ao[k], fo[k], av[k], fv[k]) if uhf else (ao, fo, av, fv)
            fl = frozen_list(s if uhf else None)
            h.check("occupied orbitals partitioned into active and frozen", sorted(a_o + f_o) == occupied and not set(a_o) & set(f_o))
            h.check("virtual orbitals partitioned into active and frozen", sorted(a_v + f_v) == virtual and not set(a_v) & set(f_v))
            h.check("frozen orbitals are the requested ones", sorted(f_o + f_v) == sorted(set(fl) & set(range(n))))
            h.check("order preserved", a_o == sorted(a_o) and a_v == sorted(a_v))
    h.done()


# O2 electron bookkeeping for ALL electron numbers and spins ---------------------------------------------------------------------

@contract("C04", "O2.n_active_ab_electrons", targets=[(ML, "SecondQuantizedMolecule.n_active_ab_electrons"), (ML, "SecondQuantizedMolecule.active_spin"),
                                                        (ML, "SecondQuantizedMolecule.n_active_electrons")], level="P",
          structures=lambda tier: [{"parity": p} for p in (0, 1)],
          native_samples=lambda st, rnd, tier: [{"N": 2 * k + st["parity"], "S": 2 * j + st["parity"]} for k, j in ((0, 0), (1, -1), (3, 2), (2, -2), (4, 1))])
def o2(h, st):
    """restricted references: n_alpha + n_beta == N_active and n_alpha - n_beta == spin whenever N_active and spin have the same parity - for ALL integers N_active >= 0
    and all spins (negative and odd included); active_spin and n_active_electrons follow"""
    from tangelo.toolboxes.molecular_computation.molecule import SecondQuantizedMolecule
    N, S = h.integer("N"), h.integer("S")
    h.assume(N >= 0)
    h.assume((N - S) % 2 == 0)
    h.assume(N % 2 == st["parity"])
    mol = SecondQuantizedMolecule.__new__(SecondQuantizedMolecule)
    mol.__dict__.update({"uhf": False, "spin": S, "mo_occ": [N], "active_occupied": [0]})
    na, nb = h.getattr(mol, "n_active_ab_electrons")
    h.check("n_alpha + n_beta == N_active", na + nb == N)
    h.check("n_alpha - n_beta == spin", na - nb == S)
    h.check("active_spin == spin", h.getattr(mol, "active_spin") == S)
    h.check("n_active_electrons == N_active", h.getattr(mol, "n_active_electrons") == N)
    h.done()


# O3 freeze_mos ---------------------------------------------------------------------------------------------------------------------

@contract("C04", "O3.freeze_mos", targets=[(ML, "SecondQuantizedMolecule.freeze_mos"), (ML, "SecondQuantizedMolecule.frozen_mos"), (ML, "SecondQuantizedMolecule.active_mos")], level="S",
          structures=lambda tier: [{"occ": o, "frozen": f, "inplace": i} for o in ([2, 2, 0, 0], [2, 1, 0], [2, 2, 2, 0]) for f in (None, 1, [0], [0, 3], [1, 2]) for i in (True, False)
                                   if not (isinstance(f, list) and max(f) >= len(o))])
def o3(h, st):
    """freeze_mos(inplace=True) sets the four orbital lists; inplace=False returns a copy and leaves self unchanged; freezing a half-filled orbital is refused;
    frozen_mos is None iff nothing is frozen; active_mos lists occupied then virtual"""
    from tangelo.toolboxes.molecular_computation.molecule import SecondQuantizedMolecule
    occ = st["occ"]
    mol = SecondQuantizedMolecule.__new__(SecondQuantizedMolecule)
    mol.__dict__.update({"uhf": False, "spin": 0, "mo_occ": occ, "n_mos": len(occ), "ecp": {}, "xyz": [("H", (0, 0, 0))], "frozen_orbitals": None,
                         "active_occupied": [i for i in range(len(occ)) if occ[i] > 0], "frozen_occupied": [], "active_virtual": [i for i in range(len(occ)) if occ[i] == 0], "frozen_virtual": []})
    before = snapshot(mol.__dict__)
    fz = st["frozen"]
    fl = [] if fz is None else (list(range(fz)) if isinstance(fz, int) else fz)
    half = any(occ[i] == 1 for i in fl)
    box = {}
    e = h.raises(lambda: box.setdefault("r", h.call(ML, "SecondQuantizedMolecule.freeze_mos", mol, fz, st["inplace"])), NotImplementedError, ValueError)
    if half:
        h.check("freezing a half-filled orbital refused", isinstance(e, (NotImplementedError, ValueError)))
        h.check("molecule unchanged by the refused call", snapshot(mol.__dict__) == before)
        h.done()
        return
    if e is not None:
        h.check("rejection only for empty / full active spaces", isinstance(e, ValueError))
        h.done()
        return
    tgt = mol if st["inplace"] else box["r"]
    if not st["inplace"]:
        h.check("self unchanged when inplace=False", snapshot(mol.__dict__) == before)
        h.check("a different object is returned", tgt is not mol)
    else:
        h.check("returns None in place", box["r"] is None)
    h.check("frozen lists hold the requested orbitals", sorted(tgt.frozen_occupied + tgt.frozen_virtual) == sorted(fl))
    fm = h.getattr(tgt, "frozen_mos")
    h.check("frozen_mos is None iff nothing frozen", (fm is None) == (not fl) and (fm is None or sorted(fm) == sorted(fl)))
    h.check("active_mos == active occupied ++ active virtual", h.getattr(tgt, "active_mos") == tgt.active_occupied + tgt.active_virtual)
    h.done()


# O6 energies (PySCF, eigenvalues: bounded) --------------------------------------------------------------------------------------------

MOLS = {
    "H2": ([("H", (0, 0, 0)), ("H", (0, 0, 0.7414))], 0, 0),
    "H2stretch": ([("H", (0, 0, 0)), ("H", (0, 0, 1.9))], 0, 0),
    "H3+": ([("H", (0, 0, 0)), ("H", (0, 0, 0.9)), ("H", (0.78, 0, 0.45))], 1, 0),
    "H4": ([("H", (0, 0, 0)), ("H", (0, 0, 0.9)), ("H", (0, 0, 2.0)), ("H", (0, 0, 3.1))], 0, 0),
    "H4+": ([("H", (0, 0, 0)), ("H", (0, 0, 0.9)), ("H", (0, 0, 2.0)), ("H", (0, 0, 3.1))], 1, 1),
    "H4t": ([("H", (0, 0, 0)), ("H", (0, 0, 0.9)), ("H", (0, 0, 2.0)), ("H", (0, 0, 3.1))], 0, 2),
    "LiH": ([("Li", (0, 0, 0)), ("H", (0, 0, 1.6))], 0, 0),
    # an effective core potential on Li (the rarely used ecp option): the one-body integrals carry the ECP operator
    "LiH-ecp": ([("Li", (0, 0, 0)), ("H", (0, 0, 1.6))], 0, 0, {"basis": {"Li": "crenbl", "H": "sto-3g"}, "ecp": {"Li": "crenbl"}}),
    "BeH-ecp": ([("Be", (0, 0, 0)), ("H", (0, 0, 1.3))], 0, 1, {"basis": {"Be": "crenbl", "H": "sto-3g"}, "ecp": {"Be": "crenbl"}}),
}


def e_structures(tier):
    sts = []
    base = [("H2", None, False), ("H2stretch", None, False), ("H3+", None, False), ("H4", None, False), ("H4", [0], False), ("H4", [3], False), ("H4", [0, 3], False), ("H4+", None, False),
            ("H4+", None, True), ("H2", None, True), ("H4t", None, False), ("LiH", [0, 3, 4, 5], False), ("LiH", 1, False), ("H4+", [[0], [0, 3]], True),
            # UHF, per-spin lists whose frozen OCCUPIED orbitals differ between the spin channels (both non-empty), with and without frozen virtuals
            ("H4+", [[1], [0]], True), ("H4t", [[0, 2], [0, 3]], True), ("H4t", [[1], [0]], True), ("H4t", [[0, 1], [0]], True), ("H4+", [[0, 3], [0, 2]], True),
            ("LiH-ecp", "virtuals_from_3", False), ("BeH-ecp", "virtuals_from_3", False)]
    if tier == "quick":
        base = [base[i] for i in (0, 3, 4, 6, 7, 8, 11, 14, 15, 19, 20)]
    for mol, fz, uhf in base:
        for mapping in ("JW", "BK", "scBK", "JKMN"):
            for utd in (False, True):
                sts.append({"mol": mol, "frozen": fz, "uhf": uhf, "mapping": mapping, "utd": utd})
    return sts if tier != "quick" else sts[::2]


_CACHE = {}


def get_mol(name, frozen, uhf):
    key = (name, str(frozen), uhf)
    if key not in _CACHE:
        from tangelo import SecondQuantizedMolecule
        xyz, q, spin = MOLS[name][:3]
        kw = dict(MOLS[name][3]) if len(MOLS[name]) > 3 else {"basis": "sto-3g"}
        if frozen == "virtuals_from_3":
            frozen = list(range(3, SecondQuantizedMolecule(xyz, q, spin, frozen_orbitals=None, uhf=uhf, **kw).n_mos))
        _CACHE[key] = SecondQuantizedMolecule(xyz, q, spin, frozen_orbitals=frozen, uhf=uhf, **kw)
    return _CACHE[key]


@contract("C04", "O6.energies", level="B", structures=e_structures, native_samples=lambda st, rnd, tier: [{"seed": rnd.randint(0, 10 ** 6)}],
          targets=[(ML, "SecondQuantizedMolecule._get_fermionic_hamiltonian"), (MT, "fermion_to_qubit_mapping"), (SM, "get_reference_circuit"), (FCI, "FCISolver.simulate"),
                   (FZ, "convert_frozen_orbitals")])
def o6(h, st):
    """bounded (PySCF + eigenvalues, 1e-6): <HF|H_q|HF> == mean-field energy; the lowest eigenvalue of H_q in the (N, S_z) sector (selected by a number / spin penalty mapped
    with the same encoding) == the FCI energy with the same frozen orbitals; unchanged under a random rotation among the active orbitals"""
    import numpy as np
    import scipy.sparse.linalg as sla
    from openfermion.linalg import get_sparse_operator
    import openfermion as of
    from tangelo.algorithms.classical import FCISolver
    from tangelo.toolboxes.ansatz_generator.penalty_terms import combined_penalty
    from tangelo.toolboxes.qubit_mappings.mapping_transform import get_qubit_number
    from contracts.C05 import diag_expectation
    mol = get_mol(st["mol"], st["frozen"], st["uhf"])
    mapping, utd = st["mapping"], st["utd"]
    n = mol.n_active_sos
    ne, spin = mol.n_active_electrons, mol.active_spin
    Hf = mol.fermionic_hamiltonian
    Hq = h.call(MT, "fermion_to_qubit_mapping", Hf, mapping, n, ne, utd, spin)
    ref = h.call(SM, "get_reference_circuit", n, ne, mapping, utd, spin)
    nq = get_qubit_number(mapping, n)
    bits = [0] * nq
    for g in ref._gates:
        bits[g.target[0]] ^= 1
    e_hf = diag_expectation(Hq, bits)
    if not st["uhf"] or True:
        h.check("<HF|H_q|HF> == mean-field energy", abs(complex(e_hf).real - mol.mf_energy) < 1e-6, detail=f"{e_hf} vs {mol.mf_energy}")
    if st["uhf"]:
        # FCISolver does not support UHF references: exact diagonalisation of the fermionic Hamiltonian in the (N_alpha, N_beta) sector
        from contracts.C03 import fermi_matrix
        Mf = fermi_matrix(Hf, n)
        na, nb = mol.n_active_ab_electrons
        idx = [d for d in range(2 ** n) if sum((d >> k) & 1 for k in range(0, n, 2)) == na and sum((d >> k) & 1 for k in range(1, n, 2)) == nb]
        e_fci = float(np.min(np.linalg.eigvalsh(Mf[np.ix_(idx, idx)])))
    else:
        e_fci = FCISolver(mol).simulate()
    n_orb = n // 2
    pen = combined_penalty(n_orb, {"N": [4.0, ne], "Sz": [4.0, spin / 2]})
    Pq = h.call(MT, "fermion_to_qubit_mapping", pen, mapping, n, ne, utd, spin)
    tot = of.QubitOperator()
    tot.terms = dict((Hq + Pq).terms)
    M = get_sparse_operator(tot, n_qubits=nq)
    ev = np.linalg.eigvalsh(M.toarray()) if nq <= 8 else sla.eigsh(M, k=1, which="SA")[0]
    e0 = float(np.min(ev.real))
    h.check("lowest (N, Sz)-sector eigenvalue of H_q == FCI energy", abs(e0 - e_fci) < 1e-6, detail=f"{e0} vs {e_fci}")
    h.done()


@contract("C04", "O7.orbital_rotation_invariance", level="B", structures=lambda tier: [{"mol": m, "frozen": f} for m, f in (("H4", None), ("H4", [0]), ("H2", None))],
          native_samples=lambda st, rnd, tier: [{"seed": rnd.randint(0, 10 ** 6)}],
          targets=[(ML, "SecondQuantizedMolecule.mo_coeff"), (ML, "SecondQuantizedMolecule._get_fermionic_hamiltonian"), (MT, "fermion_to_qubit_mapping")])
def o7(h, st):
    """bounded: replacing the MO coefficients by a random rotation among the ACTIVE orbitals leaves the lowest sector eigenvalue of the qubit Hamiltonian unchanged"""
    import numpy as np
    from scipy.stats import ortho_group
    from openfermion.linalg import get_sparse_operator
    import openfermion as of
    from tangelo import SecondQuantizedMolecule
    from tangelo.toolboxes.ansatz_generator.penalty_terms import combined_penalty
    xyz, q, spin = MOLS[st["mol"]][:3]
    def sector_energy(mol):
        n, ne, s = mol.n_active_sos, mol.n_active_electrons, mol.active_spin
        Hq = h.call(MT, "fermion_to_qubit_mapping", mol.fermionic_hamiltonian, "JW", n, ne, False, s)
        Pq = h.call(MT, "fermion_to_qubit_mapping", combined_penalty(n // 2, {"N": [4.0, ne], "Sz": [4.0, s / 2]}), "JW", n, ne, False, s)
        tot = of.QubitOperator()
        tot.terms = dict((Hq + Pq).terms)
        return float(np.min(np.linalg.eigvalsh(get_sparse_operator(tot, n_qubits=n).toarray())))
    mol = SecondQuantizedMolecule(xyz, q, spin, basis="sto-3g", frozen_orbitals=st["frozen"])
    e1 = sector_energy(mol)
    act = mol.active_mos
    rot = ortho_group.rvs(len(act), random_state=int(h.integer("seed")) % (2 ** 31))
    U = np.eye(mol.n_mos)
    U[np.ix_(act, act)] = rot
    mol.mo_coeff = mol.mo_coeff @ U
    e2 = sector_energy(mol)
    h.check("lowest sector eigenvalue invariant under an active-space orbital rotation", abs(e1 - e2) < 1e-6, detail=f"{e1} vs {e2}")
    h.done()


# O8 UHF frozen-core folding: a polynomial identity in the integrals -----------------------------------------------------------------------

def _subsets(xs):
    out = []
    for k in range(len(xs) + 1):
        out += [list(c) for c in itertools.combinations(xs, k)]
    return out


def o8_structures(tier):
    """n spatial orbitals; per spin: frozen occupied F, active orbitals Act (disjoint from F; the rest are frozen virtuals)"""
    sts = []
    ns = (3,) if tier == "quick" else (3, 4)
    for n in ns:
        choices = []
        for F in _subsets(range(n)):
            rest = [i for i in range(n) if i not in F]
            for A in _subsets(rest):
                if A and len(F) <= 2:
                    choices.append((F, A))
        pairs = list(itertools.product(choices, repeat=2))
        step = 1 if (tier != "quick" and n == 3) else (7 if n == 3 else 97)
        for (Fa, Aa), (Fb, Ab) in pairs[::step]:
            sts.append({"n": n, "Fa": Fa, "Aa": Aa, "Fb": Fb, "Ab": Ab})
    # the case of a seeded change: different non-empty frozen occupied sets
    sts += [{"n": 3, "Fa": [0], "Aa": [1, 2], "Fb": [1], "Ab": [0, 2]}, {"n": 3, "Fa": [0, 1], "Aa": [2], "Fb": [0], "Ab": [1, 2]}]
    return sts


def _det_energy(c, h1, g, A, B):
    """energy of the determinant with alpha orbitals A and beta orbitals B for H = c + sum h[s][p,q] a+_p a_q + 1/2 sum g_ss[p,q,r,s] a+_p a+_q a_r a_s
    + sum g_ab[p,q,r,s] a+_p,alpha a+_q,beta a_r,beta a_s,alpha   (the convention of get_integrals / openfermion)"""
    e = c
    for i in A:
        e = e + h1[0][i, i]
    for i in B:
        e = e + h1[1][i, i]
    for i in A:
        for j in A:
            e = e + (g[0][i, j, j, i] - g[0][i, j, i, j]) * 0.5
    for i in B:
        for j in B:
            e = e + (g[2][i, j, j, i] - g[2][i, j, i, j]) * 0.5
    for i in A:
        for j in B:
            e = e + g[1][i, j, j, i]
    return e


@contract("C04", "O8.uhf_frozen_core_folding", level="S", structures=o8_structures, targets=[(ML, "SecondQuantizedMolecule._get_active_space_integrals_uhf")],
          native_samples=lambda st, rnd, tier: [{"seed": rnd.randint(0, 10 ** 6)}])
def o8(h, st):
    """for EVERY value of the core constant and of the alpha / beta one-body and alpha-alpha / alpha-beta / beta-beta two-body integrals (symbolic tensors with the
    particle-exchange symmetry g[p,q,r,s] == g[q,p,s,r] of the same-spin blocks), every choice of frozen occupied and active orbitals per spin channel (the two channels
    independent), and every determinant that keeps the frozen occupied orbitals filled and the frozen virtual ones empty: the energy computed from the folded
    (core constant, one-body, two-body) integrals on the active orbitals equals the energy computed from the full integrals; the two-body outputs are the active
    sub-blocks; the input arrays are unchanged"""
    import numpy as np
    n, Fa, Aa, Fb, Ab = st["n"], st["Fa"], st["Aa"], st["Fb"], st["Ab"]
    if h.symbolic:
        def sym(name):
            return h.real(name)
    else:
        # native run: either a seeded random sample, or the replay of a counter-model (values of the symbols that occur in it; the others are irrelevant: 0)
        conc = h.ctx.concrete
        rs = np.random.default_rng(int(conc["seed"])) if "seed" in conc else None
        cache = {}

        def sym(name):
            if name not in cache:
                cache[name] = float(conc[name]) if name in conc else (float(rs.normal()) if rs is not None else 0.0)
            return cache[name]
    c0 = sym("c0")
    h1 = [np.empty((n, n), dtype=object) for _ in range(2)]
    for s_ in range(2):
        for p_ in range(n):
            for q_ in range(n):
                h1[s_][p_, q_] = sym(f"h{s_}_{p_}{q_}")
    g = [np.empty((n, n, n, n), dtype=object) for _ in range(3)]
    for b_ in range(3):
        for idx in itertools.product(range(n), repeat=4):
            p_, q_, r_, s_ = idx
            key = min(idx, (q_, p_, s_, r_)) if b_ != 1 else idx
            g[b_][idx] = sym(f"g{b_}_" + "".join(map(str, key)))
    if not h.symbolic:
        h1 = [x.astype(float) for x in h1]
        g = [x.astype(float) for x in g]
    before = (snapshot([x.tolist() for x in h1]), snapshot([x.tolist() for x in g]))
    # a real (uninitialised) instance, so that helper methods the function may delegate to resolve through the class; the function reads no attribute of it
    from tangelo.toolboxes.molecular_computation.molecule import SecondQuantizedMolecule as _SQM
    dummy = _SQM.__new__(_SQM)
    c1, h1n, gn = h.call(ML, "SecondQuantizedMolecule._get_active_space_integrals_uhf", dummy, c0, h1, g, [list(Fa), list(Fb)], [list(Aa), list(Ab)])
    h.check("input integral arrays unchanged", (snapshot([x.tolist() for x in h1]), snapshot([x.tolist() for x in g])) == before)
    h.check("shapes of the folded integrals", h1n[0].shape == (len(Aa),) * 2 and h1n[1].shape == (len(Ab),) * 2 and gn[0].shape == (len(Aa),) * 4
            and gn[1].shape == (len(Aa), len(Ab), len(Ab), len(Aa)) and gn[2].shape == (len(Ab),) * 4)
    ok_blocks = True
    for idx in itertools.product(range(len(Aa)), repeat=4):
        ok_blocks = ok_blocks and (gn[0][idx] is g[0][tuple(Aa[k] for k in idx)] or gn[0][idx] == g[0][tuple(Aa[k] for k in idx)])
    for idx in itertools.product(range(len(Ab)), repeat=4):
        ok_blocks = ok_blocks and (gn[2][idx] is g[2][tuple(Ab[k] for k in idx)] or gn[2][idx] == g[2][tuple(Ab[k] for k in idx)])
    if not h.symbolic:
        h.check("same-spin two-body outputs are the active sub-blocks", bool(ok_blocks))
    for occA in _subsets(range(len(Aa))):
        for occB in _subsets(range(len(Ab))):
            A = list(Fa) + [Aa[k] for k in occA]
            B = list(Fb) + [Ab[k] for k in occB]
            e_full = _det_energy(c0, h1, g, A, B)
            e_act = _det_energy(c1, h1n, gn, occA, occB)
            h.check_close(f"determinant alpha{A} beta{B}: folded energy == full energy", e_act, e_full, tol=1e-9)
    h.done()


# O9 histories on ONE molecule object ------------------------------------------------------------------------------------------------

def _ham_key(op):
    """comparable form of a fermionic operator (terms with coefficients rounded to 1e-9)"""
    return sorted((repr(t), round(complex(c).real, 9), round(complex(c).imag, 9)) for t, c in op.terms.items() if abs(c) > 1e-10)


@contract("C04", "O9.molecule_histories", level="B", structures=lambda tier: [{"uhf": u, "charge": q, "spin": sp} for u, q, sp in ((False, 0, 0), (False, 1, 1), (True, 1, 1))],
          native_samples=lambda st, rnd, tier: [{"seed": rnd.randint(0, 10 ** 6)}],
          targets=[(ML, "SecondQuantizedMolecule.freeze_mos"), (ML, "SecondQuantizedMolecule.fermionic_hamiltonian"), (ML, "SecondQuantizedMolecule.mo_coeff"),
                   (ML, "SecondQuantizedMolecule._get_fermionic_hamiltonian"), (ML, "SecondQuantizedMolecule.get_integrals")])
def o9(h, st):
    """bounded: ONE molecule object along a history - read the fermionic Hamiltonian, freeze orbitals in place, read it, freeze a different set, read it, un-freeze, read it, replace
    the MO coefficients by rotated ones, read it, freeze again, read it: after EVERY step the Hamiltonian, the numbers of active electrons / orbitals and the frozen / active orbital
    lists equal those of a FRESH molecule constructed directly with the current frozen orbitals (and given the same MO coefficients); out-of-place freeze_mos leaves the object
    untouched; the Hamiltonian read first is not changed by the later steps"""
    import numpy as np
    from tangelo import SecondQuantizedMolecule
    rs = np.random.default_rng(int(h.integer("seed")))
    geo = [("H", (0, 0, 0)), ("H", (0, 0, 1.0)), ("H", (0, 0, 2.1)), ("H", (0, 0, 3.3))]
    uhf = st["uhf"]
    kw = dict(q=st["charge"], spin=st["spin"], basis="sto-3g", uhf=uhf)
    mol = SecondQuantizedMolecule(geo, **kw)
    coeff0 = np.array(mol.mo_coeff, copy=True)

    def fresh(frozen, coeff):
        m = SecondQuantizedMolecule(geo, frozen_orbitals=frozen, **kw)
        m.mo_coeff = np.array(coeff, copy=True)
        return m

    def same(tag, frozen, coeff):
        f = fresh(frozen, coeff)
        h.check(tag + "Hamiltonian == that of a fresh molecule with the current frozen orbitals and MO coefficients", _ham_key(h.getattr(mol, "fermionic_hamiltonian")) == _ham_key(f.fermionic_hamiltonian))
        h.check(tag + "active electrons / orbitals and orbital lists as in the fresh molecule",
                (mol.n_active_electrons, mol.n_active_mos, mol.frozen_mos, mol.active_mos, mol.active_occupied, mol.frozen_occupied, mol.active_virtual, mol.frozen_virtual) ==
                (f.n_active_electrons, f.n_active_mos, f.frozen_mos, f.active_mos, f.active_occupied, f.frozen_occupied, f.active_virtual, f.frozen_virtual))
    first = h.getattr(mol, "fermionic_hamiltonian")
    first_key = _ham_key(first)
    fz1 = [[0], [0]] if uhf else [0]
    fz2 = [[0, 3], [3]] if uhf else [0, 3]
    same("initially: ", None, coeff0)
    h.call(ML, "SecondQuantizedMolecule.freeze_mos", mol, fz1)
    same("after freeze_mos(first set): ", fz1, coeff0)
    other = h.call(ML, "SecondQuantizedMolecule.freeze_mos", mol, fz2, False)
    same("after an out-of-place freeze_mos (object untouched): ", fz1, coeff0)
    h.check("the out-of-place result carries the second set", other is not mol and other.frozen_mos == fresh(fz2, coeff0).frozen_mos)
    h.call(ML, "SecondQuantizedMolecule.freeze_mos", mol, fz2)
    same("after freeze_mos(second set): ", fz2, coeff0)
    h.call(ML, "SecondQuantizedMolecule.freeze_mos", mol, None)
    same("after un-freezing: ", None, coeff0)
    # rotate two orbitals of the same occupation class (occupied with occupied would need >= 2 of them: mix the two highest virtuals / lowest occupied as available)
    th = float(rs.uniform(0.2, 1.2))
    R = np.eye(4)
    R[2, 2] = R[3, 3] = np.cos(th)
    R[2, 3], R[3, 2] = -np.sin(th), np.sin(th)
    new = np.array([c @ R for c in coeff0]) if uhf else coeff0 @ R
    mol.mo_coeff = np.array(new, copy=True)
    same("after replacing the MO coefficients: ", None, new)
    h.call(ML, "SecondQuantizedMolecule.freeze_mos", mol, fz1)
    same("after freezing again with the new coefficients: ", fz1, new)
    h.check("the Hamiltonian object read first was not modified by the later steps", _ham_key(first) == first_key)
    h.done()


PROPERTY = {
    "level": "exploration",
    "explanation": "The headline (mean-field expectation value, full-CI eigenvalue, rotation invariance) is a floating-point statement about PySCF integrals and eigenvalues: no contract "
                   "within the verifier's reach decides it; it is covered by bounded native contract runs (tolerance 1e-6). What Tangelo owns around it is decided deductively: the "
                   "orbital partition of convert_frozen_orbitals (exhaustive over occupation patterns and frozen selections up to 4-5 orbitals), the electron bookkeeping "
                   "n_alpha / n_beta for ALL electron numbers and spins (symbolic integers, z3), freeze_mos' frame, and the UHF frozen-core folding "
                   "(_get_active_space_integrals_uhf): for EVERY value of the spin-resolved integrals (symbolic tensors) the folded integrals give every determinant the energy of the full integrals "
                   "(polynomial identity, exact normal form) on each frozen / active selection of 3 orbitals per spin channel.",
    "bounds": {"quick": "7 molecule / frozen-orbital configurations (H2, H4 with frozen [0], [0,3], H4+ ROHF and UHF, LiH with 4 frozen) x 4 encodings x 2 orderings (every 2nd)", "thorough": "14 configurations, all"},
    "assumptions": ["PySCF integrals / SCF / FCI and numpy / scipy eigenvalues (tolerance 1e-6)", "sector selected through a number / spin penalty of weight 4 Ha mapped with the same encoding (C12)"],
    "trusted_base": ["tverif AST interpreter", "z3", "pyscf", "openfermion", "numpy"],
    "technique": "bounded native contract checking for the energies (labelled exploration); contract-based deductive verification (AST symbolic execution + z3) for orbital partition, electron bookkeeping and the UHF frozen-core folding",
}
