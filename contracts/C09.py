"""C09 -- Circuit transformations preserve the implemented operation."""
import itertools
import math
from fractions import Fraction

from tverif.engine import contract, snapshot
from tverif import qsem, ring
from tverif.ring import Poly

G = "tangelo/linq/gate.py"
C = "tangelo/linq/circuit.py"
CL = "tangelo/linq/helpers/circuits/clifford_circuits.py"

PARAM = {"RX", "RY", "RZ", "PHASE", "CRX", "CRY", "CRZ", "CPHASE", "XX"}
INVERTIBLE = ["H", "X", "Y", "Z", "S", "T", "RX", "RY", "RZ", "CH", "PHASE", "CNOT", "CX", "CY", "CZ", "CRX", "CRY", "CRZ", "CPHASE", "XX",
              "SWAP", "CSWAP"]
TWO_TARGET = {"XX", "SWAP", "CSWAP"}


def mk_gate(name, target, control=None, parameter="", is_variational=False):
    from tangelo.linq import Gate
    return Gate(name, target, control, parameter, is_variational)


def circ_rows(gates, n, h):
    return qsem.unitary(gates, n, exact=h.symbolic)


# ---------------------------------------------------------------------------------------------------------------------
# O1/O2  Gate.inverse

def o2_structures(tier):
    sts = []
    for name in INVERTIBLE:
        ctrl = name.startswith("C")
        for nc in ((1, 2) if ctrl else (0,)):
            sts.append({"name": name, "ncontrols": nc})
    return sts


@contract("C09", "O2.Gate.inverse", targets=[(G, "Gate.inverse"), (G, "Gate.__init__")], level="S", structures=o2_structures,
          native_samples=lambda st, rnd, tier: [{"theta": v} for v in (0.0, 0.37, -2.2, 6.9, 13.0)] if st["name"] in PARAM else [{}])
def o2(h, st):
    """ensures U(g.inverse()) @ U(g) == 1 exactly, same qubits, variational flag kept; for every real parameter"""
    name = st["name"]
    nt = 2 if name in TWO_TARGET else 1
    target = list(range(nt))
    control = list(range(nt, nt + st["ncontrols"])) or None
    theta = h.real("theta", angle_denom=2) if name in PARAM else ""
    g = mk_gate(name, target, control, theta, True)
    before = snapshot(g.__dict__)
    gi = h.call(G, "Gate.inverse", g)
    n = nt + st["ncontrols"]
    U, A = circ_rows([g, gi], n, h)
    h.mat_equal("U(g.inverse()) U(g) == 1", U, qsem.identity_rows(n, A), A, n)
    h.check("same qubits", gi.target == target and gi.control == control)
    h.check("variational flag kept", gi.is_variational is True)
    h.check("gate unchanged", snapshot(g.__dict__) == before)
    h.check("fresh object", gi is not g and gi.target is not g.target)
    h.done()


@contract("C09", "O1.Gate.inverse.non_invertible", targets=[(G, "Gate.inverse")], level="S",
          structures=lambda tier: [{"name": n} for n in ("MEASURE", "CMEASURE", "POTATO", "SDAG")] + [{"name": "RX", "param": "alpha"}])
def o1(h, st):
    """raises AttributeError for gates outside INVERTIBLE_GATES and for non-numeric parameters"""
    g = mk_gate(st["name"], 0, None, st.get("param", ""))
    e = h.raises(lambda: h.call(G, "Gate.inverse", g), AttributeError)
    h.check("raises AttributeError", e is not None)
    h.done()


# ---------------------------------------------------------------------------------------------------------------------
# O3  Gate.__eq__ soundness

def o3_structures(tier):
    sts = []
    for name in sorted(PARAM):
        for k in (-2, -1, 0, 1, 2):
            sts.append({"name": name, "k": k, "nc": 1 if name.startswith("C") else 0})
        if name.startswith("C"):
            sts.append({"name": name, "k": 1, "nc": 2})
    # same name, same qubit set, different roles / order (with the same parameter, and shifted by 2 pi): == must imply the same operation
    for name in INVERTIBLE:
        if name.startswith("C") or name in TWO_TARGET:
            for k in ((0, 1) if name in PARAM else (0,)):
                for variant in ("swap_roles", "reorder_controls"):
                    if variant == "reorder_controls" and not name.startswith("C"):
                        continue      # XX / SWAP take no controls
                    sts.append({"name": name, "k": k, "roles": variant})
    return sts


@contract("C09", "O3.Gate.__eq__.soundness", targets=[(G, "Gate.__eq__")], level="S", structures=o3_structures,
          native_samples=lambda st, rnd, tier: [{"theta": v} for v in (0.3, -1.1, 5.0)])
def o3(h, st):
    """g1 == g2  ==>  U(g1) = lambda U(g2)   for g2.parameter = g1.parameter + 2*pi*k (the family the modulo-2pi rule identifies), and for pairs with the same
    name and qubit set but exchanged control/target roles, reordered targets or reordered controls"""
    name = st["name"]
    nt = 2 if name in TWO_TARGET else 1
    theta = h.real("theta", angle_denom=2)
    h.assume(theta > -6)
    h.assume(theta < 6)
    if st.get("roles"):
        p1 = theta if name in PARAM else ""
        p2 = (theta + 2 * h.pi * st["k"]) if name in PARAM else ""
        if st["roles"] == "swap_roles":
            if name == "CSWAP":
                q1, q2 = ([0, 1], [2]), ([0, 2], [1])
            elif nt == 2:
                q1, q2 = ([0, 1], None), ([1, 0], None)
            else:
                q1, q2 = ([0], [1]), ([1], [0])
        else:
            q1, q2 = (list(range(nt)), [nt, nt + 1]), (list(range(nt)), [nt + 1, nt])
        g1, g2 = mk_gate(name, q1[0], q1[1], p1), mk_gate(name, q2[0], q2[1], p2)
        n = 4
        eq = h.call(G, "Gate.__eq__", g1, g2)
        if eq:
            U1, A = circ_rows([g1], n, h)
            U2, _ = circ_rows([g2], n, h)
            h.mat_equal("equal gates implement the same operation up to a global phase", U1, U2, A, n, up_to_phase=True)
        else:
            h.check("gates with different roles compare different", True)
        h.done()
        return
    target = list(range(nt))
    control = list(range(nt, nt + st["nc"])) or None
    g1 = mk_gate(name, target, control, theta)
    g2 = mk_gate(name, target, control, theta + 2 * h.pi * st["k"])
    eq = h.call(G, "Gate.__eq__", g1, g2)
    n = nt + st["nc"]
    if eq:
        U1, A = circ_rows([g1], n, h)
        U2, _ = circ_rows([g2], n, h)
        h.mat_equal("equal gates implement the same operation up to a global phase", U1, U2, A, n, up_to_phase=True)
    else:
        h.check("reflexive-case sanity: k == 0 compares equal", st["k"] != 0)
    h.done()


@contract("C09", "O3b.Gate.__eq__.structure", targets=[(G, "Gate.__eq__")], level="S",
          structures=lambda tier: [{"a": a, "b": b} for a, b in itertools.product(range(7), repeat=2)])
def o3b(h, st):
    """gates that differ in name (except CNOT/CX), targets, controls or variational flag never compare equal"""
    mk = [lambda: mk_gate("CNOT", 1, 0), lambda: mk_gate("CX", 1, 0), lambda: mk_gate("CZ", 1, 0), lambda: mk_gate("CNOT", 0, 1),
          lambda: mk_gate("CNOT", 1, [0, 2]), lambda: mk_gate("RZ", 1, None, 0.5), lambda: mk_gate("RZ", 1, None, 0.5, True)]
    g1, g2 = mk[st["a"]](), mk[st["b"]]()
    eq = h.call(G, "Gate.__eq__", g1, g2)
    same_op = st["a"] == st["b"] or {st["a"], st["b"]} == {0, 1}
    h.check("== iff same operation and flags", bool(eq) == same_op)
    ne = h.call(G, "Gate.__ne__", g1, g2)
    h.check("!= is the negation", bool(ne) == (not same_op))
    h.done()


# ---------------------------------------------------------------------------------------------------------------------
# small circuits with symbolic angles

ALPHA = [("H", [0], None), ("RZ", [0], None), ("RX", [1], None), ("CNOT", [1], [0]), ("CRZ", [1], [0]), ("PHASE", [2], None),
         ("CPHASE", [2], [1]), ("X", [2], None), ("SWAP", [1, 2], None), ("RY", [0], None), ("CRX", [2], [0]), ("XX", [0, 1], None), ("S", [1], None),
         # same name and same qubit set as entry 4 / 10 with the roles of control and target exchanged, and a different control set
         ("CRZ", [0], [1]), ("CRX", [0], [2]), ("CRZ", [1], [0, 2]), ("CPHASE", [1], [2]), ("XX", [1, 0], None), ("SWAP", [2, 1], None),
         # DIFFERENT rotation kinds about the same axis on exactly the same target / control as entries 4, 1, 6 (RZ and PHASE differ by a phase that
         # is global only when the gate is not controlled)
         ("CPHASE", [1], [0]), ("PHASE", [0], None), ("CRZ", [2], [1])]


def small_circuits(tier, maxlen, alpha=None):
    alpha = alpha if alpha is not None else (list(range(8)) if tier == "quick" else list(range(19)))
    out = []
    for L in range(0, maxlen + 1):
        for combo in itertools.product(alpha, repeat=L):
            out.append(list(combo))
    return out


def build(h, idxs, prefix="p", denom=2, variational=False):
    gates = []
    for i, a in enumerate(idxs):
        name, t, c = ALPHA[a]
        p = h.real(f"{prefix}{i}", angle_denom=denom) if name in PARAM else ""
        gates.append(mk_gate(name, t, c, p, variational and name in PARAM))
    return gates


def angle_samples(st, rnd, tier):
    k = len(st["gates"]) if isinstance(st, dict) and "gates" in st else 4
    return [{f"p{i}": rnd.choice([rnd.uniform(-7, 7), 0.0, 6.283185307179586, 1e-4]) for i in range(k)} for _ in range(2)]


def mk_circuit(gates, n_qubits=None):
    from tangelo.linq import Circuit
    return Circuit(gates, n_qubits=n_qubits)


# O4 Circuit.inverse --------------------------------------------------------------------------------------------------

@contract("C09", "O4.Circuit.inverse", targets=[(C, "Circuit.inverse"), (G, "Gate.inverse"), (C, "Circuit.__init__"), (C, "Circuit.add_gate")],
          level="S", structures=lambda tier: [{"gates": g, "fixed": f} for g in small_circuits(tier, 3 if tier == "quick" else 4, alpha=[0, 1, 3, 4, 6, 8, 10, 11, 12][: 6 if tier == "quick" else 9]) for f in (None, 4)][::3 if tier == "quick" else 1],
          native_samples=angle_samples)
def o4(h, st):
    """ensures gates(result) == [inverse(g) for g in reversed(gates)], U(result) U(c) == 1, width kept, input circuit unchanged"""
    gates = build(h, st["gates"])
    c = mk_circuit(gates, st["fixed"])
    before = snapshot(c.__dict__)
    ci = h.call(C, "Circuit.inverse", c)
    n = 4
    U, A = circ_rows(list(c._gates) + list(ci._gates), n, h)
    h.mat_equal("U(inverse) U(c) == 1", U, qsem.identity_rows(n, A), A, n)
    h.check("same size", len(ci._gates) == len(c._gates))
    h.check("width kept", h.getattr(ci, "width") == h.getattr(c, "width"))
    h.check("input circuit unchanged", snapshot(c.__dict__) == before)
    h.done()


# O5 remove_small_rotations -------------------------------------------------------------------------------------------

def o5_structures(tier):
    sts = []
    for name in ("RX", "RY", "RZ", "CRX", "CRY", "CRZ", "PHASE", "CPHASE", "XX"):
        for k in (-2, -1, 0, 1, 2):
            for remove_qubits in (False, True):
                sts.append({"name": name, "k": k, "remove_qubits": remove_qubits})
    return sts


@contract("C09", "O5.remove_small_rotations", targets=[(C, "remove_small_rotations")], level="S", structures=o5_structures,
          native_samples=lambda st, rnd, tier: [{"delta": d, "thr": t} for d, t in ((1e-5, 1e-3), (-1e-5, 1e-3), (0.5, 1e-3), (0.0, 1e-3), (0.05, 0.1))])
def o5(h, st):
    """ensures result = order-preserving filter of the input; every dropped gate is a rotation whose angle is within the threshold of a
    multiple of its TRUE period (2*pi up to a global phase for RX/RY/RZ, 4*pi for controlled rotations); kept gates unchanged;
    input circuit unchanged.  (Lemma, cited: such a rotation is within thr/2 of lambda*1 in operator norm.)"""
    name = st["name"]
    nt = 2 if name in TWO_TARGET else 1
    ctrl = [nt] if name.startswith("C") else None
    delta = h.real("delta")
    thr = h.real("thr")
    h.assume(thr > 0)
    h.assume(thr < 1)
    h.assume(delta > -3)
    h.assume(delta < 3)
    p = delta + 2 * h.pi * st["k"]
    g = mk_gate(name, list(range(nt)), ctrl, p)
    other = mk_gate("H", 3)
    c = mk_circuit([other, g, mk_gate("X", 3)])
    before = snapshot(c.__dict__)
    out = h.call(C, "remove_small_rotations", c, thr, st["remove_qubits"])
    h.check("input circuit unchanged", snapshot(c.__dict__) == before)
    names = [x.name for x in out._gates]
    if len(out._gates) == 3:
        h.check("kept gates identical", snapshot([x.__dict__ for x in out._gates]) == snapshot([x.__dict__ for x in c._gates]))
    else:
        h.check("only the rotation was dropped", names == ["H", "X"])
        h.check("only rotations of the documented set are dropped", name in ("RX", "RY", "RZ", "CRX", "CRY", "CRZ"))
        period_units = 2 if name.startswith("C") else 1     # in units of 2*pi
        if st["k"] % period_units == 0:
            h.check("dropped rotation is within thr of a multiple of its true period", abs(delta) < thr)
        else:
            # angle = (odd multiple of 2*pi) + delta for a gate of period 4*pi: near identity only if |delta -+ 2pi| < thr
            h.check("dropped rotation is within thr of a multiple of its true period",
                    (abs(delta - 2 * h.pi) < thr) | (abs(delta + 2 * h.pi) < thr) if h.symbolic else (abs(delta - 2 * h.pi) < thr or abs(delta + 2 * h.pi) < thr))
    if not st["remove_qubits"]:
        h.check("width kept", h.getattr(out, "width") == h.getattr(c, "width"))
    h.done()


# O6 remove_redundant_gates -------------------------------------------------------------------------------------------

def o6_structures(tier):
    sts = []
    # pairs  G(theta) ; G(-theta + 2 pi k)  on the same qubits, optionally separated by a gate on other / overlapping qubits
    for name in ("RX", "RZ", "CRZ", "CRX", "PHASE", "CPHASE", "XX", "CRY"):
        for k in (-1, 0, 1, 2):
            for sep in (None, "other", "overlap"):
                sts.append({"kind": "pair", "name": name, "k": k, "sep": sep})
    for name in ("H", "X", "CNOT", "SWAP", "CZ", "S", "T", "CSWAP"):
        for sep in (None, "other", "overlap"):
            sts.append({"kind": "fixed", "name": name, "sep": sep})
    # the second gate uses the same name and the same qubit set with the ROLES changed (control <-> target, targets reordered): G(theta ; roles) G(-theta ; roles')
    for name in ("CRZ", "CRX", "CRY", "CPHASE", "XX", "CNOT", "CZ", "CY", "CH", "SWAP", "CSWAP"):
        for k in ((0, 1) if name in PARAM else (0,)):
            sts.append({"kind": "swapped", "name": name, "k": k, "sep": None})
    for g in small_circuits(tier, 3, alpha=[0, 3, 7, 8]):
        sts.append({"kind": "generic", "gates": g})
    for g in small_circuits(tier, 2, alpha=[4, 13, 15, 10, 14, 6, 16, 8, 18]):
        if len(g) == 2:
            sts.append({"kind": "generic", "gates": g})
    return sts


@contract("C09", "O6.remove_redundant_gates", targets=[(C, "remove_redundant_gates"), (G, "Gate.__eq__"), (G, "Gate.inverse")], level="S",
          structures=o6_structures, native_samples=lambda st, rnd, tier: [{"theta": v, "p0": 0.12, "p1": 0.23, "p2": 0.31} for v in (0.3, -2.0, 4.0)])
def o6(h, st):
    """ensures U(result) = lambda U(input) (exact, up to a global phase), result is a sub-sequence of the input, input unchanged"""
    n = 4
    if st["kind"] == "generic":
        gates = build(h, st["gates"])
        for i, a in enumerate(st["gates"]):
            if ALPHA[a][0] in PARAM:
                # generic angles: no two rotations cancel up to the 1e-7 rounding of Gate.__eq__ (exact cancellations are the 'pair' structures)
                p = h.real(f"p{i}", angle_denom=2)
                h.assume(p > 0.1 * (i + 1))
                h.assume(p < 0.1 * (i + 1) + 0.05)
    else:
        name = st["name"]
        nt = 2 if name in TWO_TARGET else 1
        ctrl = [nt] if name.startswith("C") else None
        if st["kind"] == "swapped":
            theta = ""
            if name in PARAM:
                theta = h.real("theta", angle_denom=2)
                h.assume(theta > -6)
                h.assume(theta < 6)
            if name == "CSWAP":
                q1, q2 = ([0, 1], [2]), ([0, 2], [1])
            elif nt == 2:
                q1, q2 = ([0, 1], None), ([1, 0], None)
            else:
                q1, q2 = ([0], [1]), ([1], [0])
            g1 = mk_gate(name, q1[0], q1[1], theta)
            g2 = mk_gate(name, q2[0], q2[1], (-theta + 2 * h.pi * st["k"]) if name in PARAM else "")
        elif st["kind"] == "pair":
            theta = h.real("theta", angle_denom=2)
            h.assume(theta > -6)
            h.assume(theta < 6)
            g1 = mk_gate(name, list(range(nt)), ctrl, theta)
            g2 = mk_gate(name, list(range(nt)), ctrl, -theta + 2 * h.pi * st["k"])
        else:
            g1 = mk_gate(name, list(range(nt)), ctrl)
            g2 = mk_gate(name, list(range(nt)), ctrl)
            if name in ("S", "T"):
                g2 = mk_gate("PHASE", [0], None, -h.pi / (2 if name == "S" else 4))
        mid = [] if st["sep"] is None else ([mk_gate("H", 3)] if st["sep"] == "other" else [mk_gate("CNOT", 3, 0)])
        gates = [g1] + mid + [g2]
    c = mk_circuit(gates)
    before = snapshot(c.__dict__)
    out = h.call(C, "remove_redundant_gates", c)
    h.check("input circuit unchanged", snapshot(c.__dict__) == before)
    U1, A = circ_rows(c._gates, n, h)
    U2, _ = circ_rows(out._gates, n, h)
    h.mat_equal("U(result) == lambda U(input)", U2, U1, A, n, up_to_phase=True)
    h.check("no gate added", len(out._gates) <= len(c._gates))
    if st["kind"] == "fixed" and st["sep"] != "overlap":
        h.check("adjacent inverse pair is cancelled", len(out._gates) == len(c._gates) - 2)
    h.check("width kept", h.getattr(out, "width") == h.getattr(c, "width"))
    h.done()


# O7 merge_rotations --------------------------------------------------------------------------------------------------

@contract("C09", "O7.merge_rotations", targets=[(C, "merge_rotations")], level="S",
          structures=lambda tier: [{"gates": g} for g in small_circuits(tier, 3, alpha=[1, 2, 3, 4, 5, 6] if tier == "quick" else [0, 1, 2, 3, 4, 5, 6, 9, 10])] +
                                  [{"gates": g} for g in small_circuits(tier, 2 if tier == "quick" else 3, alpha=[4, 13, 15, 10, 14, 6, 16, 11, 17]) if len(g) >= 2] +
                                  [{"gates": g} for g in small_circuits(tier, 3, alpha=[4, 19, 1, 20]) if len(g) >= 2] + [{"gates": g} for g in ([6, 21], [21, 6], [21, 6, 21])],
          native_samples=angle_samples)
def o7(h, st):
    """ensures U(result) == lambda U(input) (a global phase, as the property allows), for every value of every angle; the input circuit (its gates included) is unchanged"""
    n = 3
    gates = build(h, st["gates"], variational=True)
    c = mk_circuit(gates)
    before = snapshot(c.__dict__)
    U1, A = circ_rows(c._gates, n, h)
    out = h.call(C, "merge_rotations", c)
    U2, _ = circ_rows(out._gates, n, h)
    h.mat_equal("U(result) == lambda U(input)", U2, U1, A, n, up_to_phase=True)
    h.check("input circuit unchanged", snapshot(c.__dict__) == before)
    h.check("no gate added", len(out._gates) <= len(gates))
    h.done()


# O8 simplify ---------------------------------------------------------------------------------------------------------

@contract("C09", "O8.simplify", targets=[(C, "simplify"), (C, "Circuit.copy"), (C, "Circuit.remove_small_rotations"), (C, "Circuit.remove_redundant_gates")],
          level="S", structures=lambda tier: [{"gates": g} for g in small_circuits(tier, 3, alpha=[1, 3, 4, 7] if tier == "quick" else [0, 1, 3, 4, 5, 7])] +
                                  [{"gates": g} for g in small_circuits(tier, 2, alpha=[4, 13, 10, 14, 15]) if len(g) == 2] +
                                  [{"gates": g} for g in small_circuits(tier, 2, alpha=[4, 19, 1, 20]) if len(g) == 2] +
                                  # the caller's own threshold (far below the default 1e-3) with angles between the two: nothing may be dropped
                                  [{"gates": g, "thr": 1e-6} for g in small_circuits(tier, 2, alpha=[1, 3, 4, 7]) if g and any(ALPHA[a][0] in PARAM for a in g)],
          native_samples=angle_samples, max_paths=300)
def o8(h, st):
    """ensures U(result) = lambda U(input) for angles away from the thresholds (the default threshold, and a threshold stated by the caller with angles between it and the
    default); input circuit unchanged"""
    n = 3
    gates = build(h, st["gates"])
    thr = st.get("thr")
    for i, a in enumerate(st["gates"]):
        if ALPHA[a][0] in PARAM:
            p = h.real(f"p{i}", angle_denom=2)
            # keep the angles in the generic region (no rotation or merged rotation below the threshold, no rounding ties)
            if thr is None:
                h.assume(p > 0.01 * (i + 1))
                h.assume(p < 0.02 * (i + 1))
            else:
                h.assume(p > 20 * thr * (i + 1))
                h.assume(p < 30 * thr * (i + 1))
    c = mk_circuit(gates)
    before = snapshot(c.__dict__)
    U1, A = circ_rows(c._gates, n, h)
    out = h.call(C, "simplify", c) if thr is None else h.call(C, "simplify", c, 100, thr)
    U2, _ = circ_rows(out._gates, n, h)
    h.mat_equal("U(result) == lambda U(input)", U2, U1, A, n, up_to_phase=True)
    h.check("input circuit unchanged", snapshot(c.__dict__) == before)
    h.done()


# O9 split / stack / trim / reindex -----------------------------------------------------------------------------------

IDX_PATTERNS = [[0, 1, 2], [0, 2, 5], [4, 1, 3], [3, 3 + 1, 0]]
GAP_PATTERNS = [[1, 8, 16], [8, 1, 3], [0, 2, 5], [33, 1, 64]]


def o9_structures(tier):
    sts = []
    for pat in range(len(IDX_PATTERNS)):
        for g in small_circuits(tier, 2, alpha=[0, 1, 3, 4, 7, 8]):
            if g:
                sts.append({"gates": g, "pattern": pat})
    return sts if tier != "quick" else sts[::2]


def relabel(gates, mp):
    out = []
    for g in gates:
        out.append(mk_gate(g.name, [mp[t] for t in g.target], [mp[c] for c in g.control] if g.control else None, g.parameter, g.is_variational))
    return out


@contract("C09", "O9a.trim_qubits", targets=[(C, "Circuit.trim_qubits"), (C, "Circuit.get_entangled_indices")], level="S",
          structures=o9_structures, native_samples=angle_samples)
def o9a(h, st):
    """ensures the relabelling is the order-preserving bijection used qubits -> [0, m); gate order, names, parameters kept"""
    pat = IDX_PATTERNS[st["pattern"]]
    gates = relabel(build(h, st["gates"]), {0: pat[0], 1: pat[1], 2: pat[2]})
    c = mk_circuit(gates)
    used = sorted({q for g in gates for q in g.target + (g.control or [])})
    mp = {q: i for i, q in enumerate(used)}
    expected = relabel(gates, mp)
    r = h.call(C, "Circuit.trim_qubits", c)
    h.check("returns self", r is c)
    h.check("gates relabelled by the order-preserving bijection", snapshot([g.__dict__ for g in c._gates]) == snapshot([g.__dict__ for g in expected]))
    h.check("width == number of used qubits", h.getattr(c, "width") == len(used))
    h.done()


@contract("C09", "O9b.reindex_qubits", targets=[(C, "Circuit.reindex_qubits")], level="S",
          structures=lambda tier: [{"gates": g, "perm": p} for g in small_circuits(tier, 2, alpha=[0, 3, 4, 8]) if g for p in ([2, 0, 1], [5, 3, 4], [0, 1, 2])],
          native_samples=angle_samples)
def o9b(h, st):
    """ensures gates relabelled by old index i -> new_indices[i]; wrong length raises ValueError"""
    gates = build(h, st["gates"])
    c = mk_circuit(gates, n_qubits=3)
    perm = st["perm"]
    expected = relabel(gates, {i: perm[i] for i in range(3)})
    h.call(C, "Circuit.reindex_qubits", c, perm)
    h.check("gates relabelled i -> new_indices[i]", snapshot([g.__dict__ for g in c._gates]) == snapshot([g.__dict__ for g in expected]))
    h.check("width == max(new)+1", h.getattr(c, "width") == max(perm) + 1)
    c2 = mk_circuit(gates, n_qubits=3)
    e = h.raises(lambda: h.call(C, "Circuit.reindex_qubits", c2, [0, 1]), ValueError)
    h.check("length mismatch raises ValueError", e is not None)
    # circuits whose used qubits have GAPS (no fixed width): the k-th entry of new_indices is for the k-th used qubit in increasing order,
    # whatever order the index set happens to iterate in
    for pat in GAP_PATTERNS:
        g3 = relabel(build(h, st["gates"]), {0: pat[0], 1: pat[1], 2: pat[2]})
        c3 = mk_circuit(g3)
        used = sorted({q for g in g3 for q in g.target + (g.control or [])})
        new = perm[:len(used)]
        exp3 = relabel(g3, {q: new[k] for k, q in enumerate(used)})
        h.call(C, "Circuit.reindex_qubits", c3, list(new))
        h.check(f"used qubits {used}: k-th used qubit (increasing order) -> new_indices[k]", snapshot([g.__dict__ for g in c3._gates]) == snapshot([g.__dict__ for g in exp3]),
                detail=f"{c3._gates} expected {exp3}")
        h.check_close("width == max(new)+1 (gaps)", h.getattr(c3, "width"), max(new) + 1)
    h.done()


def o9c_structures(tier):
    sts = []
    for pat in range(len(IDX_PATTERNS)):
        for g in small_circuits(tier, 3, alpha=[0, 1, 3, 7, 5]):
            if g:
                sts.append({"gates": g, "pattern": pat})
    return sts if tier != "quick" else sts[::4]


@contract("C09", "O9c.split", targets=[(C, "Circuit.split"), (C, "Circuit.get_entangled_indices"), (C, "Circuit.trim_qubits")], level="S",
          structures=o9c_structures, native_samples=angle_samples)
def o9c(h, st):
    """ensures the entangled sets partition the used qubits, every gate goes to exactly one part in order, the tensor product of the
    parts (placed back on their qubits) equals the original operator; input unchanged"""
    pat = IDX_PATTERNS[st["pattern"]]
    gates = relabel(build(h, st["gates"]), {0: pat[0], 1: pat[1], 2: pat[2]})
    c = mk_circuit(gates)
    before = snapshot(c.__dict__)
    sets = h.call(C, "Circuit.get_entangled_indices", c)
    used = {q for g in gates for q in g.target + (g.control or [])}
    h.check("entangled sets are pairwise disjoint", sum(len(s) for s in sets) == len(set().union(*sets)) if sets else True)
    h.check("entangled sets cover the used qubits", (set().union(*sets) if sets else set()) == used)
    for g in gates:
        qs = set(g.target + (g.control or []))
        h.check("each gate lies in exactly one set", sum(1 for s in sets if qs <= s) == 1 and sum(1 for s in sets if qs & s) == 1)
    parts = h.call(C, "Circuit.split", c, False)
    h.check("input circuit unchanged", snapshot(c.__dict__) == before)
    h.check("one part per set", len(parts) == len(sets))
    h.check("all gates distributed", sum(len(p._gates) for p in parts) == len(gates))
    n = max(used) + 1
    allg = [g for p in parts for g in p._gates]
    U1, A = circ_rows(gates, n, h)
    U2, _ = circ_rows(allg, n, h)
    h.mat_equal("product of the parts == original operator", U2, U1, A, n)
    trimmed = h.call(C, "Circuit.split", c, True)
    for p, s in zip(trimmed, sets):
        h.check("trimmed part has width == size of its set", h.getattr(p, "width") == len(s))
    h.done()


@contract("C09", "O9d.stack", targets=[(C, "stack"), (C, "Circuit.stack"), (C, "Circuit.reindex_qubits"), (C, "Circuit.trim_qubits"), (C, "Circuit.__add__")],
          level="S", structures=lambda tier: [{"a": a, "b": b} for a in small_circuits(tier, 2, alpha=[0, 3, 4, 7]) if a for b in small_circuits(tier, 1, alpha=[1, 3, 8]) if b],
          native_samples=lambda st, rnd, tier: [{f"{x}{i}": rnd.uniform(-5, 5) for x in "ab" for i in range(3)}])
def o9d(h, st):
    """ensures stack(c1, c2) acts as U(trim c1) (x) U(trim c2) on disjoint consecutive registers; inputs unchanged"""
    g1 = relabel(build(h, st["a"], prefix="a"), {0: 1, 1: 3, 2: 4})
    g2 = relabel(build(h, st["b"], prefix="b"), {0: 0, 1: 2, 2: 5})
    c1, c2 = mk_circuit(g1), mk_circuit(g2)
    b1, b2 = snapshot(c1.__dict__), snapshot(c2.__dict__)
    s = h.call(C, "stack", c1, c2)
    h.check("inputs unchanged", snapshot(c1.__dict__) == b1 and snapshot(c2.__dict__) == b2)
    u1 = sorted({q for g in g1 for q in g.target + (g.control or [])})
    u2 = sorted({q for g in g2 for q in g.target + (g.control or [])})
    e1 = relabel(g1, {q: i for i, q in enumerate(u1)})
    e2 = relabel(g2, {q: i + len(u1) for i, q in enumerate(u2)})
    h.check("width is the sum of the used widths", h.getattr(s, "width") == len(u1) + len(u2))
    n = len(u1) + len(u2)
    U1, A = circ_rows(e1 + e2, n, h)
    U2, _ = circ_rows(s._gates, n, h)
    h.mat_equal("U(stack) == U(c1) (x) U(c2)", U2, U1, A, n)
    h.done()


# O10 copy / + / * ----------------------------------------------------------------------------------------------------

@contract("C09", "O10.copy_add_mul", targets=[(C, "Circuit.copy"), (C, "Circuit.__add__"), (C, "Circuit.__mul__"), (C, "Circuit.__rmul__")], level="S",
          structures=lambda tier: [{"a": a, "b": b, "fa": fa, "fb": fb} for a in small_circuits(tier, 2, alpha=[0, 1, 3, 4]) for b in small_circuits(tier, 1, alpha=[1, 7, 8])
                                   for fa, fb in ((None, None), (3, None), (None, 4), (3, 4))][::2 if tier == "quick" else 1],
          native_samples=lambda st, rnd, tier: [{f"{x}{i}": rnd.uniform(-5, 5) for x in "ab" for i in range(3)}])
def o10(h, st):
    """ensures gate lists of copy / a+b / a*k are the concatenations (fresh gate objects), operands unchanged, width rule, k<=0 raises"""
    ga, gb = build(h, st["a"], prefix="a"), build(h, st["b"], prefix="b")
    a, b = mk_circuit(ga, st["fa"]), mk_circuit(gb, st["fb"])
    sa, sb = snapshot(a.__dict__), snapshot(b.__dict__)
    cp = h.call(C, "Circuit.copy", a)
    h.check("copy: equal gate list", snapshot([g.__dict__ for g in cp._gates]) == snapshot([g.__dict__ for g in a._gates]))
    h.check("copy: fresh gate objects", all(x is not y for x, y in zip(cp._gates, a._gates)))
    h.check("copy: same width", h.getattr(cp, "width") == h.getattr(a, "width"))
    s = h.call(C, "Circuit.__add__", a, b)
    h.check("add: concatenation", snapshot([g.__dict__ for g in s._gates]) == snapshot([g.__dict__ for g in a._gates + b._gates]))
    h.check("add: fresh gate objects", all(all(x is not y for y in a._gates + b._gates) for x in s._gates))
    h.check("add: width is the max", h.getattr(s, "width") == max(h.getattr(a, "width"), h.getattr(b, "width")))
    m = h.call(C, "Circuit.__mul__", a, 3)
    h.check("mul: three repetitions", snapshot([g.__dict__ for g in m._gates]) == snapshot([g.__dict__ for g in a._gates * 3]))
    rm = h.call(C, "Circuit.__rmul__", a, 2)
    h.check("rmul: two repetitions", len(rm._gates) == 2 * len(a._gates))
    for bad in (0, -1, 1.5):
        e = h.raises(lambda: h.call(C, "Circuit.__mul__", a, bad), ValueError)
        h.check(f"mul by {bad} raises ValueError", e is not None)
    h.check("operands unchanged", snapshot(a.__dict__) == sa and snapshot(b.__dict__) == sb)
    # every gate of a result is its OWN object with its own index lists (a result whose repetitions share one gate object behaves differently under every in-place rewrite)
    for label, r in (("copy", cp), ("add", s), ("mul", m), ("rmul", rm)):
        gs = r._gates
        h.check(f"{label}: the gates of the result are pairwise distinct objects with their own index lists",
                len({id(g) for g in gs}) == len(gs) and len({id(g.target) for g in gs}) == len(gs) and len({id(g.control) for g in gs if g.control is not None}) == sum(1 for g in gs if g.control is not None))
    # ... which is what makes a following in-place rewrite act once per gate: relabel the qubits of the products with a 3-cycle and compare with the relabelled repetitions
    n_q = max(h.getattr(m, "width"), 3)
    if h.getattr(m, "width") == n_q and m._qubits_simulated in (None, n_q) and len(m._qubit_indices) == n_q:
        perm = list(range(n_q))
        perm[0], perm[1], perm[2] = 1, 2, 0
        expect = [(g.name, [perm[q] for q in g.target], [perm[q] for q in g.control] if g.control else g.control) for g in a._gates * 3]
        h.call(C, "Circuit.reindex_qubits", m, perm)
        h.check("mul then reindex_qubits (a 3-cycle): every gate of the product relabelled exactly once", [(g.name, g.target, g.control) for g in m._gates] == expect,
                detail=f"{[(g.name, g.target, g.control) for g in m._gates][:4]} vs {expect[:4]}")
    h.check("operands unchanged by the rewrites of the results", snapshot(a.__dict__) == sa and snapshot(b.__dict__) == sb)
    h.done()


# O11 Clifford decomposition ------------------------------------------------------------------------------------------

@contract("C09", "O11.decompose_gate_to_cliffords", targets=[(CL, "decompose_gate_to_cliffords"), (G, "Gate.is_clifford")], level="S",
          structures=lambda tier: [{"name": n, "k": k} for n in ("RX", "RY", "RZ", "PHASE") for k in range(-6, 9)] + [{"name": n, "k": None} for n in ("H", "S", "CNOT")])
def o11(h, st):
    """ensures for theta = k*pi/2 (every k): U(decomposition) == lambda U(gate); Clifford non-parameterised gates decompose to themselves"""
    if st["k"] is None:
        g = mk_gate(st["name"], 1, 0 if st["name"] == "CNOT" else None)
        out = h.call(CL, "decompose_gate_to_cliffords", g)
        h.check("returns the gate itself", out is g)
        h.done()
        return
    theta = h.pi * Fraction(st["k"], 2) if h.symbolic else 3.141592653589793 * st["k"] / 2
    g = mk_gate(st["name"], 0, None, theta)
    out = h.call(CL, "decompose_gate_to_cliffords", g)
    U1, A = qsem.unitary([g], 1, exact=True if h.symbolic else None)
    U2, _ = qsem.unitary(list(out), 1, exact=True if h.symbolic else None)
    h.mat_equal("U(decomposition) == lambda U(gate)", U2, U1, A, 1, up_to_phase=True)
    from tangelo.linq.gate import CLIFFORD_GATES
    h.check("only Clifford gates are produced", all(x.name in CLIFFORD_GATES for x in out))
    h.done()


@contract("C09", "O11b.decompose_non_clifford_angle", targets=[(CL, "decompose_gate_to_cliffords")], level="S",
          structures=lambda tier: [{"name": n} for n in ("RX", "RY", "RZ", "PHASE")],
          native_samples=lambda st, rnd, tier: [{"theta": v} for v in (0.3, 1.0, 2.0)])
def o11b(h, st):
    """a rotation whose angle is farther than the tolerance from every multiple of pi/2 is refused (ValueError)"""
    theta = h.real("theta")
    h.assume(theta > 0.01)
    h.assume(theta < 1.5)
    g = mk_gate(st["name"], 0, None, theta)
    e = h.raises(lambda: h.call(CL, "decompose_gate_to_cliffords", g), ValueError)
    h.check("raises ValueError", e is not None)
    h.done()


# ---------------------------------------------------------------------------------------------------------------------
# P0-P2  MODULAR contracts for circuits of ANY length (ghost sequences + callee contracts as stubs; see tverif.interp.GSeq)
#
#   P0  Gate.inverse on symbolic qubit indices: the inverse acts on exactly the same targets / controls, whatever they are (O2 proves U(g^-1) U(g) == 1 per gate kind)
#   P1  Circuit.inverse == Circuit([g.inverse() for g in reversed(gates)], same fixed width)   for any length  => U(result) U(c) == 1 by telescoping (O2 per gate)
#   P2  remove_small_rotations == order-preserving filter, dropping only rotations within thr of a multiple of their TRUE period, for any length

from tverif.engine import Opaque, stub
from tverif.interp import GSeq


def _blank_circuit(**fields):
    from tangelo.linq import Circuit
    c = Circuit.__new__(Circuit)
    c.__dict__ = dict(fields)
    return c


def _init_args(call):
    args, kw = call
    names = ["gates", "n_qubits", "name", "cmeasure_control"]
    out = {n: "<absent>" for n in names}
    for n, v in zip(names, args[1:]):
        out[n] = v
    out.update(kw)
    return out


def _sym_gate(h, name, nt, nc, parameter, var=False):
    from tangelo.linq import Gate
    qs = [h.integer(f"q{i}") for i in range(nt + nc)]
    for q in qs:
        h.assume(q >= 0)
    for a, b in itertools.combinations(qs, 2):
        h.assume(a != b)
    g = Gate.__new__(Gate)
    g.__dict__ = {"name": name, "target": list(qs[:nt]), "control": (list(qs[nt:]) if nc else None), "parameter": parameter, "is_variational": var}
    return g, qs


@contract("C09", "P0.Gate.inverse.any_indices", targets=[(G, "Gate.inverse"), (G, "Gate.__init__")], level="P", structures=o2_structures)
def p0(h, st):
    """for EVERY placement (symbolic, pairwise distinct, non-negative qubit indices) and every real parameter: g.inverse() has exactly g's targets and controls in the same
    order, the name / parameter that O2 proves to be the inverse on the canonical placement (same name with the negated parameter; PHASE(-pi/2), PHASE(-pi/4) for S, T), the
    same variational flag, fresh index lists, and g is unchanged - so O2's operator identity holds on every placement"""
    if not h.symbolic:
        h.check("native: covered by O2", True)
        h.done()
        return
    name = st["name"]
    nt = 2 if name in TWO_TARGET else 1
    nc = st["ncontrols"]
    theta = h.real("theta") if name in PARAM else ""
    pi_ = h.pi       # keep pi exact inside the code under contract
    g, qs = _sym_gate(h, name, nt, nc, theta, var=True)
    before = snapshot(g.__dict__)
    gi = h.call(G, "Gate.inverse", g)
    h.check("gate unchanged", snapshot(g.__dict__) == before)
    h.check("fresh object with fresh index lists", gi is not g and gi.target is not g.target and (gi.control is None or gi.control is not g.control))
    h.check("same number of targets / controls", len(gi.target) == nt and ((gi.control is None) if nc == 0 else len(gi.control) == nc))
    for i, q in enumerate(qs):
        h.check_close(f"qubit {i} kept in place", gi.target[i] if i < nt else gi.control[i - nt], q)
    if name in ("S", "T"):
        h.check("S / T invert to a PHASE gate", gi.name == "PHASE")
        h.check_close("with angle -pi/2 / -pi/4", gi.parameter, -pi_ / (2 if name == "S" else 4))
    elif name in PARAM:
        h.check("same name", gi.name == name)
        h.check_close("negated parameter", gi.parameter, -theta)
    else:
        h.check("self-inverse gate: same name, no parameter", gi.name == name and gi.parameter == "")
    h.check("variational flag kept", gi.is_variational is True)
    h.done()


@contract("C09", "P1.Circuit.inverse.any_length", targets=[(C, "Circuit.inverse")], level="P",
          structures=lambda tier: [{"fixed": f, "name": n} for f in (None, "sym") for n in ("H", "RZ", "CRX", "CNOT", "SWAP", "MEASURE", "CMEASURE", "XX", "T")])
def p1(h, st):
    """for a circuit of ANY length: inverse() constructs (C11.P4) a circuit from [g.inverse() for g in reversed(gates)] - every gate, none dropped, in reversed order, each
    replaced by the result of Gate.inverse (contract O2 / P0) - with the same fixed width; the source circuit is untouched. Telescoping U(g_1^-1) ... U(g_n^-1) U(g_n) ... U(g_1)
    with O2 gives U(result) U(c) == 1 for every length"""
    if not h.symbolic:
        h.check("native: covered by O4", True)
        h.done()
        return
    log, inv_log = [], []
    stub(h, C, "Circuit.__init__", lambda a, k: None, log=log)
    stub(h, G, "Gate.inverse", lambda a, k: Opaque("inverse", of=a[0]), log=inv_log)
    # the generic element: a gate of the given name on symbolic qubits (Gate.inverse itself is under its own contracts O1 / O2 / P0, here replaced by them)
    name = st["name"]
    elem, _ = _sym_gate(h, name, 2 if name in TWO_TARGET else 1, 1 if name.startswith("C") and name != "CMEASURE" else 0, h.real("theta") if name in PARAM else "")
    eb = snapshot(elem.__dict__)
    seq = GSeq.atom("self._gates", elem)
    N = h.integer("N") if st["fixed"] else None
    c = _blank_circuit(_gates=seq, _qubits_simulated=N)
    before = dict(c.__dict__)
    out = h.call(C, "Circuit.inverse", c)
    h.shape("exactly one constructor call", len(log) == 1)
    a = _init_args(log[0])
    gs = a["gates"]
    h.check("same fixed width", a["n_qubits"] is N)
    h.check("source circuit untouched", all(c.__dict__[k] is v for k, v in before.items()) and snapshot(elem.__dict__) == eb)
    h.shape("gate list derived from self._gates by one comprehension", isinstance(gs, GSeq) and gs.kind == "comp" and gs.src.describe() in (("reversed", ("atom", "self._gates")), ("atom", "self._gates")))
    if gs.n == "empty":
        h.check("empty circuit: empty inverse", inv_log == [])
    else:
        h.check("gates taken in REVERSED order", gs.src.describe() == ("reversed", ("atom", "self._gates")))
        h.check("no gate dropped", gs.kept is True)
        h.check("each gate replaced by its Gate.inverse()", len(inv_log) == 1 and inv_log[0][0][0] is elem and isinstance(gs.image, Opaque) and gs.image._info.get("of") is elem)
    h.done()


def p2_structures(tier):
    names = ["RX", "RY", "RZ", "CRX", "CRY", "CRZ", "PHASE", "CPHASE", "XX", "H", "CNOT", "MEASURE", "SWAP"]
    return [{"name": n, "k": k, "remove_qubits": r} for n in names for k in ((-2, -1, 0, 1, 2) if n in PARAM else (0,)) for r in (False, True)]


@contract("C09", "P2.remove_small_rotations.any_length", targets=[(C, "remove_small_rotations")], level="P", structures=p2_structures)
def p2(h, st):
    """for a circuit of ANY length and a generic gate of it (every name; every real angle, written 2 pi k + delta; every threshold 0 < thr < 1): the result is constructed
    (C11.P4) from the ORDER-PRESERVING FILTER of the gate sequence in which the generic gate is kept as the same object, or dropped - and it is dropped only if it is a
    rotation of the documented set whose angle lies within thr of a multiple of its TRUE period (2 pi for RX/RY/RZ up to a global phase, 4 pi for controlled rotations);
    fixed width = the source's width unless remove_qubits; the source circuit is untouched"""
    if not h.symbolic:
        h.check("native: covered by O5", True)
        h.done()
        return
    name = st["name"]
    nt = 2 if name in TWO_TARGET else 1
    nc = 1 if name.startswith("C") else 0
    log = []
    stub(h, C, "Circuit.__init__", lambda a, k: None, log=log)
    if name in PARAM:
        delta, thr = h.real("delta"), h.real("thr")
        h.assume(delta > -3)
        h.assume(delta < 3)
        p = delta + 2 * h.pi * st["k"]
    else:
        thr = h.real("thr")
        p = ""
    h.assume(thr > 0)
    h.assume(thr < 1)
    g, qs = _sym_gate(h, name, nt, nc, p)
    gb = snapshot(g.__dict__)
    seq = GSeq.atom("circuit._gates", g)
    w = h.integer("w")
    c = _blank_circuit(_gates=seq, _qubits_simulated=None)
    stub(h, C, "Circuit.width", lambda a, k: w)
    before = dict(c.__dict__)
    h.call(C, "remove_small_rotations", c, thr, st["remove_qubits"])
    h.shape("exactly one constructor call", len(log) == 1)
    a = _init_args(log[0])
    gs = a["gates"]
    h.check("source circuit and its gate untouched", all(c.__dict__[k] is v for k, v in before.items()) and snapshot(g.__dict__) == gb)
    h.check("fixed width: the source's width, or none when qubits may be removed", (a["n_qubits"] in ("<absent>", None)) if st["remove_qubits"] else (a["n_qubits"] is w))
    h.shape("gate list derived from circuit._gates by one comprehension (order-preserving filter)", isinstance(gs, GSeq) and gs.describe() == ("comp", ("atom", "circuit._gates")))
    if gs.n == "empty":
        h.done()
        return
    if gs.kept:
        h.check("a kept gate is handed over as it is", gs.image is g)
    else:
        h.check("only rotations of the documented set are dropped", name in ("RX", "RY", "RZ", "CRX", "CRY", "CRZ"))
        if name in PARAM:
            if st["k"] % (2 if name.startswith("C") else 1) == 0:
                h.check("dropped rotation is within thr of a multiple of its true period", abs(delta) < thr)
            else:
                h.check("dropped rotation is within thr of a multiple of its true period", (abs(delta - 2 * h.pi) < thr) | (abs(delta + 2 * h.pi) < thr))
    h.done()


# ---------------------------------------------------------------------------------------------------------------------
# O12  read-only operations along a HISTORY on one circuit object: the result never depends on what was called before

RO_OPS = ["entangled", "split", "trim_trivial", "depth", "copy", "inverse", "simplify_fn", "mul", "add", "split_no_trim", "trim_trivial_qubits_op"]
RO_SPECS = [
    [("X", [0], None, ""), ("RZ", [1], None, 0.7), ("H", [2], None, ""), ("CNOT", [3], [2], ""), ("RX", [4], None, math.pi if False else 3.141592653589793)],
    [("H", [0], None, ""), ("CNOT", [1], [0], ""), ("X", [3], None, ""), ("Z", [3], None, ""), ("RY", [2], None, 0.4)],
    [("RX", [1], None, 3.141592653589793), ("Z", [0], None, ""), ("CRZ", [3], [2], 0.9), ("X", [2], None, "")],
]


def _canon(x):
    """comparable form of whatever a read-only circuit operation returns"""
    from tangelo.linq import Circuit, Gate
    if isinstance(x, Circuit):
        return ("circuit", [(g.name, tuple(g.target), tuple(g.control) if g.control else None, g.parameter if isinstance(g.parameter, str) else round(float(g.parameter), 12), g.is_variational) for g in x._gates], x.width)
    if isinstance(x, (set, frozenset)):
        return ("set", sorted(x))
    if isinstance(x, dict):
        return ("dict", sorted((repr(k), _canon(v)) for k, v in x.items()))
    if isinstance(x, (list, tuple)):
        return (type(x).__name__, [_canon(e) for e in x])
    if hasattr(x, "terms"):
        return ("operator", sorted((repr(k), complex(v)) for k, v in x.terms.items()))
    return x


def o12_structures(tier):
    import itertools as it
    seqs = [list(s) for s in it.product(RO_OPS, repeat=2)]
    step = 3 if tier == "quick" else 1
    return [{"spec": k, "ops": seq + [last]} for k in range(len(RO_SPECS)) for i, seq in enumerate(seqs) if i % step == k % step for last in ("split", "trim_trivial", "entangled")][:: 2 if tier == "quick" else 1]


@contract("C09", "O12.readonly_histories", level="B", structures=o12_structures, native_samples=lambda st, rnd, tier: [{}],
          targets=[(C, "Circuit.get_entangled_indices"), (C, "Circuit.split"), (C, "Circuit.depth"), (C, "Circuit.copy"), (C, "Circuit.inverse"), (C, "simplify"),
                   ("tangelo/toolboxes/operators/trim_trivial_qubits.py", "trim_trivial_circuit"), ("tangelo/toolboxes/operators/trim_trivial_qubits.py", "trim_trivial_qubits")])
def o12(h, st):
    """bounded: along every history of read-only operations on ONE circuit object (entangled index sets, split with / without trimming, trim_trivial_circuit /
    trim_trivial_qubits from the operator toolbox, depth, copy, inverse, the out-of-place simplify, *, +) each result equals the result of the same operation on a FRESH
    circuit built from the same gates, and the circuit's observable state is unchanged at the end: nothing an operation leaves behind (in the circuit or in what it
    returned to the caller) influences a later one"""
    from tangelo.linq import Circuit
    from tangelo.toolboxes.operators import QubitOperator
    TT = "tangelo/toolboxes/operators/trim_trivial_qubits.py"
    spec = RO_SPECS[st["spec"]]
    mk = lambda: Circuit([mk_gate(*g) for g in spec])
    c = mk()
    before = snapshot(c.__dict__)

    def run(op, circ):
        if op == "entangled":
            r = h.call(C, "Circuit.get_entangled_indices", circ)
            out = _canon(sorted([sorted(x) for x in r]))
            # a caller may consume what it was handed (the toolbox does): that must not reach the circuit
            for x in r:
                if x:
                    x.pop()
            return out
        if op == "split":
            return _canon(h.call(C, "Circuit.split", circ))
        if op == "split_no_trim":
            return _canon(h.call(C, "Circuit.split", circ, False))
        if op == "trim_trivial":
            return _canon(h.call(TT, "trim_trivial_circuit", circ))
        if op == "trim_trivial_qubits_op":
            q = QubitOperator(((0, "Z"), (3, "Z")), 0.5) + QubitOperator(((1, "X"),), 0.25)
            return _canon(h.call(TT, "trim_trivial_qubits", q, circ))
        if op == "depth":
            return h.call(C, "Circuit.depth", circ)
        if op == "copy":
            return _canon(h.call(C, "Circuit.copy", circ))
        if op == "inverse":
            return _canon(h.call(C, "Circuit.inverse", circ))
        if op == "simplify_fn":
            return _canon(h.call(C, "simplify", circ))
        if op == "mul":
            return _canon(h.call(C, "Circuit.__mul__", circ, 2))
        if op == "add":
            return _canon(h.call(C, "Circuit.__add__", circ, Circuit([mk_gate("H", 0)])))
        raise ValueError(op)
    for k, op in enumerate(st["ops"]):
        got = run(op, c)
        want = run(op, mk())
        h.check(f"step {k} ({op}) after {st['ops'][:k]}: same result as on a fresh circuit", got == want, detail=f"{str(got)[:150]} vs {str(want)[:150]}")
    h.check("observable state of the circuit unchanged by the history", snapshot(c.__dict__) == before)
    h.done()


from tverif.engine import repeatable
repeatable((C, "Circuit.get_entangled_indices"), (C, "Circuit.split"), (C, "Circuit.depth"), (C, "Circuit.copy"), (C, "Circuit.inverse"), (C, "remove_small_rotations"),
           (C, "remove_redundant_gates"), (C, "merge_rotations"), (C, "simplify"), (C, "stack"), (CL, "decompose_gate_to_cliffords"), (G, "Gate.inverse"))

PROPERTY = {
    "level": "proof",
    "explanation": "S-level contracts on Gate.inverse/__eq__, Circuit.inverse/copy/+/*, remove_small_rotations, remove_redundant_gates, "
                   "merge_rotations, simplify, split, stack, trim_qubits, reindex_qubits and decompose_gate_to_cliffords: the real AST is executed "
                   "on every enumerated small circuit with all rotation angles symbolic; operator equalities are decided exactly (canonical "
                   "normal form in Q(zeta_32)[cos,sin]) for every real angle; threshold / modulo conditions by z3 over the reals. Unbounded (modular, ghost sequences with callee contracts): Gate.inverse on every placement (P0, symbolic indices), Circuit.inverse (P1) and remove_small_rotations (P2) on circuits of ANY length. Bounded histories of read-only operations on one circuit object against fresh circuits (O12).",
    "bounds": {"quick": "circuits of <= 3 gates over 4-8 gate kinds on <= 4 qubits; every invertible gate name with 0-2 controls; k*pi/2 for k in [-6,8]",
               "thorough": "circuits of <= 3-4 gates over 6-13 gate kinds"},
    "assumptions": ["floating-point arithmetic treated as real arithmetic (round(x,7) modelled as a function with |round(x)-x| <= 5e-8)",
                    "x % (2*pi): quotient restricted to [-8, 8] (angles |x| <= 16*pi)",
                    "lemma (cited, not machine-checked): a rotation by an angle within thr of a multiple of its period is within thr/2 of lambda*1",
                    "structure bounded as stated; longer circuits follow by composition of the per-gate contracts (not machine-checked)"],
    "trusted_base": ["tverif AST interpreter", "tverif.ring exact arithmetic", "tverif.qsem gate definitions", "z3 / cvc5"],
}
