"""C06 -- Pauli-exponential and time-evolution circuits implement exp(-itH)."""
import itertools
from tverif.engine import contract
from tverif import qsem

AU = "tangelo/toolboxes/ansatz_generator/ansatz_utils.py"


def words(nq, maxlen=None):
    """all Pauli words (tuples of (index, letter)) with support inside range(nq), every order of listing kept sorted
    plus one reversed listing per word (the code sorts indices itself)"""
    out = []
    for k in range(1, (maxlen or nq) + 1):
        for idx in itertools.combinations(range(nq), k):
            for letters in itertools.product("XYZ", repeat=k):
                out.append([[i, l] for i, l in zip(idx, letters)])
    return out


def o3_structures(tier):
    nq = 3 if tier == "quick" else 4
    sts = []
    for w in words(nq):
        used = {i for i, _ in w}
        free = [q for q in range(nq + 1) if q not in used]
        ctrls = [None] + [[q] for q in free[:2]]
        if len(free) >= 2:
            ctrls.append(free[:2])
        for ctrl in ctrls:
            for sign in ("nonneg", "neg"):
                sts.append({"word": w, "control": ctrl, "sign": sign, "n": nq + 1})
        # one unsorted listing
        if len(w) >= 2:
            sts.append({"word": w[::-1], "control": None, "sign": "nonneg", "n": nq + 1})
    return sts


def o3_samples(st, rnd, tier):
    vals = [0.0, 0.3, 1.0, 3.2, 7.1] if st["sign"] == "nonneg" else [-0.3, -1e-9, -3.2, -7.1]
    return [{"c": v} for v in (vals if tier != "quick" else vals[:3])]


@contract("C06", "O3.exp_pauliword_to_gates.semantics", targets=[(AU, "exp_pauliword_to_gates"), (AU, "pauli_op_to_gate")],
          level="S", structures=o3_structures, native_samples=o3_samples)
def o3(h, st):
    """ensures U(result) == cos c * 1 - i sin c * P(word)  (controlled: |0><0| (x) 1 + |1><1| (x) exp(-icP)), for every real c"""
    n = st["n"]
    word = tuple((i, l) for i, l in st["word"])
    c = h.real("c", angle_denom=1)
    h.assume(c >= 0 if st["sign"] == "nonneg" else c < 0)
    ctrl = st["control"]
    control = None if ctrl is None else (ctrl[0] if len(ctrl) == 1 else list(ctrl))
    gates = h.call(AU, "exp_pauliword_to_gates", word, c, True, control)
    U, A = qsem.unitary(gates, n, exact=h.symbolic)
    E = qsem.exp_pauli_rows(word, c, n, A)
    if ctrl is not None:
        E = qsem.controlled_rows(E, ctrl, n, A)
    h.mat_equal("unitary == exp(-i c P)", U, E, A, n)
    nvar = sum(1 for g in gates if g.is_variational)
    h.check("exactly one variational gate", nvar == 1)
    h.done()

PROPERTY = {
    "level": "proof",
    "explanation": "S-level: for each enumerated structure (Pauli word, control placement, sign case) the real function's AST is executed "
                   "symbolically with the coefficient as a symbol; the resulting operator is compared with the specification in the exact "
                   "ring Q(zeta_32)[cos,sin]/(c^2+s^2-1), whose normal form is canonical: a zero difference is a proof for every real coefficient.",
    "bounds": {"quick": "words on <= 3 qubits in a 4-qubit register, controls: none / 1 / 2 qubits", "thorough": "words on <= 4 qubits in a 5-qubit register"},
    "assumptions": ["floating-point arithmetic treated as real arithmetic", "structure (word length, register size) bounded as stated"],
    "trusted_base": ["tverif AST interpreter (Python semantics as implemented in tverif/interp.py, validated differentially)",
                     "tverif.ring exact arithmetic", "z3 4.x / cvc5 for path feasibility"],
}
