"""C06 -- Pauli-exponential and time-evolution circuits implement exp(-itH)."""
import itertools
from tverif.engine import contract
from tverif import qsem, ring

AU = "tangelo/toolboxes/ansatz_generator/ansatz_utils.py"


def words(nq, maxlen=None):
    """all Pauli words (tuples of (index, letter)) with support inside range(nq), every order of listing kept sorted
    plus one reversed listing per word (the code sorts indices itself)"""
    out = []
    for k in range(1, (maxlen or nq) + 1):
        for idx in itertools.combinations(range(nq), k):
            for letters in itertools.product("XYZ", repeat=k):
                out.append([[i, l] for i, l in zip(idx, letters)])
    return out


def o3_structures(tier):
    nq = 3 if tier == "quick" else 4
    sts = []
    for w in words(nq):
        used = {i for i, _ in w}
        free = [q for q in range(nq + 1) if q not in used]
        ctrls = [None] + [[q] for q in free[:2]]
        if len(free) >= 2:
            ctrls.append(free[:2])
        for ctrl in ctrls:
            for sign in ("nonneg", "neg"):
                sts.append({"word": w, "control": ctrl, "sign": sign, "n": nq + 1})
        # one unsorted listing
        if len(w) >= 2:
            sts.append({"word": w[::-1], "control": None, "sign": "nonneg", "n": nq + 1})
    return sts


def o3_samples(st, rnd, tier):
    vals = [0.0, 0.3, 1.0, 3.2, 7.1] if st["sign"] == "nonneg" else [-0.3, -1e-9, -3.2, -7.1]
    return [{"c": v} for v in (vals if tier != "quick" else vals[:3])]


@contract("C06", "O3.exp_pauliword_to_gates.semantics", targets=[(AU, "exp_pauliword_to_gates"), (AU, "pauli_op_to_gate")],
          level="S", structures=o3_structures, native_samples=o3_samples)
def o3(h, st):
    """ensures U(result) == cos c * 1 - i sin c * P(word)  (controlled: |0><0| (x) 1 + |1><1| (x) exp(-icP)), for every real c"""
    n = st["n"]
    word = tuple((i, l) for i, l in st["word"])
    c = h.real("c", angle_denom=1)
    h.assume(c >= 0 if st["sign"] == "nonneg" else c < 0)
    ctrl = st["control"]
    control = None if ctrl is None else (ctrl[0] if len(ctrl) == 1 else list(ctrl))
    gates = h.call(AU, "exp_pauliword_to_gates", word, c, True, control)
    U, A = qsem.unitary(gates, n, exact=h.symbolic)
    E = qsem.exp_pauli_rows(word, c, n, A)
    if ctrl is not None:
        E = qsem.controlled_rows(E, ctrl, n, A)
    h.mat_equal("unitary == exp(-i c P)", U, E, A, n)
    nvar = sum(1 for g in gates if g.is_variational)
    h.check("exactly one variational gate", nvar == 1)
    h.done()


# ---------------------------------------------------------------------------------------------------------------------
# O1: change-of-basis gates

@contract("C06", "O1.pauli_op_to_gate", targets=[(AU, "pauli_op_to_gate")], level="S",
          structures=lambda tier: [{"op": op, "inverse": inv} for op in "XYZI" for inv in (False, True)])
def o1(h, st):
    """ensures: X -> R with R^dag Z R = X ; Y -> R (or R^dag when inverse) ; Z, I -> None"""
    g = h.call(AU, "pauli_op_to_gate", 1, st["op"], st["inverse"])
    if st["op"] in "ZI":
        h.check("no gate for Z / I", g is None)
        h.done()
        return
    h.check("a gate is returned", g is not None)
    n = 2
    U, A = qsem.unitary([g], n, exact=True)
    Ud = qsem.rows_dagger(U, A)
    Z = qsem.pauli_rows([(1, "Z")], n, A)
    P = qsem.pauli_rows([(1, st["op"])], n, A)
    # forward gate maps the P eigenbasis to the Z eigenbasis: U P U^dag == Z  (inverse flag: the adjoint gate)
    if st["inverse"]:
        lhs = qsem.rows_mul(qsem.rows_mul(Ud, P, A), U, A)
    else:
        lhs = qsem.rows_mul(qsem.rows_mul(U, P, A), Ud, A)
    h.mat_equal("R P R^dag == Z", lhs, Z, A, n)
    h.done()


# ---------------------------------------------------------------------------------------------------------------------
# O4/O5: exponentiated qubit operator (product formula, identity term, controls, returned phase)

def make_qop(terms):
    from tangelo.toolboxes.operators import QubitOperator
    op = QubitOperator()
    for w, c in terms:
        op.terms[tuple(tuple(x) for x in w)] = c
    return op


POOL3 = [[[0, "X"]], [[1, "Z"]], [[0, "Z"], [1, "Z"]], [[0, "X"], [2, "Y"]], [[0, "Y"], [1, "X"], [2, "Z"]], [[2, "X"]], [[1, "Y"], [2, "Y"]]]


def o4_structures(tier):
    sts = []
    pool = POOL3
    combos = []
    for k in (1, 2, 3):
        for c in itertools.combinations(range(len(pool)), k):
            combos.append(list(c))
    if tier == "quick":
        combos = combos[::5]
    for ci, combo in enumerate(combos):
        for ident in (False, True):
            for ctrl in (None, [3], [3, 4], [4, 3]):
                for order in (1, 2):
                    for tmode in ("1", "1/2", "dict"):
                        if tier == "quick" and (ci + order + len(tmode) + (1 if ident else 0) + (len(ctrl) if ctrl else 0)) % 5:
                            continue
                        sts.append({"terms": [pool[i] for i in combo], "identity": ident, "control": ctrl, "order": order, "time": tmode,
                                    "n": 5 if ctrl and len(ctrl) > 1 else 4})
    # order 2 on operators whose words have DIFFERENT weights and overlap on one qubit with different letters (anticommuting pairs such as X0X1 / Z0, the transverse-field
    # Ising pattern Z0 + X0X1 + Z1, a weight-3 word against weight-1 words), next to genuinely commuting mixed-weight sets: the second-order sequence must be generated
    # whenever the words do not all commute
    mixed = [[[[0, "X"], [1, "X"]], [[0, "Z"]]], [[[0, "Z"]], [[0, "X"], [1, "X"]], [[1, "Z"]]], [[[0, "X"], [1, "Y"], [2, "Z"]], [[1, "Z"]], [[2, "X"]]],
             [[[0, "Z"], [1, "Z"]], [[0, "Z"]], [[1, "Z"]]], [[[0, "Y"], [2, "Y"]], [[2, "Z"]]], [[[1, "X"]], [[0, "Z"], [1, "Z"], [2, "Z"]]]]
    for terms in mixed:
        for ident in (False, True):
            for ctrl in (None, [3]):
                for tmode in ("1", "dict"):
                    sts.append({"terms": terms, "identity": ident, "control": ctrl, "order": 2, "time": tmode, "n": 4})
    # control lists that contain qubit 0 (words shifted to qubits 1..3)
    for combo in ([0], [1, 2], [3, 4]):
        for ident in (False, True):
            for ctrl in ([0], [0, 4], [4, 0]):
                sts.append({"terms": [[[q + 1, l] for q, l in pool[i]] for i in combo], "identity": ident, "control": ctrl, "order": 1, "time": "1", "n": 5})
    return sts


def o4_samples(st, rnd, tier):
    k = len(st["terms"]) + (1 if st["identity"] else 0)
    out = []
    for _ in range(2 if tier == "quick" else 6):
        out.append({f"c{j}": rnd.choice([rnd.uniform(-4, 4), 0.0, 7.3, -1e-11]) for j in range(k)})
    return out


def _time_value(tmode, j):
    from fractions import Fraction
    if tmode == "1":
        return Fraction(1)
    if tmode == "1/2":
        return Fraction(1, 2)
    return [Fraction(1, 2), Fraction(1), Fraction(2), Fraction(1, 2)][j % 4]


@contract("C06", "O4.get_exponentiated_qubit_operator_circuit", level="S", structures=o4_structures, native_samples=o4_samples,
          targets=[(AU, "get_exponentiated_qubit_operator_circuit"), (AU, "recursive_trotter_suzuki_decomposition"), (AU, "exp_pauliword_to_gates")])
def o4(h, st):
    """ensures U(circuit) * phase == ordered product of exp(-i t_j c_j P_j) (order 1) / its symmetric version (order 2),
    identity term -> returned phase (no control) or a phase on the controlled subspace; for every real c_j"""
    n = st["n"]
    words = [w for w in st["terms"]] + ([[]] if st["identity"] else [])
    tm = st["time"]
    fr = [_time_value(tm, j) / (2 if st["order"] == 2 else 1) for j in range(len(words))]
    coefs = [h.real(f"c{j}", angle_denom=fr[j].denominator) for j in range(len(words))]
    terms = list(zip(words, coefs))
    qop = make_qop(terms)
    if tm == "dict":
        time = {tuple(tuple(x) for x in w): (float(_time_value(tm, j)) if not h.symbolic else ring.Poly.const(_time_value(tm, j))) for j, w in enumerate(words)}
        tvals = [_time_value(tm, j) for j in range(len(words))]
    else:
        tv = _time_value(tm, 0)
        time = ring.Poly(ring.Poly.const(tv).t, False) if h.symbolic else float(tv)
        tvals = [tv] * len(words)
    for c, t in zip(coefs, tvals):
        # below the threshold the code drops the term (deviation <= 1e-10, outside the exact statement)
        h.assume(abs(c * float(t)) > 1e-9 if not h.symbolic else abs(c * ring.Poly.const(t)) > 1e-9)
    ctrl = st["control"]
    control = None if ctrl is None else (ctrl[0] if len(ctrl) == 1 else list(ctrl))
    circuit, phase = h.call(AU, "get_exponentiated_qubit_operator_circuit", qop, time, False, st["order"], control, True)
    U, A = qsem.unitary(circuit._gates, n, exact=h.symbolic)
    # specification
    seq = [(w, c * (ring.Poly.const(t) if h.symbolic else float(t))) for (w, c), t in zip(terms, tvals)]
    if st["order"] == 2:
        half = ring.Poly.const(__import__("fractions").Fraction(1, 2)) if h.symbolic else 0.5
        seq = [(w, a * half) for w, a in seq] + [(w, a * half) for w, a in seq[::-1]]
    E = qsem.identity_rows(n, A)
    for w, a in seq:
        E = qsem.apply_exp_pauli(E, [tuple(x) for x in w], a, n, A, controls=ctrl)
    U = qsem.rows_scale(U, phase if not isinstance(phase, float) or not h.symbolic else ring.Poly.const(phase), A)
    h.mat_equal("U(circuit) * phase == product formula", U, E, A, n)
    if ctrl is not None:
        h.check_close("phase returned with a control is 1", phase, 1.0)
    h.done()


# ---------------------------------------------------------------------------------------------------------------------
# O6: Trotter-Suzuki decomposition (orders 1 and 2 exact; per-word time fractions sum to t)

@contract("C06", "O6.recursive_trotter_suzuki_decomposition", targets=[(AU, "recursive_trotter_suzuki_decomposition")], level="S",
          structures=lambda tier: [{"k": k, "order": o} for k in (1, 2, 3, 4) for o in (1, 2)],
          native_samples=lambda st, rnd, tier: [{"t": rnd.uniform(-3, 3), **{f"c{j}": rnd.uniform(-2, 2) for j in range(st["k"])}} for _ in range(3)])
def o6(h, st):
    """ensures order 1: [(w, Re(c_w) t)] in order ; order 2: S1(t/2) ++ S1(reversed, t/2) ; per word the times sum to c_w t"""
    k = st["k"]
    t = h.real("t")
    cs = [h.real(f"c{j}") for j in range(k)]
    words = [((j, "X"),) for j in range(k)]
    out = h.call(AU, "recursive_trotter_suzuki_decomposition", list(zip(words, cs)), st["order"], t)
    if st["order"] == 1:
        h.check("length", len(out) == k)
        for j in range(k):
            h.check(f"word {j} in place", out[j][0] == words[j])
            h.check_close(f"time of word {j}", out[j][1], cs[j] * t)
    else:
        h.check("length", len(out) == 2 * k)
        exp_words = words + words[::-1]
        exp_c = cs + cs[::-1]
        for j in range(2 * k):
            h.check(f"word {j} in place", out[j][0] == exp_words[j])
            h.check_close(f"time of entry {j}", out[j][1], exp_c[j] * t / 2)
    for j in range(k):
        tot = sum(c for w, c in out if w == words[j])
        h.check_close(f"time fractions of word {j} sum to c*t", tot, cs[j] * t)
    h.done()


@contract("C06", "O6b.trotter_suzuki_higher_order_fractions", targets=[(AU, "recursive_trotter_suzuki_decomposition")], level="B",
          structures=lambda tier: [{"k": k, "order": o} for k in (1, 2, 3) for o in (4, 6, 8)],
          native_samples=lambda st, rnd, tier: [{"t": rnd.uniform(-3, 3), **{f"c{j}": rnd.uniform(-2, 2) for j in range(st["k"])}} for _ in range(4)])
def o6b(h, st):
    """bounded: for orders 4, 6 and 8 the sequence is Suzuki's fractal formula S_2k(t) = S_2k-2(p_k t)^2 S_2k-2((1 - 4 p_k) t) S_2k-2(p_k t)^2 with
    p_k = 1 / (4 - 4^(1/(2k-1))) at EVERY level of the recursion (spec function evaluated independently, word by word and time by time); the time fractions of every word
    sum to c_w t and the word sequence is palindromic"""
    k = st["k"]
    t = h.real("t")
    cs = [h.real(f"c{j}") for j in range(k)]
    words = [((j, "X"),) for j in range(k)]
    out = h.call(AU, "recursive_trotter_suzuki_decomposition", list(zip(words, cs)), st["order"], t)
    for j in range(k):
        tot = sum(c for w, c in out if w == words[j])
        h.check_close(f"time fractions of word {j} sum to c*t", tot, cs[j] * t, tol=1e-9)
    h.check("palindromic word sequence", [w for w, _ in out] == [w for w, _ in out][::-1])
    if not h.symbolic:
        def suzuki(order, tt):
            if order == 2:
                half = [(w, c * tt / 2) for w, c in zip(words, cs)]
                return half + half[::-1]
            pk = 1.0 / (4.0 - 4.0 ** (1.0 / (order - 1)))
            outer = suzuki(order - 2, pk * tt)
            return outer + outer + suzuki(order - 2, (1.0 - 4.0 * pk) * tt) + outer + outer
        ref = suzuki(st["order"], float(t))
        same = len(ref) == len(out) and all(a[0] == b[0] and abs(float(a[1]) - float(b[1])) < 1e-10 for a, b in zip(out, ref))
        h.check("sequence == Suzuki's fractal formula with the level's own p_k at every level", same,
                detail=f"{len(out)} vs {len(ref)} entries; first difference {next(((i, a, b) for i, (a, b) in enumerate(zip(out, ref)) if a[0] != b[0] or abs(float(a[1]) - float(b[1])) >= 1e-10), None)}")
    h.done()


# ---------------------------------------------------------------------------------------------------------------------
# O7: trotterize (qubit operators: S ; fermionic operators: bounded native)

def o7_structures(tier):
    sts = []
    k = 0
    for combo in ([0], [1, 2], [0, 3], [3, 4]) if tier == "quick" else ([0], [1, 2], [0, 3], [2, 4, 6], [3, 4], [0, 1, 5]):
        for ident in (False, True):
            for steps in (1, 2, 3):
                for order in (1, 2):
                    for ctrl in (None, [3]):
                        for tmode in ("scalar", "dict"):
                            k += 1
                            if tier == "quick" and k % 3:
                                continue
                            if len(combo) + (1 if ident else 0) >= 3 and steps == 3 and order == 2:
                                continue   # degree of the trig polynomials explodes; covered by the native bounded runs
                            sts.append({"terms": [POOL3[i] for i in combo], "identity": ident, "steps": steps, "order": order, "control": ctrl, "time": tmode, "n": 4})
    return sts


@contract("C06", "O7.trotterize.qubit_operator", level="S", structures=o7_structures, native_samples=o4_samples,
          targets=[(AU, "trotterize"), (AU, "get_exponentiated_qubit_operator_circuit")])
def o7(h, st):
    """ensures (circuit, phase) == (one product-formula step with time t/n) repeated n times; input operator unchanged"""
    from fractions import Fraction
    from tverif.engine import snapshot
    n = st["n"]
    words = [w for w in st["terms"]] + ([[]] if st["identity"] else [])
    steps = st["steps"]
    if st["time"] == "dict":
        tvals = [[Fraction(1), Fraction(2), Fraction(1, 2)][j % 3] for j in range(len(words))]
    else:
        tvals = [Fraction(1)] * len(words)
    coefs = [h.real(f"c{j}", angle_denom=(tvals[j] / steps / (2 if st["order"] == 2 else 1)).denominator) for j in range(len(words))]
    for c in coefs:
        h.assume(abs(c) > 1e-8)
    terms = list(zip(words, coefs))
    qop = make_qop(terms)
    before = snapshot(qop.terms)
    if st["time"] == "dict":
        time = {tuple(tuple(x) for x in w): (ring.Poly.const(t) if h.symbolic else float(t)) for w, t in zip(words, tvals)}
    else:
        time = ring.Poly(ring.Poly.const(Fraction(1)).t, False) if h.symbolic else 1.
    ctrl = st["control"]
    control = None if ctrl is None else ctrl[0]
    circuit, phase = h.call(AU, "trotterize", qop, time, steps, st["order"], False, {}, control, True)
    h.check("operator argument unchanged", snapshot(qop.terms) == before)
    U, A = qsem.unitary(circuit._gates, n, exact=h.symbolic)
    seq = [(w, c * (ring.Poly.const(t / steps) if h.symbolic else float(t / steps))) for (w, c), t in zip(terms, tvals)]
    if st["order"] == 2:
        half = ring.Poly.const(Fraction(1, 2)) if h.symbolic else 0.5
        seq = [(w, a * half) for w, a in seq] + [(w, a * half) for w, a in seq[::-1]]
    E = qsem.identity_rows(n, A)
    for _ in range(steps):
        for w, a in seq:
            E = qsem.apply_exp_pauli(E, [tuple(x) for x in w], a, n, A, controls=ctrl)
    U = qsem.rows_scale(U, phase if not (isinstance(phase, float) and h.symbolic) else ring.Poly.const(phase), A)
    h.mat_equal("U(circuit) * phase == (step)^n", U, E, A, n)
    h.done()


# O7b: trotterize on fermionic operators (scalar time or per-term dictionary, several steps) ---------------------------------------

FERM_TERMS = [((0, 1), (1, 0)), ((1, 1), (0, 0)), ((2, 1), (2, 0)), (), ((2, 1), (3, 0)), ((3, 1), (2, 0))]


def o7b_structures(tier):
    sts = []
    # terms on disjoint modes only (a hopping pair and a number operator on one of its modes do not commute)
    combos = ([0, 1], [2], [0, 1, 2, 3], [4, 5, 3]) if tier == "quick" else ([0, 1], [2], [0, 1, 2, 3], [4, 5, 3], [0, 1, 4, 5], [2, 3])
    for combo in combos:
        for steps in (1, 2, 3):
            for order in (1, 2):
                for tmode in ("scalar", "dict"):
                    for mapping in ("jw", "bk"):
                        if tier == "quick" and mapping == "bk" and (steps == 3 or order == 2):
                            continue
                        for sign in ("pos", "neg"):
                            sts.append({"terms": combo, "steps": steps, "order": order, "time": tmode, "mapping": mapping, "sign": sign})
    return sts


@contract("C06", "O7b.trotterize.fermionic_operator", level="S", structures=o7b_structures, max_paths=200,
          native_samples=lambda st, rnd, tier: [{f"c{j}": (1 if st["sign"] == "pos" else -1) * rnd.uniform(0.2, 2) for j in range(4)} for _ in range(2)],
          targets=[(AU, "trotterize"), (AU, "get_exponentiated_qubit_operator_circuit"), ("tangelo/toolboxes/qubit_mappings/mapping_transform.py", "fermion_to_qubit_mapping")])
def o7b(h, st):
    """fermionic input: hopping pairs (Hermitian, same coefficient and time for a term and its conjugate) and number operators on disjoint modes commute after
    encoding, so (circuit, phase) must implement exp(-i sum_k t_k c_k Q(f_k)) EXACTLY, for a scalar time or a per-term time dictionary and every number of steps;
    checked as an exact operator identity for every coefficient value; the fermionic operator passed in is unchanged"""
    from fractions import Fraction
    from tverif.engine import snapshot
    from tangelo.toolboxes.operators import FermionOperator
    from tangelo.toolboxes.qubit_mappings.mapping_transform import fermion_to_qubit_mapping
    import openfermion.ops.operators.symbolic_operator as so
    if ring.Poly not in so.COEFFICIENT_TYPES:
        so.COEFFICIENT_TYPES = tuple(so.COEFFICIENT_TYPES) + (ring.Poly,)
    n = 4
    steps, order = st["steps"], st["order"]
    idx = st["terms"]
    # one coefficient per Hermitian group: terms 0/1 share c0, 4/5 share c2
    group = {0: 0, 1: 0, 2: 1, 3: 3, 4: 2, 5: 2}
    tgroup = {0: Fraction(1), 1: Fraction(1, 2), 2: Fraction(2), 3: Fraction(1)}
    if st["time"] == "scalar":
        tgroup = {k: Fraction(1) for k in tgroup}
    cs = {}
    for i in idx:
        gk = group[i]
        if gk not in cs:
            dn = (tgroup[gk] / steps / (2 if order == 2 else 1)).denominator
            # hopping a^0 a_1 + h.c. maps to c/2 (XX + YY): the half needs one more factor 2
            cs[gk] = h.real(f"c{gk}", angle_denom=dn * 2)
            # one sign for all coefficients: sums of identity contributions then stay away from openfermion's 1e-8 'is small' threshold,
            # below which it drops a term (an artefact of its tolerance, not of Tangelo)
            sg = 1 if st["sign"] == "pos" else -1
            h.assume(cs[gk] * sg > 0.05)
            h.assume(cs[gk] * sg < 3)
    op = FermionOperator()
    for i in idx:
        op.terms[FERM_TERMS[i]] = cs[group[i]]
    before = snapshot(dict(op.terms))
    if st["time"] == "dict":
        time = {FERM_TERMS[i]: (ring.Poly(ring.Poly.const(tgroup[group[i]]).t, False) if h.symbolic else float(tgroup[group[i]])) for i in idx}
    else:
        time = ring.Poly(ring.Poly.const(Fraction(1)).t, False) if h.symbolic else 1.0
    opts = {"qubit_mapping": st["mapping"], "n_spinorbitals": n, "up_then_down": False}
    circuit, phase = h.call(AU, "trotterize", op, time, steps, order, False, opts, None, True)
    h.check("fermionic operator argument unchanged", snapshot(dict(op.terms)) == before)
    U, A = qsem.unitary(circuit._gates, n, exact=h.symbolic)
    U = qsem.rows_scale(U, phase if not (isinstance(phase, float) and h.symbolic) else ring.Poly.const(phase), A)
    # specification: every term with its own total time, encoded natively (openfermion / Tangelo mapping, assumed) - the words commute
    total = FermionOperator()
    for i in idx:
        total.terms[FERM_TERMS[i]] = cs[group[i]] * (ring.Poly.const(tgroup[group[i]]) if h.symbolic else float(tgroup[group[i]]))
    q = fermion_to_qubit_mapping(total, st["mapping"], n, None, False)
    E = qsem.identity_rows(n, A)
    for w, coef in q.terms.items():
        cw = coef.real if hasattr(coef, "real") else coef
        E = qsem.apply_exp_pauli(E, list(w), cw, n, A)
    h.mat_equal("U(circuit) * phase == exp(-i sum_k t_k c_k Q(f_k))", U, E, A, n)
    h.done()

# ---------------------------------------------------------------------------------------------------------------------
# P1  the term loop of get_exponentiated_qubit_operator_circuit for an operator with ANY number of terms (loop cut; callees replaced by their contracts)

from tverif.engine import GhostList, Opaque, stub, snapshot, StandIn
from tverif.interp import GhostIterable, GSeq
from tverif.ring import Poly

CIRC = "tangelo/linq/circuit.py"


class _TermLoop(GhostIterable):
    managed = ("exp_pauli_word_gates", "phase")

    def __init__(self, h, word, coef, control, variational, calls):
        self.h, self.word, self.coef, self.control, self.variational, self.calls = h, word, coef, control, variational, calls
        self.iterations = 0

    def element(self):
        self.iterations += 1
        return (self.word, self.coef)

    def init(self, interp, env):
        self.h.check("on loop entry: no gates yet", env.lookup("exp_pauli_word_gates") == [])
        self.h.check_close("on loop entry: phase 1", env.lookup("phase"), 1)

    def havoc(self, interp, env):
        h = self.h
        self.acc = GhostList("exp_pauli_word_gates")
        self.ph0 = h.real("phase_re") + Poly.const(1j) * h.real("phase_im")      # arbitrary accumulated phase
        env.assign("exp_pauli_word_gates", self.acc)
        env.assign("phase", self.ph0)

    def step(self, interp, env, broke):
        h, c = self.h, self.coef
        h.check("the loop does not stop early", not broke)
        h.shape("gate list not rebound (prefix kept)", env.lookup("exp_pauli_word_gates") is self.acc)
        new = self.acc.appended
        ph = env.lookup("phase")
        if self.word:
            h.check_close("a Pauli-word term leaves the phase alone", ph, self.ph0)
            if new:
                h.check("the term's gates are exactly those of exp_pauliword_to_gates(word, Re coef, variational, control)", len(self.calls) == 1 and len(new) == 1
                        and isinstance(new[0], Opaque) and new[0]._info["call"] is self.calls[0])
                if len(self.calls) == 1:
                    a, k = self.calls[0]
                    full = dict(zip(["pauli_word", "coef", "variational", "control"], a))
                    full.update(k)
                    h.check("exp_pauliword_to_gates receives the word", full.get("pauli_word") == self.word)
                    h.check_close("... and the real coefficient", full.get("coef"), c)
                    h.check("... and the variational flag and the control", full.get("variational", True) == self.variational and full.get("control") == self.control)
            else:
                h.check("a term is skipped only if |coef| <= 1e-10 (exp(-i c P) is then within 1e-10 of the identity)", (c <= 1e-10) & (c >= -1e-10))
                h.check("a skipped term costs no call", self.calls == [])
        else:
            h.check("an identity term never calls exp_pauliword_to_gates", self.calls == [])
            if self.control is None:
                h.check("identity term without control: no gate", new == [])
                # phase' == phase * exp(-i c)
                h.check_close("identity term without control: phase multiplied by exp(-i c)", ph, self.ph0 * _cexp(c))
            else:
                h.check_close("identity term with control: returned phase untouched", ph, self.ph0)
                ctrl = [self.control] if isinstance(self.control, int) else list(self.control)
                n = max(ctrl) + 2
                h.check("identity term with control: one gate", len(new) == 1)
                if len(new) == 1:
                    U, A = qsem.unitary(new, n, exact=True)
                    # exp(-i c) on the subspace where every control is 1, identity elsewhere
                    E = qsem.controlled_rows({i: {i: qsem_scalar(A, c)} for i in range(2 ** n)}, ctrl, n, A)
                    h.mat_equal("identity term with control: phase exp(-i c) on the controlled subspace", U, E, A, n)
                    h.check("variational flag of the phase gate", new[0].is_variational == self.variational)


def _cexp(c):
    """exp(-i c) as an exact ring element"""
    return ring.expi(-1 * c)


def qsem_scalar(A, c):
    return _cexp(c)


def p1_structures(tier):
    sts = []
    for word in ([], [[0, "X"]], [[0, "Z"], [2, "Y"]]):
        for control in (None, 3, [3], [3, 4], [5, 3, 4]):
            for var in (False, True):
                for rp in (False, True):
                    sts.append({"word": word, "control": control, "variational": var, "return_phase": rp, "order": 1 if not var else 2})
    return sts


@contract("C06", "P1.get_exponentiated_qubit_operator_circuit.term_loop.any_number_of_terms", targets=[(AU, "get_exponentiated_qubit_operator_circuit")], level="P",
          structures=p1_structures)
def p1(h, st):
    """for an operator with ANY number of terms: the terms (in the operator's order, or the given pauli_order) go with the Trotter order and the time to
    recursive_trotter_suzuki_decomposition (contract O6); for the sequence it returns - any length - one generic iteration on a generic (word, coef), every real coef:
    a Pauli word contributes exactly the gates of exp_pauliword_to_gates(word, coef, variational, control) (contract O3: they implement [controlled] exp(-i coef P)), appended
    to an arbitrary prefix, and is skipped only if |coef| <= 1e-10; an identity term multiplies the returned phase by exp(-i coef) (no control) or appends one gate whose operator
    is exp(-i coef) on the controlled subspace; the result is Circuit(accumulated gates) [, phase]. By induction: U(circuit) * phase == ordered product of the factors"""
    if not h.symbolic:
        h.check("native: covered by O4", True)
        h.done()
        return
    word = tuple((i, l) for i, l in st["word"])
    c = h.real("c", angle_denom=1)
    calls, dec_calls, init_calls = [], [], []
    proto = _TermLoop(h, word, c, st["control"], st["variational"], calls)
    stub(h, AU, "exp_pauliword_to_gates", lambda a, k: [Opaque("gates of exp_pauliword_to_gates", call=calls[-1])], log=calls)
    stub(h, AU, "recursive_trotter_suzuki_decomposition", lambda a, k: proto, log=dec_calls)
    stub(h, CIRC, "Circuit.__init__", lambda a, k: None, log=init_calls)
    t = h.real("t")

    class _Terms(StandIn):
        def items(self_):
            return GSeq.atom("qubit_op.terms.items()", Opaque("generic term"))

    class _Op(StandIn):
        terms = _Terms()
    out = h.call(AU, "get_exponentiated_qubit_operator_circuit", _Op(), t, st["variational"], st["order"], st["control"], st["return_phase"])
    h.shape("the decomposition is asked once, for the operator's terms", len(dec_calls) == 1 and isinstance(dec_calls[0][0][0], GSeq) and len(dec_calls[0][0]) >= 3)
    h.check("... in the operator's order, with the Trotter order and the time", dec_calls[0][0][0].describe() in (("shallow", ("atom", "qubit_op.terms.items()")), ("atom", "qubit_op.terms.items()"))
            and dec_calls[0][0][1] == st["order"] and dec_calls[0][0][2] is t)
    h.shape("the loop body was entered once for the generic term", proto.iterations == 1)
    from tangelo.linq import Circuit
    h.shape("one circuit constructed from the accumulated gates", len(init_calls) == 1 and len(init_calls[0][0]) > 1 and init_calls[0][0][1] is proto.acc)
    if st["return_phase"]:
        h.check("(circuit, phase) returned", isinstance(out, tuple) and len(out) == 2 and isinstance(out[0], Circuit))
    else:
        h.check("circuit returned", isinstance(out, Circuit))
    h.done()


# ---------------------------------------------------------------------------------------------------------------------
# P2  trotterize for EVERY number of Trotter steps (symbolic integer) - callees replaced by their contracts

class _PhaseToken:
    def __init__(self):
        self.pows = []

    def __pow__(self, n):
        self.pows.append(n)
        return ("phase ** n", self, n)

    def __mul__(self, n):
        return ("phase * n", self, n)

    __rmul__ = __mul__


@contract("C06", "P2.trotterize.any_number_of_steps", targets=[(AU, "trotterize")], level="P",
          structures=lambda tier: [{"time": t, "return_phase": rp, "op": o} for t in ("scalar", "dict") for rp in (False, True) for o in ("qubit", "fermion")])
def p2(h, st):
    """for EVERY number of Trotter steps N >= 1 (symbolic integer), every time t (scalar, or a per-term dictionary) and every coefficient: the single-step circuit is requested
    from get_exponentiated_qubit_operator_circuit (contracts O4 / P1) with the time t / N per term (qubit operators; the operator itself is handed over as a copy) or, for fermionic
    operators, with every coefficient multiplied by its t / N and time 1, with the Trotter order / variational flag / control forwarded and the phase requested; the result is
    that circuit repeated N times (Circuit.__mul__, contract C11.P7) and the single-step phase to the power N; the operator and the time dictionary passed in are unchanged"""
    if not h.symbolic:
        h.check("native: covered by O7 / O7b", True)
        h.done()
        return
    from tangelo.linq import Circuit
    from tangelo.toolboxes.operators import QubitOperator, FermionOperator
    N = h.integer("N")
    h.assume(N >= 1)
    t1, t2, c1, c2 = h.real("t1"), h.real("t2"), h.real("c1"), h.real("c2")
    h.assume(c1 > 0.5)
    h.assume(c2 > 0.5)
    if st["op"] == "fermion":
        # requires: single-step coefficients above openfermion's 1e-8 compression threshold (terms below it are dropped by openfermion's +=)
        h.assume(t1 > 0.5)
        h.assume(t2 > 0.5)
        h.assume(N <= 1000000)
    if st["op"] == "qubit":
        op = QubitOperator()
        terms = [((0, "X"), (1, "Y")), ((2, "Z"),)]
    else:
        op = FermionOperator()
        terms = [((1, 1), (0, 0)), ((2, 1), (2, 0))]
    op.terms = {terms[0]: c1, terms[1]: c2}
    before = dict(op.terms)
    time = t1 if st["time"] == "scalar" else {terms[0]: t1, terms[1]: t2}
    tb = dict(time) if isinstance(time, dict) else None
    calls, muls = [], []
    step_circuit = Circuit.__new__(Circuit)
    phase = _PhaseToken()
    stub(h, AU, "get_exponentiated_qubit_operator_circuit", lambda a, k: (step_circuit, phase), log=calls)
    stub(h, CIRC, "Circuit.__mul__", lambda a, k: Opaque("circuit * n", of=a[0], n=a[1]), log=muls)
    if st["op"] == "fermion":
        stub(h, "tangelo/toolboxes/qubit_mappings/mapping_transform.py", "fermion_to_qubit_mapping", lambda a, k: Opaque("mapped", kw=k, a=a))

        def init_stub(a, kw):
            # (openfermion's constructor insists on concrete numeric coefficients; the term dictionary is what the code under contract builds and reads)
            me = a[0]
            t = a[1] if len(a) > 1 else kw.get("term")
            cf = a[2] if len(a) > 2 else kw.get("coefficient", 1.)
            me.terms = {} if t is None else {tuple(t): cf}
            me.n_spinorbitals = me.n_electrons = me.spin = None
        stub(h, "tangelo/toolboxes/operators/operators.py", "FermionOperator.__init__", init_stub)
    out = h.call(AU, "trotterize", op, time, N, 2, True, {}, [3, 4], st["return_phase"])
    h.check("operator unchanged", op.terms == before)
    if tb is not None:
        h.check("time dictionary unchanged", time == tb)
    h.shape("one single-step request", len(calls) == 1)
    a, k = calls[0]
    full = dict(zip(["qubit_op", "time", "variational", "trotter_order", "control", "return_phase", "pauli_order"], a))
    full.update(k)
    h.check("Trotter order, variational flag and control forwarded; the phase is requested", full.get("trotter_order") == 2 and full.get("variational") is True
            and full.get("control") == [3, 4] and full.get("return_phase") is True)
    per_term = {terms[0]: t1, terms[1]: (t1 if st["time"] == "scalar" else t2)}
    if st["op"] == "qubit":
        q = full.get("qubit_op")
        h.check("the operator is handed over as a copy with the same terms", q is not op and dict(q.terms) == before)
        et = full.get("time")
        if st["time"] == "scalar":
            h.check_close("single-step time * N == t", et * N, t1)
        else:
            h.shape("per-term single-step times", isinstance(et, dict) and set(et) == set(terms))
            for tm in terms:
                h.check_close(f"single-step time of term {tm} * N == its time", et[tm] * N, per_term[tm])
    else:
        m = full.get("qubit_op")
        h.shape("the mapped single-step operator is exponentiated", isinstance(m, Opaque) and m._label == "mapped")
        fo = m._info["kw"].get("fermion_operator", m._info["a"][0] if m._info["a"] else None)
        h.check_close("time 1 (already included in the coefficients)", full.get("time"), 1)
        h.shape("single-step fermionic operator with the same terms", fo is not None and set(fo.terms) == set(terms))
        for tm, cf in ((terms[0], c1), (terms[1], c2)):
            h.check_close(f"coefficient of {tm} * N == coefficient * its time", fo.terms[tm] * N, cf * per_term[tm])
    h.shape("the single-step circuit is repeated", len(muls) == 1 and muls[0][0][0] is step_circuit)
    h.check_close("... N times", muls[0][0][1], N)
    if st["return_phase"]:
        h.check("(circuit * N, phase ** N) returned", isinstance(out, tuple) and len(out) == 2 and isinstance(out[0], Opaque) and out[0]._info.get("of") is step_circuit
                and isinstance(out[1], tuple) and out[1][0] == "phase ** n" and out[1][1] is phase)
        if isinstance(out, tuple) and isinstance(out[1], tuple):
            h.check_close("phase raised to the power N", out[1][2], N)
    else:
        h.check("circuit * N returned", isinstance(out, Opaque) and out._info.get("of") is step_circuit)
    h.done()


from tverif.engine import repeatable
repeatable((AU, "exp_pauliword_to_gates"), (AU, "get_exponentiated_qubit_operator_circuit"), (AU, "trotterize"), (AU, "recursive_trotter_suzuki_decomposition"))

PROPERTY = {
    "level": "proof",
    "explanation": "S-level: for each enumerated structure (Pauli word, control placement, sign case) the real function's AST is executed "
                   "symbolically with the coefficient as a symbol; the resulting operator is compared with the specification in the exact "
                   "ring Q(zeta_32)[cos,sin]/(c^2+s^2-1), whose normal form is canonical: a zero difference is a proof for every real coefficient. Unbounded: the term loop of get_exponentiated_qubit_operator_circuit for operators with ANY number of terms (P1: loop cut; exp_pauliword_to_gates and the Trotter-Suzuki decomposition as callee contracts; phase bookkeeping, skip threshold and controlled identity terms for every real coefficient).",
    "bounds": {"quick": "words on <= 3 qubits in a 4-qubit register, controls: none / 1 / 2 qubits", "thorough": "words on <= 4 qubits in a 5-qubit register"},
    "assumptions": ["floating-point arithmetic treated as real arithmetic", "structure (word length, register size) bounded as stated"],
    "trusted_base": ["tverif AST interpreter (Python semantics as implemented in tverif/interp.py, validated differentially)",
                     "tverif.ring exact arithmetic", "z3 4.x / cvc5 for path feasibility"],
}
