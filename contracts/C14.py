"""C14 -- Qubit-reduction techniques keep the eigenvalue they are meant to keep."""
import itertools
import math
from fractions import Fraction

from tverif.engine import contract, snapshot
from tverif import qsem, ring
from tverif.ring import Poly

OP = "tangelo/toolboxes/operators/operators.py"
TT = "tangelo/toolboxes/operators/trim_trivial_qubits.py"
TQ = "tangelo/toolboxes/operators/taper_qubits.py"
ZT = "tangelo/toolboxes/operators/z2_tapering.py"
MF = "tangelo/toolboxes/operators/multiformoperator.py"


def mk_gate(name, target, control=None, parameter="", is_variational=False):
    from tangelo.linq import Gate
    return Gate(name, target, control, parameter, is_variational)


# O1 frobenius_norm_compression -------------------------------------------------------------------------------------------

WORDS = [((0, "Z"),), ((0, "X"), (1, "X")), ((1, "Y"),), ((0, "Z"), (1, "Z"))]


def o1_structures(tier):
    sts = []
    for n in range(2, 7 if tier == "quick" else 9):
        for k in (1, 2, 3):
            sts.append({"n": n, "k": k})
    return sts


@contract("C14", "O1.frobenius_norm_compression", targets=[(OP, "QubitOperator.frobenius_norm_compression")], level="S", structures=o1_structures, max_paths=600,
          native_samples=lambda st, rnd, tier: [{"eps": e, **{f"c{j}": c for j, c in enumerate(cs)}} for e, cs in ((0.1, (0.04, 0.05, 3.0)), (0.1, (0.036, 0.0, 5.0)), (1.0, (0.3, 0.2, 0.25)), (0.05, (1.0, 2.0, 3.0)))])
def o1(h, st):
    """the discarded terms D satisfy  2^(n/2) * sqrt(sum_D |c|^2) <= epsilon : their Frobenius norm - an upper bound of the operator norm of the discarded part -
    is at most epsilon, hence (Weyl) no eigenvalue moves by more than epsilon; kept terms keep their coefficients. For every coefficient value and every epsilon;
    register sizes odd and even"""
    from tangelo.toolboxes.operators import QubitOperator
    n, k = st["n"], st["k"]
    eps = h.real("eps")
    h.assume(eps > 0.001)
    h.assume(eps < 10)
    cs = [h.real(f"c{j}") for j in range(k)]
    for j, c in enumerate(cs):
        h.assume(c > 0.01 * (j + 1))          # positive, away from openfermion's 1e-8 compression threshold
        h.assume(c < 10)
    qop = QubitOperator()
    for w, c in zip(WORDS, cs):
        qop.terms[w] = c
    orig = dict(qop.terms)
    h.call(OP, "QubitOperator.frobenius_norm_compression", qop, eps, n)
    kept = dict(qop.terms)
    h.check("kept terms are a subset with unchanged coefficients", all(w in orig for w in kept))
    for w in kept:
        h.check_close(f"coefficient of kept term {w}", kept[w], orig[w])
    disc2 = 0
    for w, c in orig.items():
        if w not in kept:
            disc2 = disc2 + c * c
    # 2^(n/2) sqrt(S) <= eps   <=>   2^n * S <= eps^2   (both sides non-negative)
    h.check("Frobenius norm of the discarded part <= epsilon", (2 ** n) * disc2 <= eps * eps)
    h.done()


@contract("C14", "O1b.frobenius_norm_compression.spectrum", targets=[(OP, "QubitOperator.frobenius_norm_compression")], level="B",
          structures=lambda tier: [{"n": n, "kind": kd} for n in (1, 2, 3, 4, 5) for kd in ("random", "projector")],
          native_samples=lambda st, rnd, tier: [{"seed": rnd.randint(0, 10 ** 6)} for _ in range(3 if tier == "quick" else 10)])
def o1b(h, st):
    """bounded (numerical eigenvalues): truncation with tolerance epsilon moves no eigenvalue by more than epsilon - random operators and the extremal family
    A + delta |0..0><0..0| (all-Z words with equal small coefficients) for odd and even register sizes"""
    import random
    import numpy as np
    from tangelo.toolboxes.operators import QubitOperator
    from openfermion.linalg import get_sparse_operator
    import openfermion as of
    rnd = random.Random(int(h.integer("seed")))
    n = st["n"]
    eps = rnd.choice([0.1, 0.05, 0.3])
    qop = QubitOperator()
    if st["kind"] == "random":
        for _ in range(rnd.randint(2, 8)):
            w = tuple((i, rnd.choice("XYZ")) for i in range(n) if rnd.random() < 0.6)
            qop += QubitOperator(w, rnd.choice([rnd.uniform(-1, 1), rnd.uniform(-0.02, 0.02)]))
    else:
        delta = eps * rnd.uniform(1.0, 1.41)
        qop += QubitOperator(((0, "Z"),), 5.0)
        for sub in itertools.product((0, 1), repeat=n):
            w = tuple((i, "Z") for i in range(n) if sub[i])
            qop += QubitOperator(w, delta / 2 ** n)
    def spec(q):
        o = of.QubitOperator()
        o.terms = dict(q.terms)
        return np.sort(np.linalg.eigvalsh(get_sparse_operator(o, n_qubits=n).toarray()))
    before = spec(qop)
    h.call(OP, "QubitOperator.frobenius_norm_compression", qop, eps, n)
    after = spec(qop)
    shift = float(np.max(np.abs(before - after)))
    h.check("no eigenvalue moves by more than epsilon", shift <= eps + 1e-12, detail=f"n={n} eps={eps} max shift {shift:.4f}")
    h.done()


# O2/O3 trimming trivial qubits ----------------------------------------------------------------------------------------------

SINGLE = [None, ("X",), ("Z",), ("RZ", "t"), ("RX", "pi"), ("RX", "3pi"), ("RX", "t"), ("RY", "pi"), ("Y",), ("H",),
          ("RZ", "t", "X"), ("X", "RZ", "t"), ("X", "X"), ("RX", "pi", "RX", "-pi"), ("Z", "RZ", "t"), ("X", "Z"), ("H", "Z"), ("RX", "pi", "Z"), ("Y", "X"), ("RZ", "t", "RX", "t"),
          # components of three and more gates: phase gates BETWEEN partial rotations (they do not commute with them), partial rotations that add up to a multiple of pi
          ("RX", "pi/2", "Z", "RX", "pi/2"), ("RX", "t", "Z", "RX", "pi-t"), ("RX", "t", "RZ", "t", "RX", "-t"), ("X", "Z", "X"), ("RX", "pi", "RZ", "t", "X"),
          ("RZ", "t", "X", "RZ", "t"), ("X", "X", "X"), ("RX", "t", "RX", "pi-t"), ("RX", "pi/2", "RX", "pi/2"), ("X", "RX", "t", "X"), ("RX", "t", "RX", "-t", "Z", "X"),
          ("RX", "pi/2", "RZ", "pi", "RX", "-pi/2"), ("Z", "X", "Z", "X"),
          # rotations about DIFFERENT axes whose angles only jointly reach a multiple of pi (the qubit is in a superposition), next to mixed-axis pairs of exact bit flips
          ("RX", "pi/2", "RY", "pi/2"), ("RX", "t", "RY", "pi-t"), ("RY", "t", "RX", "-t"), ("RY", "pi/2", "RX", "-pi/2"), ("RX", "pi", "RY", "pi"), ("Y", "RX", "pi"),
          ("X", "RY", "t"), ("RY", "t", "X"), ("RY", "pi", "Z"), ("RY", "pi")]


def comp_gates(h, spec, q, tag):
    """gates of one single-qubit component"""
    if spec is None:
        return []
    out = []
    i = 0
    while i < len(spec):
        name = spec[i]
        if name in ("RX", "RY", "RZ"):
            p = spec[i + 1]
            val = {"pi": h.pi, "3pi": 3 * h.pi, "-pi": -1 * h.pi, "pi/2": h.pi / 2, "-pi/2": -1 * h.pi / 2}.get(p)
            if p in ("-t", "pi-t"):
                tv = h.real(f"t{tag}", angle_denom=2)
                h.assume(tv > 0.05)
                h.assume(tv < 3.0)
                val = -1 * tv if p == "-t" else h.pi - tv
            if val is None:
                # generic angle, away from the multiples of pi (exact bit flips are the separate 'pi' patterns; within atol = 1e-5 of a
                # bit flip the function deliberately treats the rotation as one)
                val = h.real(f"t{tag}", angle_denom=2)
                h.assume(val > 0.05)
                h.assume(val < 3.0)
            out.append(mk_gate(name, q, None, val))
            i += 2
        else:
            out.append(mk_gate(name, q))
            i += 1
    return out


def o3_structures(tier):
    sts = []
    ops = ["ZII", "IZI", "IIZ", "ZZI", "XII", "IXZ", "ZYZ", "ZZZ", "IXX", "III", "YIZ"]
    step = 1 if tier != "quick" else 3
    k = 0
    for a in range(len(SINGLE)):
        for b in (0, 1, 2, 3, 4, 10, 12):
            for ent in (False, True):
                k += 1
                if k % step:
                    continue
                sts.append({"a": a, "b": b, "entangle": ent, "ops": ops})
    return sts


@contract("C14", "O3.trim_trivial_qubits", level="S", structures=o3_structures, max_paths=64,
          native_samples=lambda st, rnd, tier: [{"t0": v, "t1": w} for v, w in ((0.4, 1.3), (2.9, 0.06), (1.5707963, 2.2))],
          targets=[(TT, "trim_trivial_qubits"), (TT, "trim_trivial_circuit"), (TT, "trim_trivial_operator"), (TT, "is_bitflip_gate")])
def o3(h, st):
    """<psi| O |psi> == <psi'| O' |psi'> exactly for the trimmed circuit / operator, for every operator of the list and every value of the rotation angles
    (idle qubits, flipped qubits, phase-only qubits, qubits that must be kept); trimmed states are 0/1 as the removed qubit's actual state"""
    from tangelo.linq import Circuit
    from tangelo.toolboxes.operators import QubitOperator
    _ = h.pi
    n = 4
    gates = comp_gates(h, SINGLE[st["a"]], 0, 0) + comp_gates(h, SINGLE[st["b"]], 2, 1)
    if st["entangle"]:
        gates += [mk_gate("H", 1), mk_gate("CNOT", 3, 1)]
    circ = Circuit(gates, n_qubits=n)
    if not gates:
        h.check("n/a (empty circuit)", True)
        h.done()
        return
    psi, A = qsem.apply_to_state(gates, n, {0: qsem.Exact.one if h.symbolic else 1 + 0j}, exact=h.symbolic)
    for word in st["ops"]:
        w = word + "I"
        term = tuple((i, p) for i, p in enumerate(w) if p != "I")
        qop = QubitOperator()
        qop.terms[term] = 1.0
        before = snapshot(circ.__dict__)
        top, tcirc = h.call(TT, "trim_trivial_qubits", qop, circ)
        h.check("input circuit unchanged", snapshot(circ.__dict__) == before)
        # reference value on the full register
        P = qsem.pauli_rows(list(term), n, A)
        ref = expectation(psi, P, A)
        n2 = max(h.getattr(tcirc, "width"), 1)
        psi2, _ = qsem.apply_to_state(tcirc._gates, n2, {0: A.one}, exact=h.symbolic)
        val = 0
        for t2, c2 in top.terms.items():
            P2 = qsem.pauli_rows(list(t2), n2, A)
            val = val + expectation(psi2, P2, A) * c2
        h.check_close(f"expectation value of {word} unchanged", val, ref, tol=1e-7)
    h.done()


def expectation(psi, P, A):
    tot = 0
    for i, row in P.items():
        if i not in psi:
            continue
        for j, v in row.items():
            if j in psi:
                tot = tot + A.conj(psi[i]) * v * psi[j]
    return tot


# O4..O6 tapering (numpy / eigenvalues: bounded) ---------------------------------------------------------------------------

def taper_structures(tier):
    sts = []
    for mol in ("H2", "H4") if tier != "quick" else ("H2",):
        for mapping in ("JW", "BK", "JKMN"):
            for utd in (False, True):
                sts.append({"mol": mol, "mapping": mapping, "utd": utd})
    sts.append({"mol": "H4+", "mapping": "JW", "utd": False})
    return sts


@contract("C14", "O6.QubitTapering.spectrum", level="B", structures=taper_structures, native_samples=lambda st, rnd, tier: [{}],
          targets=[(TQ, "QubitTapering.__init__"), (TQ, "QubitTapering._compute_z2_symmetries"), (ZT, "get_z2_taper_function"), (ZT, "get_clifford_operators"),
                   (ZT, "get_unitary"), (ZT, "get_eigenvalues"), (MF, "MultiformOperator.get_kernel"), (MF, "MultiformOperator.__mul__")])
def o6(h, st):
    """bounded (numerical eigenvalues): the tapered Hamiltonian acts on fewer qubits, every eigenvalue of it is an eigenvalue of the original, and it retains the lowest
    eigenvalue of the target electron-number / spin sector"""
    import numpy as np
    from contracts.C07 import molecule
    from contracts.C03 import qubit_matrix, fermi_matrix
    from tangelo.toolboxes.qubit_mappings.mapping_transform import fermion_to_qubit_mapping
    from tangelo.toolboxes.operators import QubitOperator
    mol = molecule(st["mol"])
    n = mol.n_active_sos
    H = fermion_to_qubit_mapping(mol.fermionic_hamiltonian, st["mapping"], n, mol.n_active_electrons, st["utd"], mol.spin)
    before = snapshot(dict(H.terms))
    tap = h.call(TQ, "QubitTapering", H, n, mol.n_active_electrons, mol.spin, st["mapping"], st["utd"])
    h.check("input operator unchanged", snapshot(dict(H.terms)) == before)
    Ht = tap.z2_tapered_op.qubitoperator
    nt = tap.z2_tapered_op.n_qubits
    h.check("fewer qubits", nt < n and nt == n - tap.z2_properties["n_symmetries"])
    ev_full = np.linalg.eigvalsh(qubit_matrix(H, n))
    ev_tap = np.linalg.eigvalsh(qubit_matrix(QubitOperator.from_openfermion(Ht) if not isinstance(Ht, QubitOperator) else Ht, nt))
    h.check("every eigenvalue of the tapered operator is an eigenvalue of the original", all(np.min(np.abs(ev_full - e)) < 1e-7 for e in ev_tap))
    # lowest eigenvalue of the (N, Sz) sector from the fermionic matrix
    Mf = fermi_matrix(mol.fermionic_hamiltonian, n)
    na = (mol.n_active_electrons + mol.spin) // 2
    nb = (mol.n_active_electrons - mol.spin) // 2
    idx = [d for d in range(2 ** n) if sum((d >> k) & 1 for k in range(0, n, 2)) == na and sum((d >> k) & 1 for k in range(1, n, 2)) == nb]
    e_sector = float(np.min(np.linalg.eigvalsh(Mf[np.ix_(idx, idx)])))
    h.check("sector ground-state energy retained", float(np.min(np.abs(ev_tap - e_sector))) < 1e-7, detail=f"sector {e_sector}, tapered min {float(np.min(ev_tap))}")
    # the same tapering applied to OTHER operators: terms that anticommute with one, two, three ... of the symmetry generators must be dropped, commuting ones kept.
    # Generators: read from the tapering function's closure (kernel, symplectic form [x | z]); commutation decided here by the symplectic product, term by term.
    cells = {nm: c.cell_contents for nm, c in zip(tap.z2_taper.__code__.co_freevars, tap.z2_taper.__closure__ or ())}
    kernel = cells.get("kernel")
    if kernel is None or not hasattr(kernel, "binary"):
        h.check("n/a: symmetry generators not exposed by this version of the tapering closure", True)
        h.done()
        return
    gens = np.array(kernel.binary).astype(int)

    def anticommuting_generators(word):
        x = np.zeros(n, dtype=int)
        z = np.zeros(n, dtype=int)
        for q, p_ in word:
            x[q] = 1 if p_ in "XY" else 0
            z[q] = 1 if p_ in "ZY" else 0
        return int(sum((int(np.sum(x & g[n:])) + int(np.sum(z & g[:n]))) % 2 for g in gens))
    words = [((0, "X"), (1, "X")), ((0, "X"),), ((1, "Y"), (2, "X")), ((0, "Z"), (1, "Z")), ((0, "X"), (2, "X")), ((0, "Y"), (1, "Y")), ((0, "X"), (1, "X"), (2, "X")),
             ((n - 1, "X"), (n - 2, "Y")), ((0, "Z"),), ((0, "X"), (n - 1, "X"))]
    seen = set()
    for word in words:
        k = anticommuting_generators(word)
        T = QubitOperator(word, 0.37)
        op = QubitOperator()
        op.terms = dict(H.terms)
        op += T
        op_before = snapshot(dict(op.terms))
        top = h.call(TQ, "QubitTapering.z2_tapering", tap, op)
        h.check(f"the operator handed to z2_tapering is unchanged (H + 0.37 * {word})", snapshot(dict(op.terms)) == op_before)
        topq = top.qubitoperator if hasattr(top, "qubitoperator") else top
        ev_t = np.linalg.eigvalsh(qubit_matrix(QubitOperator.from_openfermion(topq) if not isinstance(topq, QubitOperator) else topq, nt))
        sym = QubitOperator()
        sym.terms = dict(H.terms)
        if k == 0:
            sym += T
        ev_s = np.linalg.eigvalsh(qubit_matrix(sym, n))
        seen.add(min(k, 3))
        h.check(f"tapering H + 0.37 * {word} (term anticommuting with {k} generator(s)): every eigenvalue belongs to H" + (" + the term" if k == 0 else " alone (the term is dropped)"),
                all(np.min(np.abs(ev_s - e)) < 1e-7 for e in ev_t), detail=f"max distance {max(float(np.min(np.abs(ev_s - e))) for e in ev_t):.3e}")
    # (which classes the probe terms fall into depends on the generators found for this molecule / encoding: recorded, not required)
    # tapering is LINEAR: for operators c * H with purely imaginary, negative, complex and tiny c (H commutes with every generator) the tapered operator is c times the
    # tapered Hamiltonian, term by term - whatever the values of the coefficients are (an anti-Hermitian generator has purely imaginary coefficients)
    def terms_of(t):
        tq = t.qubitoperator if hasattr(t, "qubitoperator") else t
        return {w: complex(c) for w, c in tq.terms.items() if abs(c) > 1e-12}
    base = terms_of(h.call(TQ, "QubitTapering.z2_tapering", tap, H))
    for c in (1j, -1.0, 0.3 + 0.7j, -0.5j, 1e-3):
        op = QubitOperator()
        op.terms = {w: c * v for w, v in H.terms.items()}
        got = terms_of(h.call(TQ, "QubitTapering.z2_tapering", tap, op))
        dev = max([abs(got.get(w, 0) - c * base.get(w, 0)) for w in set(got) | set(base)] + [0.0])
        h.check(f"z2_tapering({c} * H) == {c} * z2_tapering(H), term by term", dev < 1e-9 * max(1.0, abs(c)), detail=f"max deviation {dev:.3e}; {len(got)} vs {len(base)} terms")
    h.done()


@contract("C14", "O4.kernel_orthogonality", level="B", native_samples=lambda st, rnd, tier: [{}],
          structures=lambda tier: [{"words": list(w)} for k in (1, 2, 3) for w in list(itertools.combinations(["".join(p) for p in itertools.product("IXYZ", repeat=2)][1:], k))[:: 7 if tier == "quick" else 2]],
          targets=[(MF, "MultiformOperator.get_kernel"), (MF, "MultiformOperator.from_qubitop")])
def o4(h, st):
    """bounded exhaustive: every vector returned by get_kernel is symplectically orthogonal to every term of the operator (it commutes with every term)"""
    import numpy as np
    from tangelo.toolboxes.operators import QubitOperator, MultiformOperator
    q = QubitOperator()
    for w in st["words"]:
        q += QubitOperator(tuple((i, p) for i, p in enumerate(w) if p != "I"), 1.0)
    mo = MultiformOperator.from_qubitop(q, 2)
    ker = h.call(MF, "MultiformOperator.get_kernel", mo)
    n = 2
    ok = True
    for kv in np.atleast_2d(ker) if len(ker) else []:
        kx, kz = kv[:n], kv[n:]
        for row in mo.binary:
            x, z = row[:n], row[n:]
            if (np.sum(kx & z) + np.sum(kz & x)) % 2:
                ok = False
    h.check("kernel vectors commute with every term", ok, detail=f"{st['words']} kernel {np.array(ker).astype(int).tolist() if len(ker) else []}")
    h.done()


# ---------------------------------------------------------------------------------------------------------------------
# P1  frobenius_norm_compression on an operator with ANY number of terms: inductive invariant of the discarding loop

from tverif.engine import GhostDict, stub, StandIn
from tverif.interp import GhostIterable, GSeq


class _DiscardLoop(GhostIterable):
    managed = ("coef2_sum", "compressed_op")

    def __init__(self, h, n, eps, word, c, S, D2, kept_any):
        self.h, self.n, self.eps, self.word, self.c, self.S, self.D2, self.kept_any = h, n, eps, word, c, S, D2, kept_any
        self.iterations = 0

    def element(self):
        self.iterations += 1
        return (self.word, self.c)

    def init(self, interp, env):
        self.h.check_close("on loop entry: the running sum is 0", env.lookup("coef2_sum"), 0)
        self.h.check("on loop entry: nothing kept yet", env.lookup("compressed_op") == {})

    def havoc(self, interp, env):
        self.iterations = 1          # (havoc runs only when the sequence is non-empty)
        self.kept = GhostDict("compressed_op", self.h.ctx)
        env.assign("compressed_op", self.kept)
        env.assign("coef2_sum", self.S)

    def step(self, interp, env, broke):
        h, c, S, D2, eps, n = self.h, self.c, self.S, self.D2, self.eps, self.n
        h.check("the loop does not stop early", not broke)
        h.shape("the kept terms are collected in the same dictionary", env.lookup("compressed_op") is self.kept)
        S2 = env.lookup("coef2_sum")
        h.check_close("running sum += |coef|^2", S2, S + c * c)
        thr2 = eps * eps          # compared with 2^n * (sum of squares)
        if self.kept.written:
            h.check("a kept term keeps its word and coefficient", list(self.kept.written) == [self.word] and self.kept.written[self.word] is c)
            h.check("invariant: the discarded mass stays within the bound  2^n * D2 <= eps^2", (2 ** n) * D2 <= thr2)
            h.check("invariant: once a term is kept the running sum exceeds the threshold  2^n * S' > eps^2", (2 ** n) * S2 > thr2)
        else:
            # discarded: the discarded mass grows by |coef|^2
            h.check("invariant: the discarded mass stays within the bound  2^n * (D2 + |coef|^2) <= eps^2", (2 ** n) * (D2 + c * c) <= thr2)
            h.check("invariant: a term is discarded only while nothing has been kept (the discarded terms form a prefix)", ~self.kept_any if not isinstance(self.kept_any, bool) else not self.kept_any)


@contract("C14", "P1.frobenius_norm_compression.any_number_of_terms", targets=[(OP, "QubitOperator.frobenius_norm_compression")], level="P",
          structures=lambda tier: [{"n": n} for n in range(1, 9)], max_paths=40)
def p1(h, st):
    """for an operator with ANY number of terms, every epsilon > 0 and register sizes odd and even: inductive invariant of the discarding loop - with S the running sum of |c|^2 over the
    terms seen and D2 the sum over the discarded ones: 2^n D2 <= eps^2, D2 == S while nothing has been kept, 2^n S > eps^2 once something has been kept. One generic iteration on a
    generic term from an arbitrary state satisfying the invariant re-establishes it, and it holds initially; hence at exit the Frobenius norm 2^(n/2) sqrt(D2) of the discarded part is
    at most epsilon for operators of any size (the order produced by sorted() is not needed for this bound, only for discarding as much as possible); a kept term keeps its coefficient"""
    if not h.symbolic:
        h.check("native: covered by O1 / O1b", True)
        h.done()
        return
    from tangelo.toolboxes.operators import QubitOperator
    n = st["n"]
    eps, c, S, D2 = h.real("eps"), h.real("c"), h.real("S"), h.real("D2")
    kept_any = h.boolean("kept_any")
    h.assume(eps > 0)
    h.assume(c > 0.000001)           # away from openfermion's 1e-8 compression threshold; the sign does not matter (|c|^2)
    # the invariant, assumed for the arbitrary state before the generic iteration
    h.assume(S >= 0)
    h.assume(D2 >= 0)
    h.assume(D2 <= S)
    h.assume((2 ** n) * D2 <= eps * eps)
    h.assume(kept_any | (D2 == S))
    h.assume((~kept_any) | ((2 ** n) * S > eps * eps))
    word = ((0, "Z"), (1, "X"))
    proto = _DiscardLoop(h, n, eps, word, c, S, D2, kept_any)

    class _Terms(StandIn):
        def items(self_):
            return GSeq.atom("self.terms.items()", (word, c), proto=proto)
    qop = QubitOperator.__new__(QubitOperator)
    qop.__dict__["terms"] = _Terms()
    stub_calls = []
    import openfermion as of
    from tverif import interp as _i
    key = id(of.SymbolicOperator.compress)
    old = _i._MODELS.get(key)
    _i._MODELS[key] = lambda interp, f, args, kw: stub_calls.append("compress")        # assumed: compress() drops only terms below 1e-8
    try:
        h.call(OP, "QubitOperator.frobenius_norm_compression", qop, eps, n)
    finally:
        if old is None:
            _i._MODELS.pop(key, None)
        else:
            _i._MODELS[key] = old
    if proto.iterations == 0:
        h.check("operator without terms: nothing kept", isinstance(qop.__dict__["terms"], dict) and len(qop.__dict__["terms"]) == 0, detail=repr(qop.__dict__["terms"])[:100])
    else:
        h.check("the kept terms become the operator's terms", qop.__dict__["terms"] is proto.kept)
    h.done()


from tverif.engine import repeatable
repeatable((TT, "trim_trivial_qubits"), (TT, "trim_trivial_circuit"), (TT, "trim_trivial_operator"))

PROPERTY = {
    "level": "other",
    "explanation": "Truncation: the discarded part's Frobenius norm is proved <= epsilon for every coefficient value, every epsilon and register sizes odd and even "
                   "(z3, nonlinear real arithmetic over the AST of the real method). Trimming: expectation values are proved unchanged for every rotation angle on "
                   "every enumerated component pattern and operator (exact ring). Unbounded: the discarding loop for operators with ANY number of terms (P1: inductive invariant - discarded mass within the bound, discarded terms form a prefix - re-established by a generic iteration, z3). Tapering works on numpy bit matrices and eigenvalues: bounded native contract runs, also for operators other than the Hamiltonian (terms anticommuting with 0 / 1 / 2 generators).",
    "bounds": {"quick": "truncation: n = 2..6 qubits, 1-3 terms; trimming: 20 single-qubit component patterns x 7 x entangled pair or not (every 3rd) x 11 operators on 4 qubits; tapering: H2 in JW/BK/JKMN x orderings, H4+",
               "thorough": "n <= 8; all patterns; H4"},
    "assumptions": ["Frobenius norm >= operator norm and Weyl's inequality (cited)", "floats as reals", "tapering spectra: floating-point eigenvalues (1e-7), bounded stand-in"],
    "trusted_base": ["tverif AST interpreter", "tverif.ring / qsem", "z3", "openfermion", "numpy"],
}
