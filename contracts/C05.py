"""C05 -- Reference-state circuits encode the requested occupations."""
import itertools

from tverif.engine import contract, snapshot

SM = "tangelo/toolboxes/qubit_mappings/statevector_mapping.py"
MT = "tangelo/toolboxes/qubit_mappings/mapping_transform.py"
JK = "tangelo/toolboxes/qubit_mappings/jkmn.py"

MAPPINGS = ["JW", "BK", "SCBK", "JKMN"]


def diag_expectation(qop, bits):
    """<b|Q|b> for a computational basis state b (exact: only Z-type words contribute; coefficients are dyadic)"""
    tot = 0
    for term, c in qop.terms.items():
        if all(p == "Z" for _, p in term):
            s = 1
            for q, _ in term:
                if bits[q]:
                    s = -s
            tot = tot + c * s
    return tot


def number_operator(p):
    from tangelo.toolboxes.operators import FermionOperator
    return FermionOperator(((p, 1), (p, 0)), 1.0)


def admissible(n, ne, spin):
    """(n_alpha, n_beta) if the request is consistent"""
    if (ne + spin) % 2:
        return None
    na, nb = (ne + spin) // 2, (ne - spin) // 2
    if na < 0 or nb < 0 or 2 * na > n or 2 * nb > n:
        return None
    return na, nb


def filling(n, ne, spin):
    """spin None (the default of get_vector / get_reference_circuit): the first n_e spin-orbitals, i.e. one extra alpha for an odd electron count"""
    if spin is None:
        return (ne + 1) // 2, ne // 2
    return admissible(n, ne, spin)


def o1_structures(tier):
    sts = []
    nmax = 8 if tier == "quick" else 12
    for n in range(2, nmax + 1, 2):
        for ne in range(0, n + 1):
            sts.append({"n": n, "ne": ne, "spin": None})
            for spin in range(-ne, ne + 1):
                if admissible(n, ne, spin) is not None:
                    sts.append({"n": n, "ne": ne, "spin": spin})
    return sts


@contract("C05", "O1.get_vector", targets=[(SM, "get_vector"), (SM, "get_mapped_vector")], level="S", structures=o1_structures)
def o1(h, st):
    """JW, alternating ordering: v[k] == 1 iff (k even and k/2 < n_alpha) or (k odd and (k-1)/2 < n_beta), with n_alpha = (n_e+spin)/2,
    n_beta = (n_e-spin)/2 (negative and odd spins included; spin None = first n_e spin-orbitals); up_then_down: alphas first. Exhaustive over all admissible (n, n_e, spin) up to the bound"""
    n, ne, spin = st["n"], st["ne"], st["spin"]
    na, nb = filling(n, ne, spin)
    v = h.call(SM, "get_vector", n, ne, "JW", False, spin)
    exp = [1 if ((k % 2 == 0 and k // 2 < na) or (k % 2 == 1 and (k - 1) // 2 < nb)) else 0 for k in range(n)]
    h.check("alternating ordering occupations", [int(x) for x in v] == exp, detail=f"{list(v)} vs {exp}")
    v2 = h.call(SM, "get_vector", n, ne, "jw", True, spin)
    exp2 = [1 if k < na else 0 for k in range(n // 2)] + [1 if k < nb else 0 for k in range(n // 2)]
    h.check("up_then_down ordering occupations", [int(x) for x in v2] == exp2, detail=f"{list(v2)} vs {exp2}")
    e = h.raises(lambda: h.call(SM, "get_vector", n, ne, "XYZ", False, spin), ValueError)
    h.check("unknown mapping rejected", e is not None)
    h.done()


@contract("C05", "O3.vector_to_circuit", targets=[(SM, "vector_to_circuit")], level="S",
          structures=lambda tier: [{"v": list(v)} for n in (1, 2, 3, 4) for v in itertools.product((0, 1), repeat=n)])
def o3(h, st):
    """width == len(v); gates == [X(k) for the k with v[k] != 0] in increasing k"""
    import numpy as np
    v = np.array(st["v"])
    c = h.call(SM, "vector_to_circuit", v)
    h.check("width", h.getattr(c, "width") == len(v))
    h.check("X gates on the occupied positions in order", [(g.name, g.target, g.control) for g in c._gates] == [("X", [k], None) for k, x in enumerate(st["v"]) if x])
    h.done()


def o5_structures(tier):
    sts = []
    nmax = 6 if tier == "quick" else 10
    for n in range(2, nmax + 1, 2):
        for v in itertools.product((0, 1), repeat=n):
            for mapping in MAPPINGS:
                for utd in (False, True):
                    sts.append({"n": n, "v": list(v), "mapping": mapping, "utd": utd})
    return sts


@contract("C05", "O5.get_mapped_vector.occupations", level="S", structures=o5_structures,
          targets=[(SM, "get_mapped_vector"), (SM, "do_bk_transform"), (SM, "do_scbk_transform"), (SM, "do_jkmn_transform"), (JK, "jkmn_prep_vector"),
                   (MT, "fermion_to_qubit_mapping"), (MT, "make_up_then_down")])
def o5(h, st):
    """for EVERY occupation vector v (exhaustive up to the bound), encoding and ordering: <enc(v)| Q(a_p^dag a_p) |enc(v)> == v_p exactly for every
    spin-orbital p (Q = fermion_to_qubit_mapping with the same options); the input vector is unchanged"""
    import numpy as np
    n, mapping, utd = st["n"], st["mapping"], st["utd"]
    v = np.array(st["v"])
    before = v.copy()
    b = h.call(SM, "get_mapped_vector", v, mapping, utd)
    h.check("input vector unchanged", np.array_equal(v, before))
    bits = [int(x) for x in b]
    ne = int(sum(st["v"]))
    na, nb = int(sum(st["v"][0::2])), int(sum(st["v"][1::2]))
    nq = n - 2 if mapping == "SCBK" else n
    h.check("length of the encoded vector", len(bits) == nq)
    h.check("entries are bits", all(x in (0, 1) for x in bits))
    scbk_utd = True if mapping == "SCBK" else utd
    for p in range(n):
        q = h.call(MT, "fermion_to_qubit_mapping", number_operator(p), mapping, n, ne, scbk_utd, na - nb)
        val = diag_expectation(q, bits)
        h.check(f"occupation of spin-orbital {p}", val == st["v"][p], detail=f"<n_{p}> = {val}, requested {st['v'][p]}; encoded {bits}")
    h.done()


def o6_structures(tier):
    sts = []
    nmax = 6 if tier == "quick" else 8
    for n in range(2, nmax + 1, 2):
        for ne in range(0, n + 1):
            for spin in [None] + list(range(-ne, ne + 1)):
                if filling(n, ne, spin) is None:
                    continue
                for mapping in MAPPINGS:
                    for utd in (False, True):
                        sts.append({"n": n, "ne": ne, "spin": spin, "mapping": mapping, "utd": utd})
    return sts


@contract("C05", "O6.get_reference_circuit", level="S", structures=o6_structures,
          targets=[(SM, "get_reference_circuit"), (SM, "get_vector"), (SM, "vector_to_circuit"), (MT, "fermion_to_qubit_mapping")])
def o6(h, st):
    """the reference circuit prepares a basis state in which the encoded number operator of spin-orbital p has expectation exactly 1 for the first n_alpha
    alpha and n_beta beta orbitals and 0 for the others; exhaustive over (n, n_e, spin, encoding, ordering) up to the bound. spin None (the default)
    requests the first n_e spin-orbitals; the operator encoder is then given the spin of that determinant"""
    n, ne, spin, mapping, utd = st["n"], st["ne"], st["spin"], st["mapping"], st["utd"]
    na, nb = filling(n, ne, spin)
    c = h.call(SM, "get_reference_circuit", n, ne, mapping, utd, spin)
    nq = n - 2 if mapping == "SCBK" else n
    h.check("width", h.getattr(c, "width") == nq)
    ok_gates = all(g.name == "X" and g.control is None and len(g.target) == 1 and 0 <= g.target[0] < nq for g in c._gates)
    h.check("only X gates, inside the register", ok_gates, detail=str([(g.name, g.target) for g in c._gates][:6]))
    if not ok_gates:
        h.done()
        return
    bits = [0] * nq
    for g in c._gates:
        bits[g.target[0]] ^= 1
    scbk_utd = True if mapping == "SCBK" else utd
    for p in range(n):
        occ = 1 if ((p % 2 == 0 and p // 2 < na) or (p % 2 == 1 and (p - 1) // 2 < nb)) else 0
        q = h.call(MT, "fermion_to_qubit_mapping", number_operator(p), mapping, n, ne, scbk_utd, spin if spin is not None else na - nb)
        val = diag_expectation(q, bits)
        h.check(f"occupation of spin-orbital {p}", val == occ, detail=f"<n_{p}> = {val}, requested {occ}")
    h.done()


from tverif.engine import repeatable
repeatable((SM, "get_vector"), (SM, "get_reference_circuit"), (SM, "vector_to_circuit"), (MT, "fermion_to_qubit_mapping"))

# ---------------------------------------------------------------------------------------------------------------------
# P1 / P2  Jordan-Wigner reference vectors and circuits for EVERY register size, electron number and spin (symbolic integers; symbolic-length arrays, loop cut)

from tverif.engine import GhostList, Opaque, stub
from tverif.interp import GhostIterable, SymVec
from tverif.ring import Poly

CIRC = "tangelo/linq/circuit.py"


def _iff(a, b):
    return (a & b) | (~a & ~b)


@contract("C05", "P1.get_vector.JW.any_size", targets=[(SM, "get_vector"), (SM, "get_mapped_vector")], level="P",
          structures=lambda tier: [{"utd": u, "spin": sp} for u in (False, True) for sp in ("sym", "none")], max_paths=40)
def p1(h, st):
    """Jordan-Wigner, for EVERY even register size n, every electron number and every spin consistent with it (symbolic integers; negative and odd spins included): the vector
    has length n and, at EVERY position k, v[k] == 1 iff spin-orbital k is among the first n_alpha alpha / n_beta beta orbitals (alternating ordering: k even and k/2 < n_alpha,
    or k odd and (k-1)/2 < n_beta; up_then_down: k < n/2 and k < n_alpha, or k >= n/2 and k - n/2 < n_beta), else 0, with n_alpha = (n_e + spin)/2, n_beta = (n_e - spin)/2;
    spin None: the first n_e spin-orbitals of the alternating ordering. (numpy's zeros / slice assignment / strided views / concatenate on a symbolic-length array are modelled
    with Python's slice semantics, tverif.interp.SymVec)"""
    if not h.symbolic:
        h.check("native: covered by O1", True)
        h.done()
        return
    n, ne = h.integer("n"), h.integer("n_e")
    h.assume(n >= 0)
    h.assume(n % 2 == 0)
    h.assume(ne >= 0)
    h.assume(ne <= n)
    if st["spin"] == "sym":
        spin = h.integer("spin")
        h.assume((ne + spin) % 2 == 0)
        na, nb = (ne + spin) // 2, (ne - spin) // 2
        h.assume(na >= 0)
        h.assume(nb >= 0)
        h.assume(2 * na <= n)
        h.assume(2 * nb <= n)
    else:
        spin = None
    v = h.call(SM, "get_vector", n, ne, "JW", st["utd"], spin)
    h.shape("a symbolic-length array is returned", isinstance(v, SymVec))
    h.check_close("length == n_spinorbitals", v.n, n)
    k = h.integer("k")
    h.assume(k >= 0)
    h.assume(k < n)
    val = v.get(k)
    h.check("entries are 0 or 1", (val == 0) | (val == 1))
    half = n // 2
    if spin is None:
        # first n_e spin-orbitals in the alternating ordering: orbital index j of the alternating ordering is occupied iff j < n_e
        if st["utd"]:
            occupied = ((k < half) & (2 * k < ne)) | ((k >= half) & (2 * (k - half) + 1 < ne))
        else:
            occupied = (k < ne)
    else:
        if st["utd"]:
            occupied = ((k < half) & (k < na)) | ((k >= half) & (k - half < nb))
        else:
            occupied = ((k % 2 == 0) & (k // 2 < na)) | ((k % 2 == 1) & ((k - 1) // 2 < nb))
    h.check("v[k] == 1 exactly on the requested spin-orbitals", _iff(val == 1, occupied))
    h.done()


class _XLoop(GhostIterable):
    managed = ("circuit",)

    def __init__(self, h, calls):
        self.h, self.calls = h, calls

    def init(self, interp, env):
        self.h.check("before the loop: no gate added", self.calls == [])
        self.circuit = env.lookup("circuit")

    def step(self, interp, env, broke):
        h, e = self.h, self.enum
        h.check("the loop does not stop early", not broke)
        h.shape("the circuit is not rebound", env.lookup("circuit") is self.circuit)
        if self.calls:
            h.check("a gate is added only for an occupied position", e.value != 0)
            a, k = self.calls[0]
            g = a[1]
            h.check("exactly one gate, added to the circuit under construction", len(self.calls) == 1 and a[0] is self.circuit)
            h.check("it is an X gate without control", g.name == "X" and g.control is None and len(g.target) == 1)
            h.check_close("on the qubit with the position's index", g.target[0], e.index)
        else:
            h.check("no gate only for an unoccupied position", e.value == 0)


@contract("C05", "P2.vector_to_circuit.any_size", targets=[(SM, "vector_to_circuit")], level="P", structures=lambda tier: [None])
def p2(h, st):
    """for an occupation vector of ANY length n with ARBITRARY content: the circuit is constructed with fixed width n and no gates, and one generic iteration on a generic position
    i adds exactly X(i) when v[i] != 0 and nothing when v[i] == 0 (Circuit.add_gate under contract C11.P2); by induction the circuit is [X(i) for the occupied i in
    increasing order] on n qubits"""
    if not h.symbolic:
        h.check("native: covered by O3", True)
        h.done()
        return
    import z3
    n = h.integer("n")
    h.assume(n >= 0)
    occ = z3.Function("occ", z3.IntSort(), z3.IntSort())
    calls, inits = [], []
    stub(h, CIRC, "Circuit.add_gate", lambda a, k: None, log=calls)
    stub(h, CIRC, "Circuit.__init__", lambda a, k: None, log=inits)
    proto = _XLoop(h, calls)
    v = SymVec(n, read=lambda j: Poly.atom(occ(SymVec._z(j)), isint=True), proto=proto)
    out = h.call(SM, "vector_to_circuit", v)
    h.shape("one circuit constructed", len(inits) == 1)
    a, k = inits[0]
    nq = k.get("n_qubits", a[2] if len(a) > 2 else None)
    gates = k.get("gates", a[1] if len(a) > 1 else None)
    h.check("constructed empty", gates is None or gates == [])
    h.check_close("with fixed width len(vector)", nq, n)
    h.check("that circuit is returned", out is inits[0][0][0])
    h.done()


PROPERTY = {
    "level": "other",
    "explanation": "Bounded exhaustive, executed from the AST of the real functions with an exact oracle: for every occupation vector / every admissible "
                   "(n_electrons, spin) up to the bound, every encoding and ordering, the diagonal matrix element of the encoded number operator on the prepared "
                   "basis state is compared exactly (dyadic rationals) with the requested occupation. The only inputs are integers / bit vectors, so each size is "
                   "decided completely; for BK / scBK / JKMN sizes beyond the bound are NOT proved (the tree recursions need an induction over the register size that is "
                   "out of reach here). Unbounded for Jordan-Wigner: the reference vector for EVERY register size, electron number, spin and position (P1: symbolic "
                   "integers; the numpy array of symbolic length modelled with Python's slice semantics) and vector_to_circuit for occupation vectors of ANY length and "
                   "content (P2, loop cut); with JW's number operator (1 - Z_p)/2 these give the requested occupations for every size.",
    "bounds": {"quick": "n_spinorbitals <= 8 for get_vector; all 2^n occupation vectors for n <= 6; all (n_e, spin) for n <= 6", "thorough": "n <= 12 / 10 / 8"},
    "assumptions": ["openfermion's jordan_wigner / bravyi_kitaev / bravyi_kitaev_code executed natively (assumed)", "register size bounded as stated"],
    "trusted_base": ["tverif AST interpreter", "openfermion", "numpy"],
    "technique": "contract-based deductive verification for Jordan-Wigner (symbolic register size / electron number / spin, z3); contract checking by exhaustive enumeration of the finite input domain up to a stated bound, executing the real AST, for BK / scBK / JKMN (bounded)",
}
