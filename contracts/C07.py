"""C07 -- Ansatz parameter updates are equivalent to rebuilding the circuit."""
import itertools
import math

from tverif.engine import contract, snapshot
from tverif import qsem
from tverif.ring import Poly

AG = "tangelo/toolboxes/ansatz_generator/"
FILES = {"UCCSD": AG + "uccsd.py", "UpCCGSD": AG + "upccgsd.py", "UCCGD": AG + "uccgd.py", "HEA": AG + "hea.py", "QMF": AG + "qmf.py", "QCC": AG + "qcc.py",
         "ILC": AG + "ilc.py", "VSQS": AG + "vsqs.py", "pUCCD": AG + "puccd.py", "RUCC": AG + "rucc.py", "ADAPTAnsatz": AG + "adapt_ansatz.py",
         "VariationalCircuitAnsatz": AG + "variational_circuit.py"}

_MOLS = {}


def molecule(name):
    """small molecules (PySCF, executed natively; the integrals are concrete numbers)"""
    if name in _MOLS:
        return _MOLS[name]
    from tangelo import SecondQuantizedMolecule
    geo = {"H2": ([("H", (0, 0, 0)), ("H", (0, 0, 0.7414))], 0, 0, False),
           "H4": ([("H", (0, 0, 0)), ("H", (0, 0, 1.0)), ("H", (0, 0, 2.1)), ("H", (0, 0, 3.3))], 0, 0, False),
           "H4+": ([("H", (0, 0, 0)), ("H", (0, 0, 1.0)), ("H", (0, 0, 2.1)), ("H", (0, 0, 3.3))], 1, 1, False),
           "H4+u": ([("H", (0, 0, 0)), ("H", (0, 0, 1.0)), ("H", (0, 0, 2.1)), ("H", (0, 0, 3.3))], 1, 1, True),
           "H4t": ([("H", (0, 0, 0)), ("H", (0, 0, 1.0)), ("H", (0, 0, 2.1)), ("H", (0, 0, 3.3))], 0, 2, False),
           "H2u": ([("H", (0, 0, 0)), ("H", (0, 0, 0.7414))], 0, 0, True),
           # an ODD number of frozen occupied orbitals: the active electron number (and its parity per spin) differs from the molecule's
           "H4f0": ([("H", (0, 0, 0)), ("H", (0, 0, 1.0)), ("H", (0, 0, 2.1)), ("H", (0, 0, 3.3))], 0, 0, False, [0]),
           "H4f03": ([("H", (0, 0, 0)), ("H", (0, 0, 1.0)), ("H", (0, 0, 2.1)), ("H", (0, 0, 3.3))], 0, 0, False, [0, 3])}[name]
    m = SecondQuantizedMolecule(geo[0], q=geo[1], spin=geo[2], basis="sto-3g", uhf=geo[3], **({"frozen_orbitals": geo[4]} if len(geo) > 4 else {}))
    _MOLS[name] = m
    return m


def make_ansatz(h, st):
    """instantiate the ansatz class (its __init__ is interpreted from the AST as well)"""
    import tangelo.toolboxes.ansatz_generator as ag
    from tangelo.toolboxes.ansatz_generator.rucc import RUCC
    from tangelo.linq import Circuit, Gate
    cls = st["cls"]
    opts = dict(st.get("opts") or {})
    mol = molecule(st["mol"]) if st.get("mol") else None
    if cls == "UCCSD":
        return h.call(FILES[cls], "UCCSD", mol, **opts)
    if cls == "UpCCGSD":
        return h.call(FILES[cls], "UpCCGSD", mol, **opts)
    if cls == "UCCGD":
        return h.call(FILES[cls], "UCCGD", mol, **opts)
    if cls == "HEA":
        return h.call(FILES[cls], "HEA", mol, **opts)
    if cls == "pUCCD":
        return h.call(FILES[cls], "pUCCD", mol, **opts)
    if cls == "VSQS":
        # user-supplied reference circuits (plain, or a warm start that itself carries variational gates) and a navigator Hamiltonian
        rc = opts.pop("ref_circuit", None)
        if rc == "variational":
            opts["reference_state"] = Circuit([Gate("RY", 0, parameter=0.3, is_variational=True), Gate("X", 1), Gate("RZ", 1, parameter=-0.2, is_variational=True)], n_qubits=4)
        elif rc == "plain":
            opts["reference_state"] = Circuit([Gate("X", 0), Gate("H", 2)], n_qubits=4)
        if opts.pop("h_nav", False):
            from tangelo.toolboxes.operators import QubitOperator
            opts["h_nav"] = QubitOperator("X0 Y1", 0.3) + QubitOperator("Y0 X1", -0.3) + QubitOperator("Z2", 0.1)
        return h.call(FILES[cls], "VSQS", mol, **opts)
    if cls == "RUCC":
        return h.call(FILES[cls], "RUCC", **opts)
    if cls == "QMF":
        return h.call(FILES[cls], "QMF", mol, **opts)
    if cls == "QCC":
        return h.call(FILES[cls], "QCC", mol, **opts)
    if cls == "ILC":
        return h.call(FILES[cls], "ILC", mol, **opts)
    if cls == "VariationalCircuitAnsatz":
        c = Circuit([Gate("RY", 0, parameter=0.1, is_variational=True), Gate("CNOT", 1, 0), Gate("RZ", 1, parameter=0.2, is_variational=True),
                     Gate("CRX", 0, 1, parameter=0.3, is_variational=True), Gate("H", 1)])
        return h.call(FILES[cls], "VariationalCircuitAnsatz", c)
    if cls == "ADAPTAnsatz":
        from tangelo.toolboxes.operators import FermionOperator
        from tangelo.toolboxes.qubit_mappings.mapping_transform import fermion_to_qubit_mapping
        mapping, utd = opts.get("mapping", "jw"), opts.get("up_then_down", False)
        pool = [FermionOperator(((2, 1), (0, 0)), 1.0) - FermionOperator(((0, 1), (2, 0)), 1.0),
                FermionOperator(((3, 1), (2, 1), (1, 0), (0, 0)), 1.0) - FermionOperator(((0, 1), (1, 1), (2, 0), (3, 0)), 1.0),
                FermionOperator(((3, 1), (1, 0)), 1.0) - FermionOperator(((1, 1), (3, 0)), 1.0)]
        qops = []
        for f in pool:
            q = fermion_to_qubit_mapping(f, mapping, mol.n_active_sos, mol.n_active_electrons, utd, mol.spin)
            for t in list(q.terms):
                q.terms[t] = float(q.terms[t].imag)
            qops.append(q)
        if st.get("_fresh"):
            # a fresh ansatz restarted from the full operator list
            return h.call(FILES[cls], "ADAPTAnsatz", mol.n_active_sos, mol.n_active_electrons, mol.spin, {"mapping": mapping, "up_then_down": utd, "operators": qops})
        a = h.call(FILES[cls], "ADAPTAnsatz", mol.n_active_sos, mol.n_active_electrons, mol.spin, {"mapping": mapping, "up_then_down": utd})
        h.call(FILES[cls], "ADAPTAnsatz.build_circuit", a)
        for q in qops:
            h.call(FILES[cls], "ADAPTAnsatz.add_operator", a, q)
        return a
    raise ValueError(cls)


def gate_sig(g):
    return (g.name, tuple(g.target), tuple(g.control) if g.control else None, bool(g.is_variational))


def compare_circuits(h, label, c1, c2, n_params_hint=0):
    """gate lists equal: names / qubits / flags identical, parameters equal (exact normal forms symbolically; 1e-9 natively, modulo the gate's true period)"""
    s1, s2 = [gate_sig(g) for g in c1._gates], [gate_sig(g) for g in c2._gates]
    h.check(f"{label}: same gate sequence (names, qubits, variational flags)", s1 == s2, detail=f"{len(s1)} vs {len(s2)} gates")
    if s1 != s2:
        return
    bad = 0
    first = None
    for i, (g1, g2) in enumerate(zip(c1._gates, c2._gates)):
        p1, p2 = g1.parameter, g2.parameter
        if isinstance(p1, str) or isinstance(p2, str):
            ok = p1 == p2
        elif h.symbolic:
            d = Poly._coerce(p1) - Poly._coerce(p2)
            ok = d.is_zero()
            if not ok:
                # same rotation up to a full period (4*pi covers every gate)
                from tverif.ring import PI_VAR
                lf = d.linear_form()
                ok = lf is not None and not lf[1] and set(lf[0]) == {PI_VAR.id} and (lf[0][PI_VAR.id] / 4).denominator == 1
        else:
            period = 4 * math.pi
            dd = (float(p1) - float(p2)) % period
            ok = min(dd, period - dd) < 1e-9
        if not ok:
            bad += 1
            first = first or (i, g1.name, str(p1)[:80], str(p2)[:80])
    h.check(f"{label}: all gate parameters equal", bad == 0, detail=f"{bad} differ, first {first}")


CONFIGS = [
    {"cls": "UCCSD", "mol": "H2", "opts": {"mapping": "jw"}}, {"cls": "UCCSD", "mol": "H2", "opts": {"mapping": "bk", "up_then_down": True}},
    {"cls": "UCCSD", "mol": "H2", "opts": {"mapping": "scbk", "up_then_down": True}}, {"cls": "UCCSD", "mol": "H2", "opts": {"mapping": "jkmn"}},
    {"cls": "UCCSD", "mol": "H4+", "opts": {"mapping": "jw"}}, {"cls": "UCCSD", "mol": "H2u", "opts": {"mapping": "jw"}},
    {"cls": "UpCCGSD", "mol": "H2", "opts": {"mapping": "jw", "k": 1}}, {"cls": "UpCCGSD", "mol": "H2", "opts": {"mapping": "jw", "k": 2}},
    {"cls": "UpCCGSD", "mol": "H2", "opts": {"mapping": "jw", "k": 3}}, {"cls": "UpCCGSD", "mol": "H2", "opts": {"mapping": "bk", "k": 4}},
    {"cls": "UCCGD", "mol": "H2", "opts": {"mapping": "jw"}},
    {"cls": "HEA", "mol": "H2", "opts": {"mapping": "jw", "n_layers": 2}}, {"cls": "HEA", "mol": "H2", "opts": {"mapping": "scbk", "up_then_down": True, "n_layers": 1}},
    {"cls": "pUCCD", "mol": "H2", "opts": {}}, {"cls": "pUCCD", "mol": "H4", "opts": {}},
    {"cls": "VSQS", "mol": "H2", "opts": {"mapping": "jw", "intervals": 3, "time": 1.0}}, {"cls": "VSQS", "mol": "H2", "opts": {"mapping": "jw", "intervals": 3, "time": 1.0, "trotter_order": 2}},
    {"cls": "VSQS", "mol": "H2", "opts": {"mapping": "jw", "intervals": 2, "time": 1.0, "ref_circuit": "variational"}},
    {"cls": "VSQS", "mol": "H2", "opts": {"mapping": "jw", "intervals": 3, "time": 0.7, "ref_circuit": "plain", "h_nav": True}},
    {"cls": "VSQS", "mol": "H2", "opts": {"mapping": "jw", "intervals": 2, "time": 0.5, "ref_circuit": "variational", "h_nav": True, "trotter_order": 2}},
    {"cls": "RUCC", "opts": {"n_var_params": 1}}, {"cls": "RUCC", "opts": {"n_var_params": 3}},
    {"cls": "VariationalCircuitAnsatz"},
    {"cls": "ADAPTAnsatz", "mol": "H2", "opts": {"mapping": "jw"}},
    {"cls": "QMF", "mol": "H2", "opts": {"mapping": "jw"}}, {"cls": "QCC", "mol": "H2", "opts": {"mapping": "jw"}}, {"cls": "ILC", "mol": "H2", "opts": {"mapping": "jw"}},
    # constructor options almost nobody passes: the all-zero reference state, the one-angle ("real") rotation layers of HEA, HEA without a molecule
    {"cls": "UCCSD", "mol": "H2", "opts": {"mapping": "jw", "reference_state": "zero"}}, {"cls": "UpCCGSD", "mol": "H2", "opts": {"mapping": "jw", "k": 2, "reference_state": "zero"}},
    {"cls": "UCCGD", "mol": "H2", "opts": {"mapping": "bk", "reference_state": "zero"}}, {"cls": "pUCCD", "mol": "H2", "opts": {"reference_state": "zero"}},
    {"cls": "HEA", "mol": "H2", "opts": {"mapping": "jw", "n_layers": 2, "rot_type": "real"}}, {"cls": "HEA", "mol": "H2", "opts": {"mapping": "bk", "n_layers": 1, "reference_state": "zero"}},
    {"cls": "HEA", "opts": {"n_qubits": 3, "n_electrons": 2, "mapping": "jw", "n_layers": 1, "rot_type": "real"}},
]
HEAVY = [
    {"cls": "UCCSD", "mol": "H4", "opts": {"mapping": "jw"}}, {"cls": "UpCCGSD", "mol": "H4", "opts": {"mapping": "jw", "k": 3}},
    {"cls": "UCCGD", "mol": "H4", "opts": {"mapping": "jw"}}, {"cls": "UCCSD", "mol": "H4+u", "opts": {"mapping": "jw"}},
    {"cls": "QCC", "mol": "H4", "opts": {"mapping": "jw"}}, {"cls": "ILC", "mol": "H4", "opts": {"mapping": "jw"}}, {"cls": "QMF", "mol": "H4", "opts": {"mapping": "bk"}},
]
SYMBOLIC_OK = {"UCCSD", "UpCCGSD", "UCCGD", "HEA", "pUCCD", "RUCC", "VariationalCircuitAnsatz", "ADAPTAnsatz", "VSQS"}

PATTERNS = ["pos", "neg", "alt", "large"]


def sym_structures(tier):
    sts = []
    # (the HEAVY configurations - H4 with UCCSD / UCCGD under JW, hundreds of Pauli words with symbolic coefficients - need more than the task time limit for ONE structure when
    #  the machine is busy: they are covered by the bounded numeric histories O1 only; a task that hits its limit would make the whole check undecided)
    for cfg in CONFIGS:
        if cfg["cls"] not in SYMBOLIC_OK or (cfg.get("opts") or {}).get("mapping") == "jkmn":
            continue   # openfermion's MajoranaOperator (JKMN) refuses non-numeric coefficients: covered by the bounded histories only
        if tier == "quick" and cfg.get("mol") in ("H4+", "H4+u", "H4") and cfg["cls"] in ("UCCSD", "UCCGD", "UpCCGSD"):
            continue   # hundreds of Pauli words with symbolic coefficients: thorough tier only
        for pat in (PATTERNS[:2] if tier == "quick" else PATTERNS):
            for pat2 in ("pos", "neg"):
                sts.append({**cfg, "p1": pat, "p2": pat2})
        # exact zeros in a block of the vector (one repetition / one excitation class only): two consecutive vectors with the same zero pattern (the update
        # happens in place on a circuit that was built without the vanishing generators), and zeros followed by a full vector (the circuit must be rebuilt)
        if cfg["cls"] in ("UCCSD", "UpCCGSD", "UCCGD", "pUCCD", "VSQS", "ADAPTAnsatz"):
            for p1, p2 in (("zlast", "zlast"), ("zfirst", "zfirst"), ("zlast", "pos"), ("zfirst", "neg")):
                sts.append({**cfg, "p1": p1, "p2": p2})
    return sts


def sym_params(h, n, prefix, pattern):
    """symbolic parameter vector with a fixed sign pattern (the sign decides which branch of 'coef >= 0' is taken)"""
    out = []
    nz = max(1, n // 3)
    for i in range(n):
        if (pattern == "zlast" and i >= n - nz and n > 1) or (pattern == "zfirst" and i < nz and n > 1):
            out.append(0.0)
            continue
        v = h.real(f"{prefix}{i}")
        sign = {"pos": 1, "neg": -1, "alt": 1 if i % 2 == 0 else -1, "large": 1, "zlast": 1, "zfirst": -1}[pattern]
        lo, hi = (7.0, 50.0) if pattern == "large" else (0.05, 3.0)
        h.assume(v * sign > lo)
        h.assume(v * sign < hi)
        out.append(v)
    return out


def n_params(a):
    return int(a.n_var_params)


@contract("C07", "O2.update_equals_rebuild.symbolic", level="S", structures=sym_structures, max_paths=40,
          targets=[(FILES["UCCSD"], "UCCSD.update_var_params"), (FILES["UCCSD"], "UCCSD.build_circuit"), (FILES["UpCCGSD"], "UpCCGSD.update_var_params"),
                   (FILES["UpCCGSD"], "UpCCGSD.build_circuit"), (FILES["UCCGD"], "UCCGD.update_var_params"), (FILES["HEA"], "HEA.update_var_params"),
                   (FILES["pUCCD"], "pUCCD.update_var_params"), (FILES["VSQS"], "VSQS.update_var_params"), (FILES["ADAPTAnsatz"], "ADAPTAnsatz.update_var_params"),
                   (FILES["RUCC"], "RUCC.update_var_params"), (FILES["VariationalCircuitAnsatz"], "VariationalCircuitAnsatz.update_var_params")])
def o2(h, st):
    """build with theta, then update_var_params(theta'): the circuit equals the circuit of a fresh ansatz built with theta', gate by gate, with parameters equal
    as formulas in theta' - i.e. for EVERY parameter vector with the stated sign pattern (|theta_i| away from 0)"""
    import numpy as np
    _patch_openfermion()
    _ = h.pi
    a = make_ansatz(h, st)
    n = n_params(a)
    th1 = sym_params(h, n, "a", st["p1"])
    th2 = sym_params(h, n, "b", st["p2"])
    if st["cls"] != "ADAPTAnsatz":
        h.call(FILES[st["cls"]], f"{st['cls']}.build_circuit", a, _vec(th1))
    else:
        h.call(FILES[st["cls"]], "ADAPTAnsatz.update_var_params", a, _vec(th1))
    h.call(FILES[st["cls"]], f"{st['cls']}.update_var_params", a, _vec(th2))
    b = make_ansatz(h, {**st, "_fresh": True})
    h.call(FILES[st["cls"]], f"{st['cls']}.build_circuit", b, _vec(th2))
    compare_circuits(h, "update vs rebuild", a.circuit, b.circuit)
    h.check("number of variational gates consistent with the circuit", len(a.circuit._variational_gates) == sum(1 for g in a.circuit._gates if g.is_variational))
    h.done()


def _vec(params):
    import numpy as np
    if any(isinstance(p, Poly) for p in params):
        v = np.empty(len(params), dtype=object)
        for i, p in enumerate(params):
            v[i] = p
        return v
    return np.array(params, dtype=float)


_PATCHED = [False]


def _patch_openfermion():
    """openfermion validates coefficient types in its constructors; symbolic scalars are declared acceptable (they implement the arithmetic)"""
    if _PATCHED[0]:
        return
    import openfermion.ops.operators.symbolic_operator as so
    so.COEFFICIENT_TYPES = tuple(so.COEFFICIENT_TYPES) + (Poly,)
    _PATCHED[0] = True


# numeric histories (bounded) -------------------------------------------------------------------------------------------

def hist_structures(tier):
    sts = []
    for cfg in CONFIGS + (HEAVY if tier != "quick" else HEAVY[:2]):
        sts.append(dict(cfg))
    return sts


def draw(rnd, n, kind):
    if kind == "int_zeros":
        return [0] * n                    # python ints: the first vector an object sees may well be integer-typed
    if kind == "int_ones":
        return [1] * n
    if kind == "zeros":
        return [0.0] * n
    if kind == "some_zero":
        return [0.0 if i % 2 else rnd.uniform(-1, 1) for i in range(n)]
    if kind == "zero_last":
        return [0.0 if (i >= n - max(1, n // 3) and n > 1) else rnd.uniform(-1, 1) for i in range(n)]
    if kind == "zero_first":
        return [0.0 if (i < max(1, n // 3) and n > 1) else rnd.uniform(-1, 1) for i in range(n)]
    if kind == "flip":
        return [(-1) ** i * 0.3 for i in range(n)]
    if kind == "repeat":
        return [0.25] * n
    if kind == "large":
        return [rnd.uniform(7, 13) * rnd.choice([-1, 1]) for _ in range(n)]
    return [rnd.uniform(-1, 1) for _ in range(n)]


@contract("C07", "O1.update_equals_rebuild.histories", level="B", structures=hist_structures,
          native_samples=lambda st, rnd, tier: [{"seed": rnd.randint(0, 10 ** 6)} for _ in range(2 if tier == "quick" else 6)],
          targets=[(FILES[c], f"{c}.update_var_params") for c in FILES] + [(FILES[c], f"{c}.set_var_params") for c in FILES if c not in ("RUCC",)])
def o1(h, st):
    """bounded: for histories of 1-4 updates drawn from {zeros, some exact zeros, exact zeros in the first / last third
    (repeated with the same zero pattern), flipped signs, repeated values, values beyond 2 pi, random}, the circuit equals a
    fresh build with the final vector gate by gate (and as a unitary on <= 4 qubits); vectors of any other length are rejected; the advertised number of
    parameters is accepted"""
    import random
    import numpy as np
    rnd = random.Random(int(h.integer("seed")))
    a = make_ansatz(h, st)
    n = n_params(a)
    cls = st["cls"]
    HISTS = [("random", "random"), ("flip", "large"), ("repeat",), ("zeros", "random"), ("random", "zeros", "random"), ("some_zero", "random"),
             ("large", "flip", "random", "repeat"), ("random", "some_zero"), ("random", "zeros"),
             ("zero_last", "zero_last"), ("zero_first", "zero_first"), ("random", "zero_last", "zero_last", "random"), ("some_zero", "some_zero"), ("zero_first", "zero_last"),
             ("int_zeros", "random"), ("int_ones", "random", "flip"), ("random", "int_ones", "random")]
    for hist in HISTS:
        a = make_ansatz(h, st)
        if cls != "ADAPTAnsatz":
            h.call(FILES[cls], f"{cls}.build_circuit", a, draw(rnd, n, hist[0]))
        else:
            h.call(FILES[cls], "ADAPTAnsatz.update_var_params", a, np.array(draw(rnd, n, hist[0])))
        final = None
        for kd in hist[1:] or hist:
            final = draw(rnd, n, kd)
            h.call(FILES[cls], f"{cls}.update_var_params", a, np.array(final) if cls not in ("RUCC",) else list(final))
        b = make_ansatz(h, {**st, "_fresh": True})
        h.call(FILES[cls], f"{cls}.build_circuit", b, final)
        s1, s2 = [gate_sig(g) for g in a.circuit._gates], [gate_sig(g) for g in b.circuit._gates]
        w = max(h.getattr(a.circuit, "width"), h.getattr(b.circuit, "width"))
        if s1 == s2:
            compare_circuits(h, f"history {hist}", a.circuit, b.circuit)
        else:
            # a fresh build may leave out rotations by a zero angle: the circuits must then be equivalent as operations
            h.check(f"history {hist}: gate sequences differ, register small enough to compare the action", w <= 6)
        if w <= 6 and len(a.circuit._gates) < 1500 and (s1 != s2 or w <= 4):
            U1 = qsem.to_numpy(qsem.unitary(a.circuit._gates, w, exact=False)[0], w)
            U2 = qsem.to_numpy(qsem.unitary(b.circuit._gates, w, exact=False)[0], w)
            h.check(f"history {hist}: same state from |0...0>", float(np.max(np.abs(U1[:, 0] - U2[:, 0]))) < 1e-8)
    a = make_ansatz(h, st)
    if cls != "ADAPTAnsatz":
        h.call(FILES[cls], f"{cls}.build_circuit", a, draw(rnd, n, "random"))
    # wrong lengths
    for bad_n in (n + 1, max(0, n - 1)):
        if bad_n == n:
            continue
        e = h.raises(lambda: h.call(FILES[cls], f"{cls}.update_var_params", a, np.array([0.1] * bad_n) if cls != "RUCC" else [0.1] * bad_n), Exception)
        h.check(f"vector of length {bad_n} (advertised {n}) rejected", e is not None)
    h.done()


@contract("C07", "O10.zero_parameters_reference_state", level="B",
          structures=lambda tier: [c for c in CONFIGS if c["cls"] in ("UCCSD", "UpCCGSD", "UCCGD", "pUCCD", "ADAPTAnsatz")],
          native_samples=lambda st, rnd, tier: [{}],
          targets=[(FILES[c], f"{c}.build_circuit") for c in ("UCCSD", "UpCCGSD", "UCCGD", "pUCCD")])
def o10(h, st):
    """bounded: with all-zero parameters the excitation-based ansaetze prepare exactly the reference state"""
    import numpy as np
    a = make_ansatz(h, st)
    n = n_params(a)
    cls = st["cls"]
    if cls != "ADAPTAnsatz":
        h.call(FILES[cls], f"{cls}.build_circuit", a, [0.0] * n)
    else:
        h.call(FILES[cls], "ADAPTAnsatz.update_var_params", a, np.zeros(n))
    ref = h.call(FILES[cls], f"{cls}.prepare_reference_state", a)
    w = max(h.getattr(a.circuit, "width"), h.getattr(ref, "width"))
    if w <= 8:
        U1 = qsem.to_numpy(qsem.unitary(a.circuit._gates, w, exact=False)[0], w)
        U2 = qsem.to_numpy(qsem.unitary(ref._gates, w, exact=False)[0], w)
        h.check("state at zero parameters == reference state", float(np.max(np.abs(U1[:, 0] - U2[:, 0]))) < 1e-9)
    h.done()


PROPERTY = {
    "level": "other",
    "explanation": "For the ansaetze whose generators can carry symbolic parameters (UCCSD closed/open/UHF, UpCCGSD k=1..4, UCCGD, HEA, pUCCD, VSQS, UCC1/UCC3, ADAPT, "
                   "user circuit) the update path and the build path are executed from the AST with symbolic parameter vectors theta, theta' and the resulting "
                   "gate parameters are compared as exact formulas: update == rebuild for every parameter value within each sign pattern. All built-in ansaetze "
                   "(QMF, QCC, ILC included) are additionally run on bounded numeric update histories with exact zeros, sign flips and large values, with length checks.",
    "bounds": {"quick": "H2 (RHF/UHF), H4+ (ROHF) in sto-3g; encodings jw/bk/scbk/jkmn; sign patterns pos/neg x pos/neg; 2 random histories per configuration",
               "thorough": "plus H4, patterns alt/large, 6 histories"},
    "assumptions": ["PySCF integrals and openfermion's fermionic generators / Jordan-Wigner executed natively (with symbolic coefficients through operator overloading)",
                    "parameters within a sign pattern and away from 0 (|theta| > 0.05) in the symbolic part; exact zeros only in the bounded histories"],
    "trusted_base": ["tverif AST interpreter", "tverif.ring", "z3", "openfermion", "pyscf"],
}
