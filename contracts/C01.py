"""C01 -- Backend simulation matches the documented gate semantics."""
import itertools
import math

from tverif.engine import contract, snapshot, opaque_sampler
from tverif import qsem, ring, fakes
from tverif.ring import Poly

TS = "tangelo/linq/translator/translate_sympy.py"
TC = "tangelo/linq/translator/translate_cirq.py"
BK = "tangelo/linq/target/backend.py"
TGC = "tangelo/linq/target/target_cirq.py"
TGS = "tangelo/linq/target/target_sympy.py"

PARAM = {"RX", "RY", "RZ", "PHASE", "CRX", "CRY", "CRZ", "CPHASE", "XX"}
TWO_TARGET = {"XX", "SWAP", "CSWAP"}
ALL_NAMES = ["H", "X", "Y", "Z", "S", "T", "RX", "RY", "RZ", "PHASE", "CNOT", "CX", "CY", "CZ", "CH", "CRX", "CRY", "CRZ", "CPHASE", "XX", "SWAP", "CSWAP"]
SYMPY_NAMES = ["H", "X", "Y", "Z", "S", "T", "RX", "RY", "RZ", "PHASE", "CNOT", "CX", "CY", "CZ", "CH", "CRX", "CRY", "CRZ", "CPHASE", "SWAP"]


def mk_gate(name, target, control=None, parameter="", is_variational=False):
    from tangelo.linq import Gate
    return Gate(name, target, control, parameter, is_variational)


def mk_circuit(gates, n_qubits=None):
    from tangelo.linq import Circuit
    return Circuit(gates, n_qubits=n_qubits)


def install_fakes(h):
    if h.symbolic:
        h.I.module_override.update({"cirq": fakes.FakeCirq, "sympy": fakes.FakeSympy, "sympy.physics.quantum.gate": fakes.FakeSympyGates})


def placements(name, n, ncontrols):
    """qubit placements (targets, controls) of a gate on n qubits: all for small n"""
    nt = 2 if name in TWO_TARGET else 1
    out = []
    for qs in itertools.permutations(range(n), nt + ncontrols):
        out.append((list(qs[:nt]), list(qs[nt:]) or None))
    return out


# O1 sympy rotation matrices -------------------------------------------------------------------------------------------

@contract("C01", "O1.sympy.rotation_matrices", targets=[(TS, "rx_gate"), (TS, "ry_gate"), (TS, "rz_gate"), (TS, "p_gate")], level="S",
          structures=lambda tier: [{"fn": f, "name": n} for f, n in (("rx_gate", "RX"), ("ry_gate", "RY"), ("rz_gate", "RZ"), ("p_gate", "PHASE"))])
def o1(h, st):
    """ensures matrix(result) == U(name, theta) for every real theta, on the requested target (sympy cos/sin/exp/I as ring constructors)"""
    install_fakes(h)
    if not h.symbolic:
        h.check("native: covered by O3 replay", True)
        h.done()
        return
    th = h.real("theta", angle_denom=2)
    g = h.call(TS, st["fn"], 1, th)
    M = [[Poly._coerce(x) for x in r] for r in g.matrix]
    E = qsem.base_matrix(st["name"], th, qsem.Exact)
    ok = all((M[i][j] - E[i][j]).is_zero() for i in range(2) for j in range(2))
    h.check("matrix equals the documented rotation", ok, detail=str(M))
    h.check("target", g.qubits == (1,))
    h.done()


# O3 translate_c_to_sympy ----------------------------------------------------------------------------------------------

def o3_structures(tier):
    sts = []
    for name in SYMPY_NAMES:
        ctrl = name.startswith("C")
        for nc in ((1, 2) if ctrl else (0,)):
            pl = placements(name, 3, nc)
            for t, c in (pl if tier != "quick" else pl[::2]):
                sts.append({"gates": [[name, t, c]], "n": 3})
    # order of application: pairs of non-commuting gates
    for a, b in (("H", "RZ"), ("RX", "CNOT"), ("CNOT", "H"), ("S", "RY"), ("CRZ", "X")):
        sts.append({"gates": [[a, [0], [1] if a.startswith("C") else None], [b, [0] if not b.startswith("C") else [1], [0] if b.startswith("C") else None]], "n": 2})
    for name in ("XX", "CSWAP", "MEASURE", "POTATO"):
        sts.append({"gates": [[name, [0, 1] if name in TWO_TARGET else [0], [2] if name == "CSWAP" else None]], "n": 3, "unsupported": True})
    return sts


def build_gates(h, spec):
    gates = []
    for i, (name, t, c) in enumerate(spec):
        p = h.real(f"p{i}", angle_denom=2) if name in PARAM else ""
        gates.append(mk_gate(name, t, c, p))
    return gates


def angle_samples(st, rnd, tier):
    return [{f"p{i}": v for i in range(3)} for v in (0.3, -2.1, 7.0)]


@contract("C01", "O3.translate_c_to_sympy", targets=[(TS, "translate_c_to_sympy"), (TS, "get_sympy_gates"), (TS, "controlled_gate")], level="S",
          structures=o3_structures, native_samples=angle_samples)
def o3(h, st):
    """ensures the sympy product, read with sympy's documented gate semantics (rightmost factor acts first), is the operator of the
    Tangelo circuit with gate 0 applied first, for every supported name, placement, number of controls and every angle;
    unsupported names raise ValueError; source circuit unchanged"""
    install_fakes(h)
    gates = build_gates(h, st["gates"])
    c = mk_circuit(gates, st["n"])
    n = st["n"]
    if st.get("unsupported"):
        e = h.raises(lambda: h.call(TS, "translate_c_to_sympy", c), ValueError)
        h.check("unsupported gate refused", e is not None)
        h.done()
        return
    before = snapshot(c.__dict__)
    prod = h.call(TS, "translate_c_to_sympy", c)
    h.check("source circuit unchanged", snapshot(c.__dict__) == before)
    E, A = qsem.unitary(gates, n, exact=h.symbolic)
    if h.symbolic:
        U = fakes.sympy_unitary(prod, n, A)
    else:
        U = sympy_represent(prod, n)
    h.mat_equal("U(sympy translation) == U(circuit)", U, E, A, n)
    h.done()


def sympy_represent(prod, n):
    """numeric operator of a real sympy gate product in qsem's index convention (qubit 0 most significant)"""
    import numpy as np
    from sympy.physics.quantum.represent import represent
    M = np.array(represent(prod, nqubits=n).evalf().tolist(), dtype=complex) if prod != 1 else np.eye(2 ** n, dtype=complex)
    perm = [int(format(i, f"0{n}b")[::-1], 2) for i in range(2 ** n)]     # sympy: qubit 0 is the least significant bit
    M = M[np.ix_(perm, perm)]
    return qsem.rows_from_numpy(M)


# O4 translate_c_to_cirq -----------------------------------------------------------------------------------------------

def o4_structures(tier):
    sts = []
    for name in ALL_NAMES:
        ctrl = name.startswith("C")
        for nc in ((1, 2, 3) if ctrl else (0,)):
            n = 4 if nc == 3 or (name == "CSWAP" and nc == 2) else 3
            if name == "CSWAP" and nc == 3:
                continue
            pl = placements(name, n, nc)
            step = max(1, len(pl) // (6 if tier == "quick" else 24))
            for t, c in pl[::step]:
                sts.append({"gates": [[name, t, c]], "n": n})
    for a, b in (("H", "RZ"), ("RX", "CNOT"), ("CNOT", "H"), ("XX", "RY"), ("CRZ", "X"), ("PHASE", "H")):
        ga = [a, [0, 1] if a in TWO_TARGET else [0], [1] if a.startswith("C") else None]
        gb = [b, [0] if not b.startswith("C") else [1], [0] if b.startswith("C") else None]
        sts.append({"gates": [ga, gb], "n": 2})
    sts.append({"gates": [["POTATO", [0], None]], "n": 2, "unsupported": True})
    return sts


@contract("C01", "O4.translate_c_to_cirq", targets=[(TC, "translate_c_to_cirq"), (TC, "get_cirq_gates")], level="S", structures=o4_structures,
          native_samples=angle_samples)
def o4(h, st):
    """ensures the cirq operations, read with cirq's documented definitions (rx(t)=exp(-itX/2), ZPowGate, XXPowGate with global_shift,
    .controlled(k) with controls first), implement the operator of the Tangelo circuit for every supported name, any number of controls,
    every placement and every angle; first moment is the identity on every qubit; unsupported names raise; source unchanged"""
    install_fakes(h)
    gates = build_gates(h, st["gates"])
    c = mk_circuit(gates, st["n"])
    n = st["n"]
    if st.get("unsupported"):
        e = h.raises(lambda: h.call(TC, "translate_c_to_cirq", c), ValueError)
        h.check("unsupported gate refused", e is not None)
        h.done()
        return
    before = snapshot(c.__dict__)
    cc = h.call(TC, "translate_c_to_cirq", c)
    h.check("source circuit unchanged", snapshot(c.__dict__) == before)
    E, A = qsem.unitary(gates, n, exact=h.symbolic)
    if h.symbolic:
        U = fakes.cirq_unitary(cc.ops, n, A)
        h.check("identity on every qubit first", [o.gate.name for o in cc.ops[:n]] == ["I"] * n and sorted(o.qubits[0] for o in cc.ops[:n]) == list(range(n)))
    else:
        import cirq
        import numpy as np
        U = qsem.rows_from_numpy(np.array(cirq.unitary(cc), dtype=complex))
    h.mat_equal("U(cirq translation) == U(circuit)", U, E, A, n)
    h.done()


# O5b: the recorded cirq/sympy definitions agree with the real libraries (validation of the assumed contracts) --------------

@contract("C01", "O5.assumed_library_definitions", level="B", targets=[(TC, "get_cirq_gates"), (TS, "get_sympy_gates")],
          structures=lambda tier: [{"lib": "cirq", "gate": g} for g in ("rx", "ry", "rz", "ZPow", "XXPow", "H", "S", "T", "CNOT", "SWAP", "controlled")] +
                                  [{"lib": "sympy", "gate": g} for g in ("H", "X", "Y", "Z", "S", "T", "SWAP", "CNOT", "CGate", "CGate2")],
          native_samples=lambda st, rnd, tier: [{"t": v} for v in (0.37, -1.9, 4.4)])
def o5(h, st):
    """bounded validation of the assumed contracts: the matrices tverif.fakes attributes to cirq / sympy constructors equal cirq.unitary /
    sympy represent of the real objects"""
    import numpy as np
    t = h.real("t")
    A = qsem.Numeric
    if st["lib"] == "cirq":
        import cirq
        g = st["gate"]
        q = cirq.LineQubit.range(3)
        real = {"rx": lambda: cirq.rx(t)(q[0]), "ry": lambda: cirq.ry(t)(q[0]), "rz": lambda: cirq.rz(t)(q[0]),
                "ZPow": lambda: cirq.ZPowGate(exponent=t / math.pi)(q[0]), "XXPow": lambda: cirq.XXPowGate(exponent=t / math.pi, global_shift=-0.5)(q[0], q[1]),
                "H": lambda: cirq.H(q[0]), "S": lambda: cirq.S(q[0]), "T": lambda: cirq.T(q[0]), "CNOT": lambda: cirq.CNOT(q[0], q[1]),
                "SWAP": lambda: cirq.SWAP(q[0], q[1]), "controlled": lambda: cirq.ry(t).controlled(2)(q[2], q[0], q[1])}[g]()
        F = fakes.FakeCirq
        fq = F.LineQubit.range(3)
        fake = {"rx": lambda: F.rx(t)(fq[0]), "ry": lambda: F.ry(t)(fq[0]), "rz": lambda: F.rz(t)(fq[0]),
                "ZPow": lambda: F.ZPowGate(exponent=t / math.pi)(fq[0]), "XXPow": lambda: F.XXPowGate(exponent=t / math.pi, global_shift=-0.5)(fq[0], fq[1]),
                "H": lambda: F.H(fq[0]), "S": lambda: F.S(fq[0]), "T": lambda: F.T(fq[0]), "CNOT": lambda: F.CNOT(fq[0], fq[1]),
                "SWAP": lambda: F.SWAP(fq[0], fq[1]), "controlled": lambda: F.ry(t).controlled(2)(fq[2], fq[0], fq[1])}[g]()
        circ = cirq.Circuit([cirq.I.on_each(q), real])
        U = np.array(cirq.unitary(circ), dtype=complex)
        V = qsem.to_numpy(fakes.cirq_unitary([fake], 3, A), 3)
    else:
        import sympy.physics.quantum.gate as SG
        from sympy import ImmutableMatrix
        g = st["gate"]
        real = {"H": lambda: SG.HadamardGate(0), "X": lambda: SG.XGate(1), "Y": lambda: SG.YGate(0), "Z": lambda: SG.ZGate(2), "S": lambda: SG.PhaseGate(0),
                "T": lambda: SG.TGate(1), "SWAP": lambda: SG.SwapGate(0, 2), "CNOT": lambda: SG.CNotGate(2, 0),
                "CGate": lambda: SG.CGate(1, SG.UGate(2, ImmutableMatrix([[math.cos(t), -math.sin(t)], [math.sin(t), math.cos(t)]]))),
                "CGate2": lambda: SG.CGate((0, 2), SG.YGate(1))}[g]()
        FG = fakes.FakeSympyGates
        fake = {"H": lambda: FG.HadamardGate(0), "X": lambda: FG.XGate(1), "Y": lambda: FG.YGate(0), "Z": lambda: FG.ZGate(2), "S": lambda: FG.PhaseGate(0),
                "T": lambda: FG.TGate(1), "SWAP": lambda: FG.SwapGate(0, 2), "CNOT": lambda: FG.CNotGate(2, 0),
                "CGate": lambda: FG.CGate(1, FG.UGate(2, [[math.cos(t), -math.sin(t)], [math.sin(t), math.cos(t)]])),
                "CGate2": lambda: FG.CGate((0, 2), FG.YGate(1))}[g]()
        U = qsem.to_numpy(sympy_represent(real, 3), 3)
        V = qsem.to_numpy(fakes.sympy_unitary(fake, 3, A), 3)
    err = float(np.max(np.abs(U - V)))
    h.check("assumed definition agrees with the library", err < 1e-9, detail=f"max diff {err:.2e}")
    h.done()


# O6 _int_to_binstr ----------------------------------------------------------------------------------------------------

@contract("C01", "O6.Backend._int_to_binstr", targets=[(BK, "Backend._int_to_binstr")], level="S",
          structures=lambda tier: [{"n": n, "order": o, "use": u} for n in range(1, 9 if tier == "quick" else 12) for o in ("lsq_first", "msq_first") for u in (True, False)])
def o6(h, st):
    """for every 0 <= i < 2^n: length n; result[k] == bit (n-1-k) of i when use_ordering and the order is lsq_first, else bit k of i; injective"""
    from tangelo.linq.target.target_cirq import CirqSimulator
    sim = CirqSimulator.__new__(CirqSimulator)
    sim.statevector_order = st["order"]
    n = st["n"]
    seen = set()
    ok = True
    for i in range(2 ** n):
        s = h.call(BK, "Backend._int_to_binstr", sim, i, n, st["use"])
        msb_first = st["use"] and st["order"] == "lsq_first"
        exp = "".join(str((i >> (n - 1 - k)) & 1) if msb_first else str((i >> k) & 1) for k in range(n))
        ok = ok and s == exp
        seen.add(s)
    h.check("digit law for every i", ok)
    h.check("injective", len(seen) == 2 ** n)
    h.done()


# O7 _statevector_to_frequencies ----------------------------------------------------------------------------------------

@contract("C01", "O7.Backend._statevector_to_frequencies", targets=[(BK, "Backend._statevector_to_frequencies")], level="S", max_paths=600,
          structures=lambda tier: [{"n": n, "order": o} for n in (1, 2) for o in ("lsq_first", "msq_first")],
          native_samples=lambda st, rnd, tier: [{f"a{i}": rnd.choice([0.0, rnd.uniform(-1, 1), 1e-6]) for i in range(4)} for _ in range(4)])
def o7(h, st):
    """exact mode: result == {binstr(i): |a_i|^2 for the indices with |a_i|^2 >= threshold}; keys read qubit 0 first"""
    import numpy as np
    from tangelo.linq.target.target_cirq import CirqSimulator
    sim = CirqSimulator.__new__(CirqSimulator)
    sim.statevector_order = st["order"]
    sim.n_shots = None
    sim.freq_threshold = 1e-10
    n = st["n"]
    amps = [h.real(f"a{i}") for i in range(2 ** n)]
    vec = list(amps) if h.symbolic else np.array(amps, dtype=complex)
    fr = h.call(BK, "Backend._statevector_to_frequencies", sim, vec)
    for i, a in enumerate(amps):
        # qubit q is bit (n-1-q) of the index for lsq_first vectors, bit q for msq_first vectors; keys list qubit 0 first
        key = "".join(str((i >> (n - 1 - q)) & 1) if st["order"] == "lsq_first" else str((i >> q) & 1) for q in range(n))
        if key in fr:
            h.check_close(f"frequency of {key}", fr[key], a * a)
            h.check(f"{key} listed only above the threshold", a * a >= 1e-10)
        else:
            h.check(f"{key} omitted only below the threshold", a * a < 1e-10)
    h.check("no other keys", all(len(k) == n for k in fr) and len(fr) <= 2 ** n)
    h.done()


@contract("C01", "O7b.Backend._statevector_to_frequencies.sampled", targets=[(BK, "Backend._statevector_to_frequencies"), (BK, "Backend._int_to_binstr")], level="S",
          structures=lambda tier: [{"n": n, "order": o, "support": list(sup)} for n in (1, 2, 3) for o in ("lsq_first", "msq_first")
                                   for sup in ([(0,), (1,), (0, 1)] if n == 1 else [(1,), (2,), (1, 2), (0, 1, 3)] if n == 2 else [(1,), (4,), (3, 6), (1, 2, 5, 6), (0, 3, 4, 7)])])
def o7b(h, st):
    """sampled mode (n_shots set), the sampler OPAQUE: whichever sample sequence over the support the sampler returns, an outcome drawn for amplitude index i is
    reported under the bitstring of index i that lists qubit 0 first (same key as in exact mode, for either statevector order), with frequency count / n_shots;
    the sampler is asked for n_shots samples of the exact distribution"""
    import numpy as np
    from tangelo.linq.target.target_cirq import CirqSimulator
    n, sup = st["n"], st["support"]
    sim = CirqSimulator.__new__(CirqSimulator)
    sim.statevector_order = st["order"]
    sim.freq_threshold = 1e-10
    # support element number j is drawn j+1 times: distinct multiplicities identify every key
    shots = sum(j + 1 for j in range(len(sup)))
    sim.n_shots = shots
    vec = np.zeros(2 ** n, dtype=complex)
    w = np.arange(1, len(sup) + 1, dtype=float)
    for j, i in enumerate(sup):
        vec[i] = np.sqrt(w[j] / w.sum()) * np.exp(0.3j * j)
    if not h.symbolic:
        h.check("native: skipped (sampler stub only in the interpreter)", True)
        h.done()
        return
    with opaque_sampler(lambda xk, pk, size, k: [x for j, x in enumerate(xk) for _ in range(j + 1)][:size]) as calls:
        fr = h.call(BK, "Backend._statevector_to_frequencies", sim, vec)
    h.check("sampler asked for n_shots samples in total", sum(c[2] for c in calls) == shots, detail=str([c[2] for c in calls]))
    h.check("sampler given the exact distribution", len(calls) >= 1 and all(abs(sorted(c[1])[j] - sorted(w / w.sum())[j]) < 1e-12 for c in calls for j in range(len(sup))))
    # the order of the support handed to the sampler is the code's own business: identify element j through its probability (all distinct)
    xk, pk = calls[0][0], calls[0][1]
    exp = {}
    for j in range(len(xk)):
        i = sup[int(round(pk[j] * w.sum())) - 1]
        key = "".join(str((i >> (n - 1 - q)) & 1) if st["order"] == "lsq_first" else str((i >> q) & 1) for q in range(n))
        exp[key] = (j + 1) / shots
    h.check("sampled outcomes reported under the qubit-0-first bitstring of their amplitude index", set(fr) == set(exp) and all(abs(fr[k] - exp[k]) < 1e-12 for k in exp),
            detail=f"{fr} vs {exp}")
    h.done()


@contract("C01", "O7c.Backend._statevector_to_frequencies.sampled.many_shots", targets=[(BK, "Backend._statevector_to_frequencies")], level="S",
          structures=lambda tier: [{"shots": s, "order": o} for s in ((10 ** 6 + 7, 10 ** 7, 10 ** 7 + 3, 2 * 10 ** 7 + 5) if tier == "quick" else
                                                                    (10 ** 6, 10 ** 6 + 7, 2 * 10 ** 6, 3250000, 10 ** 7 - 1, 10 ** 7, 10 ** 7 + 3, 2 * 10 ** 7, 2 * 10 ** 7 + 5))
                                   for o in (("lsq_first",) if tier == "quick" else ("lsq_first", "msq_first"))])
def o7c(h, st):
    """sampled mode with MANY shots (however the code cuts the request into chunks, the sampler OPAQUE): the sampler is asked for n_shots samples in total, and
    every outcome is reported with frequency (number of times it was drawn over ALL requests) / n_shots, so the reported frequencies sum to one"""
    import numpy as np
    from tangelo.linq.target.target_cirq import CirqSimulator
    if not h.symbolic:
        h.check("native: skipped (sampler stub only in the interpreter)", True)
        h.done()
        return
    n, sup, shots = 2, (0, 1, 3), st["shots"]
    sim = CirqSimulator.__new__(CirqSimulator)
    sim.statevector_order = st["order"]
    sim.freq_threshold = 1e-10
    sim.n_shots = shots
    w = np.array([1.0, 2.0, 5.0])
    vec = np.zeros(2 ** n, dtype=complex)
    for j, i in enumerate(sup):
        vec[i] = np.sqrt(w[j] / w.sum())
    drawn = {}

    def draw(xk, pk, size, k):
        # request number k: the outcome of weight 2 is drawn min(size, 3 + k) times, the outcome of weight 5 min(rest, 11 + 2k) times, the outcome of weight 1 otherwise
        by_w = {int(round(pk[j] * w.sum())): int(xk[j]) for j in range(len(xk))}
        c2 = min(size, 3 + k)
        c5 = min(size - c2, 11 + 2 * k)
        c1 = size - c2 - c5
        for wt, c in ((1, c1), (2, c2), (5, c5)):
            drawn[wt] = drawn.get(wt, 0) + c
        out = np.empty(size, dtype=np.int64)
        out[:c2] = by_w[2]
        out[c2:c2 + c5] = by_w[5]
        out[c2 + c5:] = by_w[1]
        return out
    with opaque_sampler(draw) as calls:
        fr = h.call(BK, "Backend._statevector_to_frequencies", sim, vec)
    h.check("sampler asked for n_shots samples in total", sum(c[2] for c in calls) == shots, detail=str([c[2] for c in calls]))
    exp = {}
    for j, i in enumerate(sup):
        key = "".join(str((i >> (n - 1 - q)) & 1) if st["order"] == "lsq_first" else str((i >> q) & 1) for q in range(n))
        if drawn.get(int(w[j]), 0):
            exp[key] = drawn[int(w[j])] / shots
    h.check("every outcome reported with (times drawn over all requests) / n_shots", set(fr) == set(exp) and all(abs(fr[k] - exp[k]) < 1e-12 for k in exp), detail=f"{fr} vs {exp}")
    h.check("reported frequencies sum to one", abs(sum(fr.values()) - 1) < 1e-9, detail=str(sum(fr.values())))
    h.done()


# O8 advertised statevector order + bitstring convention ------------------------------------------------------------------

def o8_structures(tier):
    sts = []
    for backend in ("cirq", "sympy"):
        for n in (1, 2, 3):
            for q in range(n):
                sts.append({"backend": backend, "n": n, "q": q})
    return sts


@contract("C01", "O8.statevector_order_and_bitstrings", level="S", structures=o8_structures,
          targets=[(BK, "Backend.simulate"), (TGC, "CirqSimulator.simulate_circuit"), (TGS, "SympySimulator.simulate_circuit"),
                   (TGC, "CirqSimulator.backend_info"), (TGS, "SympySimulator.backend_info")])
def o8(h, st):
    """X on qubit q of an n-qubit register: the outcome bitstring has its q-th character (qubit 0 first) equal to 1, and the returned
    statevector has its single 1 at the index prescribed by the backend's ADVERTISED statevector_order"""
    import numpy as np
    from tangelo.linq import get_backend
    n, q = st["n"], st["q"]
    c = mk_circuit([mk_gate("X", q)], n)
    sim = get_backend(st["backend"])
    freqs, sv = h.call(BK, "Backend.simulate", sim, c, True)
    key = "".join("1" if k == q else "0" for k in range(n))
    h.check("outcome bitstring lists qubit 0 first", list(freqs) == [key], detail=str(freqs))
    v = np.array(sv, dtype=complex).reshape(-1)
    idx = int(np.argmax(np.abs(v)))
    order = sim.backend_info()["statevector_order"]
    exp_idx = 1 << (n - 1 - q) if order == "lsq_first" else 1 << q
    h.check("statevector indexed in the advertised order", idx == exp_idx and abs(abs(v[idx]) - 1) < 1e-9, detail=f"{st['backend']} advertises {order}: amplitude at {idx}, expected {exp_idx}")
    h.done()


# O10 / end-to-end (bounded) ----------------------------------------------------------------------------------------------

def e2e_structures(tier):
    sts = []
    for backend in ("cirq", "sympy"):
        for k in range(6 if tier == "quick" else 30):
            sts.append({"backend": backend, "k": k, "n": 2 + k % 2, "depth": 2 + k % 4, "init": k % 3 == 0})
        # classical reversible circuits: the outcome is certain, so exact and sampled mode must report the same single bitstring
        for k in range(3 if tier == "quick" else 12):
            sts.append({"backend": backend, "k": 100 + k, "n": 3, "depth": 3 + k % 3, "init": False, "classical": True})
    return sts


@contract("C01", "O10.simulate.end_to_end", level="B", structures=e2e_structures,
          native_samples=lambda st, rnd, tier: [{"seed": rnd.randint(0, 10 ** 6)} for _ in range(2 if tier == "quick" else 5)],
          targets=[(BK, "Backend.simulate"), (TGC, "CirqSimulator.simulate_circuit"), (TGS, "SympySimulator.simulate_circuit")])
def o10(h, st):
    """bounded: simulate(c, return_statevector=True[, initial_statevector=v]) returns U(c) v (or U(c)|0>) in the advertised index order and the
    outcome distribution |amplitude|^2 keyed qubit-0-first, for random circuits over the full gate set; in sampled mode (25 shots) the drawn bitstrings lie in
    that support with frequencies k/25, and a certain outcome (classical reversible circuits) is reported with frequency one"""
    import random
    import numpy as np
    from tangelo.linq import get_backend
    rnd = random.Random(int(h.integer("seed")) * 31 + st["k"])
    n = st["n"]
    names = SYMPY_NAMES if st["backend"] == "sympy" else ALL_NAMES
    if st.get("classical"):
        names = [x for x in ("X", "CNOT", "SWAP", "CX") if x in names]
    gates = []
    for _ in range(st["depth"]):
        name = rnd.choice(names)
        nt = 2 if name in TWO_TARGET else 1
        nc = (1 if st["backend"] == "sympy" or n - nt < 2 else rnd.choice([1, 2])) if name.startswith("C") else 0
        if nt + nc > n:
            continue
        qs = rnd.sample(range(n), nt + nc)
        p = rnd.choice([0.3, -0.3, math.pi, 2 * math.pi + 0.3, -7.1, rnd.uniform(-4, 4)]) if name in PARAM else ""
        gates.append(mk_gate(name, qs[:nt], qs[nt:] or None, p))
    if not gates:
        gates = [mk_gate("H", 0)]
    c = mk_circuit(gates, n)
    sim = get_backend(st["backend"])
    order = sim.backend_info()["statevector_order"]
    perm = list(range(2 ** n)) if order == "lsq_first" else [int(format(i, f"0{n}b")[::-1], 2) for i in range(2 ** n)]
    U = qsem.to_numpy(qsem.unitary(gates, n, exact=False)[0], n)
    if st["init"]:
        rs = np.random.default_rng(rnd.randint(0, 10 ** 6))
        v0 = rs.normal(size=2 ** n) + 1j * rs.normal(size=2 ** n)
        v0 = v0 / np.linalg.norm(v0)
        init = v0[perm]      # in the backend's advertised order
        freqs, sv = h.call(BK, "Backend.simulate", sim, c, True, init if st["backend"] == "cirq" else np.array(init).reshape(-1, 1))
    else:
        v0 = np.zeros(2 ** n, dtype=complex)
        v0[0] = 1
        freqs, sv = h.call(BK, "Backend.simulate", sim, c, True)
    exp = U @ v0
    got = np.array(sv, dtype=complex).reshape(-1)
    got_qsem = np.zeros_like(got)
    for i in range(2 ** n):
        got_qsem[i] = got[perm.index(i)] if order != "lsq_first" else got[i]
    err = float(np.max(np.abs(got_qsem - exp)))
    h.check("statevector == U(c) applied to the initial state", err < 1e-6, detail=f"max err {err:.2e} {[(g.name, g.target, g.control, g.parameter) for g in gates]}")
    probs = {format(i, f"0{n}b"): abs(exp[i]) ** 2 for i in range(2 ** n) if abs(exp[i]) ** 2 > 1e-9}
    ok = all(len(k) == n for k in freqs) and all(abs(complex(freqs.get(k, 0.0)) - probs.get(k, 0.0)) < 1e-6 for k in set(freqs) | set(probs))
    h.check("outcome distribution == |amplitude|^2, keys qubit 0 first", ok, detail=f"{freqs} vs {probs}")
    # sampled mode: the drawn bitstrings lie in the exact support (equal to it when the outcome is certain), frequencies are multiples of 1/n_shots
    np.random.seed(rnd.randint(0, 2 ** 31 - 1))
    shots = 25
    sims = get_backend(st["backend"], n_shots=shots)
    if st["init"]:
        f2, _ = h.call(BK, "Backend.simulate", sims, c, False, init if st["backend"] == "cirq" else np.array(init).reshape(-1, 1))
    else:
        f2, _ = h.call(BK, "Backend.simulate", sims, c)
    # (the symbolic backend accepts n_shots but reports the exact distribution, listing outcomes of probability ~1e-33: compared with a tolerance)
    # (sympy reports frequencies as symbolic numbers that may carry an imaginary round-off of ~1e-17)
    h.check("sampled mode: frequencies are real numbers", all(abs(complex(v).imag) < 1e-9 for v in f2.values()))
    f2 = {k: complex(v).real for k, v in f2.items() if abs(complex(v)) > 1e-9}
    h.check("sampled mode: outcomes inside the exact support, keyed qubit 0 first", set(f2) <= set(probs) and all(len(k) == n for k in f2), detail=f"{f2} vs {probs}")
    h.check("sampled mode: frequencies sum to one", abs(sum(f2.values()) - 1) < 1e-6)
    if st["backend"] == "cirq":
        h.check("sampled mode: multiples of 1/n_shots", all(abs(v * shots - round(v * shots)) < 1e-9 for v in f2.values()))
    if len(probs) == 1:
        h.check("sampled mode: a certain outcome is reported with frequency one", set(f2) == set(probs) and all(abs(v - 1.0) < 1e-9 for v in f2.values()), detail=str(f2))
    h.done()


@contract("C01", "O11.simulate.history_independence", level="B",
          structures=lambda tier: [{"backend": b, "k": k} for b in ("cirq", "sympy") for k in range(3 if tier == "quick" else 10)],
          native_samples=lambda st, rnd, tier: [{"seed": rnd.randint(0, 10 ** 6)}],
          targets=[(BK, "Backend.simulate"), (TGC, "CirqSimulator.simulate_circuit"), (TGS, "SympySimulator.simulate_circuit")])
def o11(h, st):
    """bounded: ONE backend object used for a whole history of simulations - default initial state, a supplied initial statevector, the default again, a basis state, an
    equal circuit rebuilt from scratch, another circuit of the same width, the first circuit again, exact and sampled mode interleaved: EVERY call returns U(c) applied to the
    initial state of THAT call (independent evaluation), i.e. nothing a call leaves behind in the backend (or in the circuit objects) influences a later call"""
    import random
    import numpy as np
    from tangelo.linq import get_backend
    rnd = random.Random(int(h.integer("seed")) * 17 + st["k"])
    n = 2 + st["k"] % 2
    names = SYMPY_NAMES if st["backend"] == "sympy" else ALL_NAMES

    def rand_gates(depth):
        gates = []
        while len(gates) < depth:
            name = rnd.choice(names)
            nt = 2 if name in TWO_TARGET else 1
            nc = (1 if st["backend"] == "sympy" or n - nt < 2 else rnd.choice([1, 2])) if name.startswith("C") else 0
            if nt + nc > n:
                continue
            qs = rnd.sample(range(n), nt + nc)
            p = rnd.choice([0.3, -0.3, math.pi, -7.1, rnd.uniform(-4, 4)]) if name in PARAM else ""
            gates.append((name, qs[:nt], qs[nt:] or None, p))
        return gates
    specs = [rand_gates(3), rand_gates(2)]
    sim = get_backend(st["backend"])
    sims = get_backend(st["backend"], n_shots=20) if st["backend"] == "cirq" else None
    order = sim.backend_info()["statevector_order"]
    perm = list(range(2 ** n)) if order == "lsq_first" else [int(format(i, f"0{n}b")[::-1], 2) for i in range(2 ** n)]
    rs = np.random.default_rng(rnd.randint(0, 10 ** 6))
    custom = rs.normal(size=2 ** n) + 1j * rs.normal(size=2 ** n)
    custom = custom / np.linalg.norm(custom)
    basis = np.zeros(2 ** n, dtype=complex)
    basis[2 ** n - 2] = 1
    circuits = {0: mk_circuit([mk_gate(*g) for g in specs[0]], n), 1: mk_circuit([mk_gate(*g) for g in specs[1]], n)}
    #          (circuit, initial state, sampled)
    history = [(0, None, False), (0, custom, False), (0, None, False), (0, basis, False), ("rebuilt 0", None, False), (1, None, False), (0, None, True), (1, custom, False),
               (1, None, False), (0, None, False)]
    for step, (ci, v0, sampled) in enumerate(history):
        if sampled and sims is None:
            continue
        if ci == "rebuilt 0":
            c, gates = mk_circuit([mk_gate(*g) for g in specs[0]], n), specs[0]
        else:
            c, gates = circuits[ci], specs[ci]
        U = qsem.to_numpy(qsem.unitary([mk_gate(*g) for g in gates], n, exact=False)[0], n)
        start = np.zeros(2 ** n, dtype=complex)
        start[0] = 1
        args = [c, not sampled]
        if v0 is not None:
            start = v0
            init = v0[perm]
            args.append(init if st["backend"] == "cirq" else np.array(init).reshape(-1, 1))
        exp = U @ start
        probs = {format(i, f"0{n}b"): abs(exp[i]) ** 2 for i in range(2 ** n) if abs(exp[i]) ** 2 > 1e-9}
        tag = f"call {step} (circuit {ci}, {'custom' if v0 is custom else 'basis' if v0 is basis else 'default'} initial state{', sampled' if sampled else ''}): "
        if sampled:
            np.random.seed(step)
            f2, _ = h.call(BK, "Backend.simulate", sims, *args)
            f2 = {k: float(v) for k, v in f2.items() if abs(float(v)) > 1e-9}
            h.check(tag + "sampled outcomes inside the exact support of THIS call", set(f2) <= set(probs), detail=f"{f2} vs {probs}")
            continue
        freqs, sv = h.call(BK, "Backend.simulate", sim, *args)
        got = np.array(sv, dtype=complex).reshape(-1)
        got_qsem = np.array([got[perm.index(i)] if order != "lsq_first" else got[i] for i in range(2 ** n)])
        err = float(np.max(np.abs(got_qsem - exp)))
        h.check(tag + "statevector == U(c) applied to the initial state of this call", err < 1e-6, detail=f"max err {err:.2e}")
        ok = all(abs(complex(freqs.get(k, 0.0)) - probs.get(k, 0.0)) < 1e-6 for k in set(freqs) | set(probs))
        h.check(tag + "outcome distribution == |amplitude|^2 of this call", ok, detail=f"{freqs} vs {probs}")
    h.done()


PROPERTY = {
    "level": "other",
    "explanation": "What Tangelo owns is proved: both translators (gate mapping, operator order, number of controls, qubit order of controlled gates), "
                   "the hand-written sympy rotation matrices, the index<->bitstring conversion and the exact frequency extraction, for every placement up "
                   "to the bound and every real angle (exact ring normal forms), against cirq's / sympy's DOCUMENTED gate definitions (assumed contracts, "
                   "validated against the real libraries in the bounded layer). The advertised statevector order and the end-to-end statement are "
                   "checked by executing the real backends (bounded), including histories of simulations on ONE backend object (O11: default / supplied initial states, rebuilt equal circuits, sampled mode interleaved). Unbounded: the gate loops of both translators for circuits of ANY length (P3 / P4: loop cut, one generic iteration on an arbitrary translated prefix). Sampling with the sampler opaque, also for shot numbers around and beyond the chunk sizes (O7c: counts accumulated over ALL requests).",
    "bounds": {"quick": "single gates of every supported name with 0-3 controls on 3-4 qubits (sampled placements), 2-gate order tests; registers <= 8 qubits for index conversion; 24 random circuits end-to-end",
               "thorough": "all placements; 300 random circuits"},
    "assumptions": ["cirq and sympy implement their documented gate definitions (recorded in tverif/fakes.py; validated numerically by C01.O5)",
                    "floats as reals", "numerical accuracy of the simulators themselves is not decided"],
    "trusted_base": ["tverif AST interpreter", "tverif.ring / qsem / fakes", "z3", "cirq", "sympy"],
}


# ---------------------------------------------------------------------------------------------------------------------
# P: the translators' loop step for a circuit of ANY length (loop cut with an invariant; see Interp.s_For / GhostIterable)

from tverif.interp import GhostIterable


class GenericGateOfAnyCircuit(GhostIterable):
    """source_circuit._gates of unknown length: one generic iteration on `gate`, with an opaque translated prefix"""

    managed = ("target_circuit", "measure_count")      # the loop-carried state described by this invariant (anything else carried across iterations -> undecided)

    def __init__(self, h, gate, n, lib):
        self.h, self.gate, self.n, self.lib = h, gate, n, lib
        self.before = snapshot(gate.__dict__)
        self.iterations = 0

    def element(self):
        self.iterations += 1
        return self.gate

    def init(self, interp, env):
        h = self.h
        t = env.lookup("target_circuit")
        if self.lib == "cirq":
            h.check("on loop entry: identity on every qubit, nothing else", [o.gate.name for o in t.ops] == ["I"] * self.n)
            h.check("on loop entry: measurement counter is 0", env.lookup("measure_count") == 0)
        else:
            h.check("on loop entry: empty product", t == 1)

    def havoc(self, interp, env):
        if self.lib == "cirq":
            self.m = self.h.integer("m")
            self.h.assume(self.m >= 0)
            env.assign("measure_count", self.m)
            t = env.lookup("target_circuit")
            t.ops[:] = [fakes.COp(fakes.CGateT("<opaque translated prefix>"), [])]
            self.frozen = {k: env.lookup(k) for k in ("qubit_list", "GATE_CIRQ")}
        else:
            env.assign("target_circuit", fakes.SProd([fakes.SGate("<opaque translated prefix>", [])]))

    def step(self, interp, env, broke):
        h, g, n = self.h, self.gate, self.n
        h.check("the loop does not stop early", not broke)
        h.check("source gate unchanged by its translation", snapshot(g.__dict__) == self.before)
        E, A = qsem.unitary([g], n, exact=True) if g.name != "MEASURE" else (None, qsem.Exact)
        t = env.lookup("target_circuit")
        if self.lib == "cirq":
            h.check("translated prefix untouched", t.ops[0].gate.name == "<opaque translated prefix>")
            new = t.ops[1:]
            if g.name == "MEASURE":
                h.check("one measurement operation on the target", len(new) == 1 and new[0].gate.name == "measure" and new[0].qubits == list(g.target))
                h.check_close("measurement counter incremented", env.lookup("measure_count"), self.m + 1)
            else:
                U = fakes.cirq_unitary(new, n, A)
                h.mat_equal("operations appended for this gate implement U(gate)", U, E, A, n)
                h.check_close("measurement counter unchanged", env.lookup("measure_count"), self.m)
            h.check("tables and qubit list not rebound", all(env.lookup(k) is v for k, v in self.frozen.items()))
        else:
            h.check("translated prefix untouched and the new factor is on the right", isinstance(t, fakes.SProd) and t.factors[0].name == "<opaque translated prefix>")
            U = fakes.sympy_unitary(fakes.SProd(t.factors[1:]), n, A)
            h.mat_equal("factor appended for this gate implements U(gate)", U, E, A, n)
            h.check("exactly one factor per gate", len(t.factors) == 2)


def p4_structures(tier):
    sts = [s for s in o4_structures(tier) if len(s["gates"]) == 1 and not s.get("unsupported")]
    sts.append({"gates": [["MEASURE", [1], None]], "n": 3})
    return sts


@contract("C01", "P4.translate_c_to_cirq.loop_step.any_length", targets=[(TC, "translate_c_to_cirq")], level="P", structures=p4_structures)
def p4(h, st):
    """for a source circuit of ANY length: the translation loop starts from the identity moment, and one generic iteration (arbitrary already-translated prefix, arbitrary
    measurement counter) appends operations implementing exactly U(gate) for the current gate (every supported name / controls / placement / angle), leaves the prefix and
    the source gate untouched and increments the measurement counter only for MEASURE. By induction the translation is the ordered concatenation of per-gate operations"""
    install_fakes(h)
    if not h.symbolic:
        h.check("native: covered by O4", True)
        h.done()
        return
    from tangelo.linq import Circuit
    n = st["n"]
    g = build_gates(h, st["gates"])[0]
    c = Circuit.__new__(Circuit)
    it = GenericGateOfAnyCircuit(h, g, n, "cirq")
    c.__dict__ = {"_gates": it, "_qubit_indices": set(range(n)), "_qubits_simulated": n, "name": "any", "_gate_counts": {}, "_n_qubit_gate_counts": {}, "_variational_gates": []}
    out = h.call(TC, "translate_c_to_cirq", c)
    h.shape("the loop body was entered once for the generic gate", it.iterations == 1)
    h.check("the accumulated circuit is returned", isinstance(out, fakes.CCircuit))
    h.done()


@contract("C01", "P3.translate_c_to_sympy.loop_step.any_length", targets=[(TS, "translate_c_to_sympy")], level="P",
          structures=lambda tier: [s for s in o3_structures(tier) if len(s["gates"]) == 1 and not s.get("unsupported")])
def p3(h, st):
    """for a source circuit of ANY length: the gates are visited in REVERSED order and one generic iteration multiplies the product on the right by exactly one factor
    implementing U(gate) (rightmost factor acts first, so gate 0 acts first); prefix and source gate untouched"""
    install_fakes(h)
    if not h.symbolic:
        h.check("native: covered by O3", True)
        h.done()
        return
    from tangelo.linq import Circuit
    n = st["n"]
    g = build_gates(h, st["gates"])[0]
    c = Circuit.__new__(Circuit)
    it = GenericGateOfAnyCircuit(h, g, n, "sympy")
    c.__dict__ = {"_gates": it, "_qubit_indices": set(range(n)), "_qubits_simulated": n, "name": "any"}
    h.call(TS, "translate_c_to_sympy", c)
    h.shape("the loop body was entered once for the generic gate", it.iterations == 1)
    h.check("gates are visited in reversed order", it.reversed is True)
    h.done()
