"""C12 -- Symmetry operators and penalties are exact; default ansaetze conserve them."""
import itertools
from fractions import Fraction

from tverif.engine import contract, snapshot
from tverif.ring import Poly

FO = "tangelo/toolboxes/ansatz_generator/fermionic_operators.py"
PT = "tangelo/toolboxes/ansatz_generator/penalty_terms.py"
GU = "tangelo/toolboxes/ansatz_generator/_general_unitary_cc.py"
OP = "tangelo/toolboxes/operators/operators.py"


def sym_matrix(op, n):
    """matrix of a fermionic operator on the Fock space of n spin-orbitals (object array: exact Fractions / symbolic Poly entries);
    determinant index = sum occ_k 2^k"""
    import numpy as np
    dim = 2 ** n
    M = np.zeros((dim, dim), dtype=object)
    for i in range(dim):
        for j in range(dim):
            M[i, j] = Fraction(0)
    for term, c in op.terms.items():
        cc = c if isinstance(c, Poly) else (Fraction(c).limit_denominator(2 ** 20) if not isinstance(c, complex) or c.imag == 0 else c)
        if isinstance(cc, complex):
            cc = Fraction(cc.real).limit_denominator(2 ** 20)
        for col in range(dim):
            state, sign, ok = col, 1, True
            for (k, dag) in reversed(term):
                occ = (state >> k) & 1
                if dag == occ:
                    ok = False
                    break
                if bin(state & ((1 << k) - 1)).count("1") % 2:
                    sign = -sign
                state ^= (1 << k)
            if ok:
                M[state, col] = M[state, col] + cc * sign
    return M


def is_zero_entry(x):
    if isinstance(x, Poly):
        return x.is_zero()
    return x == 0


def mat_zero(M):
    return all(is_zero_entry(x) for x in M.flat)


def mat_eq(A, B):
    return mat_zero(A - B)


def spin_index(n_orbs, i, spin, utd):
    return (i + spin * n_orbs) if utd else 2 * i + spin


def occupations(d, n_orbs, utd):
    na = sum((d >> spin_index(n_orbs, i, 0, utd)) & 1 for i in range(n_orbs))
    nb = sum((d >> spin_index(n_orbs, i, 1, utd)) & 1 for i in range(n_orbs))
    return na, nb


# O1/O2 index conventions and operator lists ------------------------------------------------------------------------------

@contract("C12", "O2.operator_lists", targets=[(FO, "number_operator_list"), (FO, "spinz_operator_list"), (GU, "get_spin_ordered")], level="S",
          structures=lambda tier: [{"n": n, "utd": u} for n in range(1, 9 if tier == "quick" else 14) for u in (False, True)])
def o2(h, st):
    """list == for i < n: (a_u^dag a_u, 1 | 1/2), (a_d^dag a_d, 1 | -1/2) with u_i = i (up_then_down) or 2i, d_i = i+n or 2i+1; i -> u_i and i -> d_i are injective,
    with disjoint images covering [0, 2n)"""
    n, utd = st["n"], st["utd"]
    nl = h.call(FO, "number_operator_list", n, utd)
    sl = h.call(FO, "spinz_operator_list", n, utd)
    ups = [spin_index(n, i, 0, utd) for i in range(n)]
    dns = [spin_index(n, i, 1, utd) for i in range(n)]
    h.check("index maps are injective, disjoint and cover the register", sorted(ups + dns) == list(range(2 * n)))
    exp_n, exp_s = [], []
    for i in range(n):
        exp_n += [[((ups[i], 1), (ups[i], 0)), 1], [((dns[i], 1), (dns[i], 0)), 1]]
        exp_s += [[((ups[i], 1), (ups[i], 0)), 0.5], [((dns[i], 1), (dns[i], 0)), -0.5]]
    h.check("number operator list", [[tuple(t), c] for t, c in nl] == exp_n)
    h.check("spin-z operator list", [[tuple(t), c] for t, c in sl] == exp_s)
    h.done()


# O3/O4 eigenvalues on determinants / spin eigenfunctions -----------------------------------------------------------------

@contract("C12", "O3.N_Sz_S2.exact_matrices", level="S", structures=lambda tier: [{"n": n, "utd": u} for n in ((1, 2) if tier == "quick" else (1, 2, 3)) for u in (False, True)],
          targets=[(FO, "number_operator"), (FO, "spinz_operator"), (FO, "spin2_operator"), (FO, "spin2_operator_list"), (OP, "normal_ordered"), (OP, "list_to_fermionoperator")])
def o3(h, st):
    """on EVERY Slater determinant: N|D> = (N_up+N_dn)|D>, Sz|D> = (N_up-N_dn)/2 |D> (exact diagonal matrices); S^2 equals S_- S_+ + Sz^2 + Sz built
    independently from ladder operators (exact rational matrices), hence eigenvalue s(s+1) on every spin eigenfunction; [S^2, Sz] = [S^2, N] = 0"""
    import numpy as np
    from tangelo.toolboxes.operators import FermionOperator
    n, utd = st["n"], st["utd"]
    m = 2 * n
    N = sym_matrix(h.call(FO, "number_operator", n, utd), m)
    Sz = sym_matrix(h.call(FO, "spinz_operator", n, utd), m)
    S2 = sym_matrix(h.call(FO, "spin2_operator", n, utd), m)
    okN = okS = True
    for d in range(2 ** m):
        na, nb = occupations(d, n, utd)
        for e in range(2 ** m):
            expN = Fraction(na + nb) if d == e else 0
            expS = Fraction(na - nb, 2) if d == e else 0
            okN = okN and N[e, d] == expN
            okS = okS and Sz[e, d] == expS
    h.check("N is diagonal with the electron count on every determinant", okN)
    h.check("Sz is diagonal with (N_up - N_dn)/2 on every determinant", okS)
    Splus = FermionOperator()
    for i in range(n):
        Splus += FermionOperator(((spin_index(n, i, 0, utd), 1), (spin_index(n, i, 1, utd), 0)), 1.0)
    Sp = sym_matrix(Splus, m)
    Sm = Sp.T
    ref = Sm.dot(Sp) + Sz.dot(Sz) + Sz
    h.check("S^2 == S_- S_+ + Sz^2 + Sz", mat_eq(S2, ref))
    h.check("[S^2, Sz] == 0 and [S^2, N] == 0", mat_zero(S2.dot(Sz) - Sz.dot(S2)) and mat_zero(S2.dot(N) - N.dot(S2)))
    h.done()


# O5 penalties for every weight and target ---------------------------------------------------------------------------------

_PATCHED = [False]


def _patch_openfermion():
    if _PATCHED[0]:
        return
    import openfermion.ops.operators.symbolic_operator as so
    so.COEFFICIENT_TYPES = tuple(so.COEFFICIENT_TYPES) + (Poly,)
    _PATCHED[0] = True


def _targets(kind, n):
    if kind == "N":
        return [Fraction(k) for k in range(0, 2 * n + 1)] + [Fraction(1, 2)]
    if kind == "Sz":
        return [Fraction(k, 2) for k in range(-n, n + 1)]
    return [Fraction(int(2 * s) * (int(2 * s) + 2), 4) for s in [k / 2 for k in range(0, n + 1)]] + [Fraction(1)]


@contract("C12", "O5.penalties", level="S",
          structures=lambda tier: [{"n": n, "utd": u, "kind": k, "v": [t.numerator, t.denominator]} for n in ((1, 2) if tier == "quick" else (1, 2, 3)) for u in (False, True)
                                   for k in ("N", "Sz", "S^2") for t in _targets(k, n)],
          native_samples=lambda st, rnd, tier: [{"mu": rnd.choice([0.5, 1.0, 3.25])}],
          targets=[(PT, "number_operator_penalty"), (PT, "spin_operator_penalty"), (PT, "spin2_operator_penalty"), (OP, "squared_normal_ordered"), (OP, "normal_ordered")])
def o5(h, st):
    """penalty(mu, v) == mu * (O - v)^2 as matrices whose entries are polynomials in mu: for EVERY weight mu > 0 (symbolic) and every physical target value v
    (enumerated exactly); hence >= 0 and zero exactly on the eigenspace O = v"""
    import numpy as np
    _patch_openfermion()
    n, utd, kind = st["n"], st["utd"], st["kind"]
    m = 2 * n
    mu = h.real("mu")
    h.assume(mu > 0.001)
    h.assume(mu < 1000)
    v = Fraction(*st["v"])
    v = float(v) if not h.symbolic else (int(v) if v.denominator == 1 else float(v))
    fn = {"N": "number_operator_penalty", "Sz": "spin_operator_penalty", "S^2": "spin2_operator_penalty"}[kind]
    pen = h.call(PT, fn, n, v, mu, utd)
    P = sym_matrix(pen, m) if h.symbolic else None
    base = {"N": "number_operator", "Sz": "spinz_operator", "S^2": "spin2_operator"}[kind]
    O = sym_matrix(h.call(FO, base, n, utd), m)
    if h.symbolic:
        I = np.zeros_like(O)
        for d in range(2 ** m):
            I[d, d] = Poly.const(1)
        D = O - I * Fraction(*st["v"])
        ref = D.dot(D) * mu
        h.check("penalty matrix == mu (O - v)^2 for every mu and v", mat_eq(P, ref))
    else:
        from contracts.C03 import fermi_matrix
        Pn = fermi_matrix(pen, m)
        On = fermi_matrix(h.call(FO, base, n, utd), m)
        D = On - v * np.eye(2 ** m)
        h.check("penalty matrix == mu (O - v)^2", float(np.max(np.abs(Pn - mu * D.dot(D)))) < 1e-9)
    h.done()


@contract("C12", "O5b.combined_penalty", targets=[(PT, "combined_penalty")], level="S",
          structures=lambda tier: [{"case": c} for c in ("none", "N", "N+Sz", "all", "zero_prefactor", "unknown_key")])
def o5b(h, st):
    """combined_penalty adds a term iff its prefactor is > 0; no options -> empty operator; unknown key -> KeyError"""
    from tangelo.toolboxes.operators import FermionOperator
    c = st["case"]
    n = 2
    if c == "none":
        r = h.call(PT, "combined_penalty", n, None)
        h.check("empty operator", dict(r.terms) == {})
    elif c == "unknown_key":
        e = h.raises(lambda: h.call(PT, "combined_penalty", n, {"S": [1, 0]}), KeyError)
        h.check("KeyError", e is not None)
    else:
        opts = {"N": {"N": [1.5, 2]}, "N+Sz": {"N": [1.5, 2], "Sz": [0.5, 0]}, "all": {"N": [1.5, 2], "Sz": [0.5, 0], "S^2": [2.0, 0]},
                "zero_prefactor": {"N": [0, 2], "Sz": [0.5, 0]}}[c]
        r = h.call(PT, "combined_penalty", n, dict(opts))
        exp = FermionOperator()
        if opts.get("N", [0])[0] > 0:
            exp += h.call(PT, "number_operator_penalty", n, opts["N"][1], opts["N"][0], False)
        if opts.get("Sz", [0])[0] > 0:
            exp += h.call(PT, "spin_operator_penalty", n, opts["Sz"][1], opts["Sz"][0], False)
        if opts.get("S^2", [0])[0] > 0:
            exp += h.call(PT, "spin2_operator_penalty", n, opts["S^2"][1], opts["S^2"][0], False)
        keys = set(r.terms) | set(exp.terms)
        h.check("sum of the requested penalties", all(abs(r.terms.get(k, 0) - exp.terms.get(k, 0)) < 1e-12 for k in keys))
    h.done()


# O6 commutation with every spin-free Hamiltonian (symbolic integrals) --------------------------------------------------------

@contract("C12", "O6.commutation_with_molecular_hamiltonians", level="S", structures=lambda tier: [{"n": 2, "utd": u} for u in (False, True)],
          targets=[(FO, "number_operator"), (FO, "spinz_operator"), (FO, "spin2_operator")])
def o6(h, st):
    """[N, H] = [Sz, H] = [S^2, H] = 0 for H = sum h_pq E_pq + 1/2 sum g_pqrs (E_pq E_rs - delta_qr E_ps) with EVERY value of the integrals h_pq, g_pqrs
    (symbolic; E_pq = sum_sigma a_p,sigma^dag a_q,sigma): polynomial identities in the integrals"""
    import numpy as np
    from tangelo.toolboxes.operators import FermionOperator
    if not h.symbolic:
        h.check("native: n/a", True)
        h.done()
        return
    _patch_openfermion()
    n, utd = st["n"], st["utd"]
    m = 2 * n
    one = Poly.const(1)
    def E(p, q):
        op = FermionOperator()
        for s in (0, 1):
            op.terms[((spin_index(n, p, s, utd), 1), (spin_index(n, q, s, utd), 0))] = 1.0
        return sym_matrix(op, m)
    Em = {(p, q): E(p, q) for p in range(n) for q in range(n)}
    H = np.zeros((2 ** m, 2 ** m), dtype=object)
    for d in range(2 ** m):
        for e in range(2 ** m):
            H[d, e] = Poly.const(0)
    for p in range(n):
        for q in range(n):
            H = H + Em[(p, q)] * h.real(f"h{p}{q}")
            for r in range(n):
                for s in range(n):
                    g = h.real(f"g{p}{q}{r}{s}")
                    T = Em[(p, q)].dot(Em[(r, s)])
                    if q == r:
                        T = T - Em[(p, s)]
                    H = H + T * (g * Fraction(1, 2))
    N = sym_matrix(h.call(FO, "number_operator", n, utd), m)
    Sz = sym_matrix(h.call(FO, "spinz_operator", n, utd), m)
    S2 = sym_matrix(h.call(FO, "spin2_operator", n, utd), m)
    h.check("[N, H] == 0", mat_zero(N.dot(H) - H.dot(N)))
    h.check("[Sz, H] == 0", mat_zero(Sz.dot(H) - H.dot(Sz)))
    h.check("[S^2, H] == 0", mat_zero(S2.dot(H) - H.dot(S2)))
    h.done()


# O8 conservation along the particle-conserving ansaetze (bounded) --------------------------------------------------------------

@contract("C12", "O8.ansatz_conservation", level="B",
          structures=lambda tier: [{"cls": c, "mol": m, "opts": o} for c, m, o in (("UCCSD", "H2", {"mapping": "jw"}), ("UCCSD", "H4+", {"mapping": "jw"}), ("UpCCGSD", "H2", {"mapping": "jw", "k": 2}),
                                                                                  ("UCCGD", "H2", {"mapping": "jw"}), ("UCCSD", "H2", {"mapping": "jw", "up_then_down": True}), ("UpCCGSD", "H2", {"mapping": "jw", "k": 1}),
                                                                                  ("ADAPTAnsatz", "H2", {"mapping": "jw"}), ("UpCCGSD", "H4+", {"mapping": "jw", "k": 2}), ("UpCCGSD", "H4", {"mapping": "jw", "k": 3}), ("UCCSD", "H4", {"mapping": "jw"}))][: 8 if tier == "quick" else 10],
          native_samples=lambda st, rnd, tier: [{"seed": rnd.randint(0, 10 ** 6)} for _ in range(3 if tier == "quick" else 10)],
          targets=[("tangelo/toolboxes/ansatz_generator/uccsd.py", "UCCSD.build_circuit"), ("tangelo/toolboxes/ansatz_generator/upccgsd.py", "UpCCGSD.build_circuit"),
                   ("tangelo/toolboxes/ansatz_generator/uccgd.py", "UCCGD.build_circuit")])
def o8(h, st):
    """bounded: under Jordan-Wigner the states prepared by UCCSD / UpCCGSD / UCCGD / UCC3 / ADAPT carry exactly the reference particle number and spin projection for
    random parameter vectors (|<N> - N_ref| < 1e-9 and zero variance) - in the freshly built circuit and in the circuits produced by update_var_params along histories
    with exact zeros (same zero pattern twice, then a full vector)"""
    import random
    import numpy as np
    from contracts.C07 import make_ansatz, FILES, n_params, molecule
    from contracts.C03 import fermi_matrix, qubit_matrix
    from tangelo.toolboxes.qubit_mappings.mapping_transform import fermion_to_qubit_mapping
    from tverif import qsem
    rnd = random.Random(int(h.integer("seed")))
    a = make_ansatz(h, st)
    n = n_params(a)
    cls = st["cls"]
    th = [rnd.uniform(-2, 2) for _ in range(n)]
    if cls != "ADAPTAnsatz":
        h.call(FILES[cls], f"{cls}.build_circuit", a, th)
    else:
        h.call(FILES[cls], "ADAPTAnsatz.update_var_params", a, np.array(th))
    w = h.getattr(a.circuit, "width")
    utd = bool((st["opts"] or {}).get("up_then_down", False))
    n_orbs = w // 2
    ref = h.call(FILES[cls], f"{cls}.prepare_reference_state", a)
    R = qsem.to_numpy(qsem.unitary(ref._gates, w, exact=False)[0], w)
    phi = R[:, 0]
    mats = {}
    for name, fn in (("N", "number_operator"), ("Sz", "spinz_operator")):
        op = h.call(FO, fn, n_orbs, utd)
        mats[name] = qubit_matrix(fermion_to_qubit_mapping(op, "jw", w, None, False), w)

    from tangelo.linq import get_backend
    sim = get_backend("cirq")

    def conserved(tag):
        # state of the ansatz circuit: cirq statevector simulation (assumed, see C01; same index convention as qsem - checked once below)
        _, psi = sim.simulate(a.circuit, return_statevector=True)
        psi = np.asarray(psi)
        for name, M in mats.items():
            val = float(np.real(psi.conj() @ M @ psi))
            var = float(np.real(psi.conj() @ M @ M @ psi)) - val ** 2
            vref = float(np.real(phi.conj() @ M @ phi))
            h.check(f"{tag}<{name}> equals the reference value", abs(val - vref) < 1e-9, detail=f"{val} vs {vref}")
            h.check(f"{tag}{name} has zero variance (the state stays in the sector)", abs(var) < 1e-8, detail=f"variance {var}")

    conserved("")
    if w <= 4:
        _, psi_c = sim.simulate(a.circuit, return_statevector=True)
        psi_q = qsem.to_numpy(qsem.unitary(a.circuit._gates, w, exact=False)[0], w)[:, 0]
        h.check("cirq statevector == independent gate-by-gate evaluation", float(np.max(np.abs(np.asarray(psi_c) - psi_q))) < 1e-9)
    if cls != "ADAPTAnsatz":
        # the circuits the solvers actually run are produced by update_var_params: parameter vectors with exact zeros (words dropped from some excitations only), the same
        # zero pattern twice (in-place update), then a full vector
        for pat, idx in (("zeros in the last third", range(n - max(1, n // 3), n)), ("zeros in the first third", range(0, max(1, n // 3)))):
            th2 = [0.0 if i in idx else rnd.uniform(-2, 2) for i in range(n)]
            th3 = [0.0 if i in idx else rnd.uniform(-2, 2) for i in range(n)]
            th4 = [rnd.uniform(-2, 2) for _ in range(n)]
            h.call(FILES[cls], f"{cls}.build_circuit", a, th2)
            conserved(f"built with {pat}: ")
            h.call(FILES[cls], f"{cls}.update_var_params", a, np.array(th3))
            conserved(f"updated with the same {pat}: ")
            h.call(FILES[cls], f"{cls}.update_var_params", a, np.array(th4))
            conserved(f"updated with a full vector after {pat}: ")
    h.done()


from tverif.engine import repeatable
repeatable((FO, "number_operator_list"), (FO, "spinz_operator_list"), (FO, "spin2_operator_list"), (FO, "number_operator"), (FO, "spinz_operator"), (FO, "spin2_operator"),
           (PT, "number_operator_penalty"), (PT, "spin_operator_penalty"), (PT, "spin2_operator_penalty"), (PT, "combined_penalty"))

# ---------------------------------------------------------------------------------------------------------------------
# P1  the operator lists for EVERY number of orbitals (symbolic integer; loops over range(n_orbs) cut on generic indices)

from tverif.engine import GhostList
from tverif.interp import GhostIterable
from fractions import Fraction as _Fr


class _ListLoop(GhostIterable):
    """loop that only extends the local list `all_terms`"""
    managed = ("all_terms",)

    def __init__(self, h, name):
        self.h, self.index_name = h, name
        self.before_inner = None

    def init(self, interp, env):
        self.entry = env.lookup("all_terms")

    def havoc(self, interp, env):
        self.acc = GhostList("all_terms")
        env.assign("all_terms", self.acc)

    def step(self, interp, env, broke):
        self.h.check("the loop does not stop early", not broke)
        self.final = env.lookup("all_terms")


def _spin_orbitals(n, i, utd):
    return (i, i + n) if utd else (2 * i, 2 * i + 1)


def _same_terms(h, got, want, tag):
    """got: list of [term, weight] produced by the code (indices may be symbolic); want: the specified list"""
    h.check(tag + ": number of terms", len(got) == len(want), detail=f"{len(got)} vs {len(want)}")
    if len(got) != len(want):
        return
    for k, (g, w) in enumerate(zip(got, want)):
        gt, gw = g
        wt, ww = w
        h.check(tag + f": term {k} has the specified ladder pattern", len(gt) == len(wt) and all(a[1] == b[1] for a, b in zip(gt, wt)))
        h.check_close(tag + f": weight of term {k}", gw, ww)
        if len(gt) == len(wt):
            for m, (a, b) in enumerate(zip(gt, wt)):
                h.check_close(tag + f": spin-orbital of factor {m} of term {k}", a[0], b[0])


@contract("C12", "P1.operator_lists.any_number_of_orbitals", level="P", max_paths=60,
          structures=lambda tier: [{"op": o, "utd": u} for o in ("number", "spinz", "spin2") for u in (False, True)],
          targets=[(FO, "number_operator_list"), (FO, "spinz_operator_list"), (FO, "spin2_operator_list"), (GU, "get_spin_ordered")])
def p1(h, st):
    """for EVERY number of orbitals n >= 1 (symbolic integer) and a generic orbital i (and a generic second orbital j) of the loops: the number / Sz lists contribute exactly
    (a_u^dag a_u, 1 | 1/2), (a_d^dag a_d, 1 | -1/2) for orbital i, with u(i) = i (up_then_down) or 2 i and d(i) = i + n or 2 i + 1; the S^2 list contributes, for every ORDERED pair
    (i, j) - the diagonal i == j from the outer loop, every j != i from the inner loop - the six-term pattern of s_i . s_j = Sz_i Sz_j + 1/2 (S+_i S-_j + S-_i S+_j) on the spin-orbitals
    (u(i), d(i), u(j), d(j)) (that this pattern IS s_i . s_j is the exact-matrix contract O3 on two orbitals); u and d are injective with disjoint images inside [0, 2n). By induction
    over the loops: N = sum_i (n_u + n_d), Sz = 1/2 sum_i (n_u - n_d), S^2 = sum_{i,j} s_i . s_j for every register size"""
    if not h.symbolic:
        h.check("native: covered by O2 / O3", True)
        h.done()
        return
    n = h.integer("n_orbs")
    h.assume(n >= 1)
    utd = st["utd"]
    outer = _ListLoop(h, "i")
    inner = _ListLoop(h, "j")
    h.I.range_protocols = [outer, inner]
    fn = {"number": "number_operator_list", "spinz": "spinz_operator_list", "spin2": "spin2_operator_list"}[st["op"]]
    out = h.call(FO, fn, n, utd)
    i = outer.index
    u, d = _spin_orbitals(n, i, utd)
    h.check("the list accumulated by the loop is returned", out is outer.final)
    if st["op"] in ("number", "spinz"):
        w = (1, 1) if st["op"] == "number" else (_Fr(1, 2), _Fr(-1, 2))
        _same_terms(h, outer.acc.appended, [[((u, 1), (u, 0)), w[0]], [((d, 1), (d, 0)), w[1]]], "orbital i")
    else:
        def six(a_u, a_d, b_u, b_d):
            return [[((a_u, 1), (a_u, 0), (b_u, 1), (b_u, 0)), _Fr(1, 4)], [((a_d, 1), (a_d, 0), (b_d, 1), (b_d, 0)), _Fr(1, 4)],
                    [((a_u, 1), (a_u, 0), (b_d, 1), (b_d, 0)), _Fr(-1, 4)], [((a_d, 1), (a_d, 0), (b_u, 1), (b_u, 0)), _Fr(-1, 4)],
                    [((a_u, 1), (a_d, 0), (b_d, 1), (b_u, 0)), _Fr(1, 2)], [((a_d, 1), (a_u, 0), (b_u, 1), (b_d, 0)), _Fr(1, 2)]]
        _same_terms(h, outer.acc.appended, six(u, d, u, d), "diagonal pair (i, i)")
        h.shape("the inner loop over the second orbital was entered", hasattr(inner, "index"))
        j = inner.index
        u2, d2 = _spin_orbitals(n, j, utd)
        if inner.acc.appended:
            h.check("a pair is contributed by the inner loop only for j != i", ~(i == j))
            _same_terms(h, inner.acc.appended, six(u, d, u2, d2), "pair (i, j)")
        else:
            h.check("no contribution of the inner loop only for j == i", i == j)
    # index maps: injective, disjoint images, inside [0, 2n)
    a, b = h.integer("a"), h.integer("b")
    for x in (a, b):
        h.assume(x >= 0)
        h.assume(x < n)
    ua, da = _spin_orbitals(n, a, utd)
    ub, db = _spin_orbitals(n, b, utd)
    h.check("u injective", (~(ua == ub)) | (a == b))
    h.check("d injective", (~(da == db)) | (a == b))
    h.check("images of u and d disjoint", ~(ua == db))
    h.check("images inside [0, 2 n)", (ua >= 0) & (ua < 2 * n) & (da >= 0) & (da < 2 * n))
    h.done()


PROPERTY = {
    "level": "other",
    "explanation": "N and Sz act with the physical eigenvalues on every determinant and S^2 equals S_-S_+ + Sz^2 + Sz (exact rational matrices built from the AST of the "
                   "operator generators); penalties equal mu (O - v)^2 as polynomial matrices for EVERY weight and target; N, Sz, S^2 commute with every spin-free "
                   "Hamiltonian (symbolic integrals, polynomial identities). Unbounded: the N / Sz / S^2 operator lists for EVERY number of orbitals (P1: range(n) over a symbolic n as cut loops on generic orbitals i, j; per-pair six-term pattern of s_i . s_j, injective spin-orbital maps), which with the exact two-orbital matrices (O3) gives N, Sz, S^2 for every register size. Exact matrices and commutation: bounded register size; conservation along the ansatz circuits (freshly built and along update histories): numerical (bounded).",
    "bounds": {"quick": "operator lists for <= 8 orbitals; exact matrices for 1-2 orbitals (4 spin-orbitals), both orderings; commutation for 2 orbitals (20 symbolic integrals)", "thorough": "3 orbitals"},
    "assumptions": ["openfermion normal_ordered / FermionOperator arithmetic executed natively with symbolic coefficients (assumed)", "encodings: through C03", "ansatz conservation: bounded numeric runs under Jordan-Wigner"],
    "trusted_base": ["tverif AST interpreter", "tverif.ring", "openfermion"],
}
