"""C18 -- Measurement grouping and histogram processing conserve information."""
import itertools
from fractions import Fraction

from tverif.engine import contract, snapshot, opaque_sampler
from tverif.ring import Poly

H = "tangelo/toolboxes/post_processing/histogram.py"
PS = "tangelo/toolboxes/post_processing/post_selection.py"
BS = "tangelo/toolboxes/post_processing/bootstrapping.py"
BK = "tangelo/linq/target/backend.py"
QG = "tangelo/toolboxes/measurements/qubit_terms_grouping.py"


def keys(n):
    return ["".join(b) for b in itertools.product("01", repeat=n)]


def sym_counts(h, n, subset=None, prefix="v", positive=True, integer=False):
    """dictionary bitstring -> symbolic count (all 2^n keys or the given subset)"""
    d = {}
    for k in (subset or keys(n)):
        v = h.integer(f"{prefix}{k}") if integer else h.real(f"{prefix}{k}")
        if positive:
            h.assume(v > 0)
        d[k] = v
    return d


def total(d):
    t = 0
    for v in d.values():
        t = t + v
    return t


def count_samples(st, rnd, tier, n=None, prefixes=("v",), integer=False):
    n = n or st["n"]
    out = []
    for _ in range(2 if tier == "quick" else 6):
        vals = {}
        for p in prefixes:
            for k in keys(n):
                vals[f"{p}{k}"] = rnd.randint(1, 50) if integer else rnd.choice([rnd.uniform(0.01, 5), 1.0, 0.25])
        out.append(vals)
    return out


def subsets(n, maxsize=None):
    out = []
    for k in range(0, (maxsize if maxsize is not None else n) + 1):
        out += [list(c) for c in itertools.combinations(range(n), k)]
    return out


# O1 Histogram.__init__ ------------------------------------------------------------------------------------------------

@contract("C18", "O1.Histogram.__init__", targets=[(H, "Histogram.__init__")], level="S",
          structures=lambda tier: [{"n": n, "msq": m} for n in (1, 2, 3) for m in (False, True)], native_samples=count_samples)
def o1(h, st):
    """counts stored as given (copied); msq_first reverses every key (injective: total and multiset of values kept); input dict unchanged;
    inconsistent key lengths and negative n_shots raise ValueError"""
    n = st["n"]
    d = sym_counts(h, n)
    before = snapshot(d)
    hist = h.call(H, "Histogram", d, 0, st["msq"])
    h.check("input dictionary unchanged and not aliased", snapshot(d) == before and hist.counts is not d)
    exp = {(k[::-1] if st["msq"] else k): v for k, v in d.items()}
    h.check("keys as given / reversed", set(hist.counts) == set(exp))
    for k in exp:
        h.check_close(f"value of {k}", hist.counts[k], exp[k])
    h.check_close("total conserved", total(hist.counts), total(d))
    e = h.raises(lambda: h.call(H, "Histogram", {"0": 1, "01": 2}), ValueError)
    h.check("inconsistent key lengths raise", e is not None)
    e = h.raises(lambda: h.call(H, "Histogram", {"0": 1.0}, -1), ValueError)
    h.check("negative n_shots raises", e is not None)
    h.done()


# O2 remove_qubit_indices ---------------------------------------------------------------------------------------------

@contract("C18", "O2.Histogram.remove_qubit_indices", targets=[(H, "Histogram.remove_qubit_indices")], level="S",
          structures=lambda tier: [{"n": n, "idx": s} for n in (1, 2, 3) for s in subsets(n)] + ([{"n": 4, "idx": s} for s in subsets(4, 2)] if tier != "quick" else []),
          native_samples=count_samples)
def o2(h, st):
    """new[k'] == sum of old[k] over the keys k whose projection (positions not in idx, in order) is k'; total conserved"""
    n, idx = st["n"], st["idx"]
    d = sym_counts(h, n)
    hist = h.call(H, "Histogram", d)
    h.call(H, "Histogram.remove_qubit_indices", hist, *idx)
    keep = [i for i in range(n) if i not in idx]
    exp = {}
    for k, v in d.items():
        kk = "".join(k[i] for i in keep)
        exp[kk] = exp.get(kk, 0) + v
    h.check("keys are the projections", set(hist.counts) == set(exp))
    for kk in exp:
        h.check_close(f"marginal count of {kk!r}", hist.counts[kk], exp[kk])
    h.check_close("total conserved", total(hist.counts), total(d))
    h.done()


# O3 post-selection ---------------------------------------------------------------------------------------------------

def o3_structures(tier):
    sts = []
    for n in (2, 3):
        for idx0 in subsets(n, 2 if tier == "quick" else 3):
            if not idx0:
                continue
            # the dictionary may be built in any key order
            for idx in itertools.permutations(idx0):
                for bits in itertools.product("01", repeat=len(idx)):
                    sts.append({"n": n, "expected": [[i, b] for i, b in zip(idx, bits)]})
    return sts


@contract("C18", "O3.post_select", targets=[(H, "Histogram.post_select"), (H, "filter_hist"), (PS, "post_select"), (H, "Histogram.frequencies"), (H, "Histogram.n_shots")],
          level="S", structures=o3_structures, native_samples=count_samples)
def o3(h, st):
    """kept keys are exactly those agreeing with expected_outcomes - a dictionary built in ANY key order - (positions removed); counts of kept keys unchanged;
    post_select(freqs): frequencies renormalised over the kept keys (sum == 1); arguments unchanged"""
    n = st["n"]
    expected = {int(i): b for i, b in st["expected"]}      # insertion order as listed (ascending or not)
    d = sym_counts(h, n)
    hist = h.call(H, "Histogram", d)
    h.call(H, "Histogram.post_select", hist, dict(expected))
    keep = [i for i in range(n) if i not in expected]
    exp = {}
    for k, v in d.items():
        if all(k[i] == b for i, b in expected.items()):
            kk = "".join(k[i] for i in keep)
            exp[kk] = exp.get(kk, 0) + v
    h.check("kept keys", set(hist.counts) == set(exp))
    for kk in exp:
        h.check_close(f"count of {kk!r}", hist.counts[kk], exp[kk])
    hist_m = h.call(H, "Histogram", {k[::-1]: v for k, v in d.items()}, 0, True)
    h.call(H, "Histogram.post_select", hist_m, dict(expected))
    h.check("msq-first construction, then post_select: kept keys", set(hist_m.counts) == set(exp), detail=f"{sorted(hist_m.counts)} vs {sorted(exp)}")
    for kk in exp:
        if kk in hist_m.counts:
            h.check_close(f"msq-first construction, then post_select: count of {kk!r}", hist_m.counts[kk], exp[kk])
    before = snapshot(d)
    fr = h.call(PS, "post_select", d, dict(expected))
    h.check("frequency dictionary argument unchanged", snapshot(d) == before)
    tot = total(exp)
    for kk in exp:
        h.check_close(f"renormalised frequency of {kk!r} (times the kept total)", fr[kk] * tot, exp[kk], tol=1e-9)
    h.done()


# O4 aggregation ------------------------------------------------------------------------------------------------------

@contract("C18", "O4.aggregate_histograms", targets=[(H, "aggregate_histograms"), (H, "Histogram.__add__"), (H, "Histogram.__iadd__"), (H, "Histogram.n_qubits")],
          level="S", structures=lambda tier: [{"n": n, "sub": s} for n in (1, 2) for s in ("full", "partial")],
          native_samples=lambda st, rnd, tier: count_samples(st, rnd, tier, prefixes=("a", "b", "c")))
def o4(h, st):
    """per key the sum over the inputs, total = sum of totals, operands of + unchanged; += updates the left operand; different lengths raise"""
    n = st["n"]
    ks = keys(n)
    sa = ks if st["sub"] == "full" else ks[:1]
    sb = ks if st["sub"] == "full" else ks[-1:]
    a, b, c = sym_counts(h, n, sa, "a"), sym_counts(h, n, sb, "b"), sym_counts(h, n, ks, "c")
    ha, hb, hc = (h.call(H, "Histogram", x) for x in (a, b, c))
    sna, snb = snapshot(ha.counts), snapshot(hb.counts)
    s = h.call(H, "Histogram.__add__", ha, hb)
    h.check("operands of + unchanged", snapshot(ha.counts) == sna and snapshot(hb.counts) == snb)
    for k in ks:
        h.check_close(f"sum at {k}", s.counts.get(k, 0), a.get(k, 0) + b.get(k, 0))
    h.check("no extra keys", set(s.counts) <= set(ks))
    s3 = h.call(H, "aggregate_histograms", ha, hb, hc)
    h.check_close("total of three == sum of totals", total(s3.counts), total(a) + total(b) + total(c))
    r = h.call(H, "Histogram.__iadd__", ha, hc)
    h.check("+= returns self", r is ha)
    for k in ks:
        h.check_close(f"+= value at {k}", ha.counts.get(k, 0), a.get(k, 0) + c.get(k, 0))
    other = h.call(H, "Histogram", {"0" * (n + 1): 1})
    e = h.raises(lambda: h.call(H, "aggregate_histograms", hb, other), ValueError)
    h.check("different bitstring lengths raise", e is not None)
    e = h.raises(lambda: h.call(H, "aggregate_histograms"), ValueError)
    h.check("no argument raises", e is not None)
    h.done()


# O5 frequencies ------------------------------------------------------------------------------------------------------

@contract("C18", "O5.frequencies", targets=[(H, "Histogram.frequencies"), (H, "Histogram.n_shots")], level="S",
          structures=lambda tier: [{"n": n} for n in (1, 2, 3)], native_samples=count_samples)
def o5(h, st):
    """frequencies[k] * n_shots == counts[k] and n_shots == sum(counts): the frequencies sum to 1"""
    d = sym_counts(h, st["n"])
    hist = h.call(H, "Histogram", d)
    ns = h.getattr(hist, "n_shots")
    h.check_close("n_shots == total", ns, total(d))
    fr = h.getattr(hist, "frequencies")
    for k in d:
        h.check_close(f"frequency of {k} times n_shots", fr[k] * ns, d[k])
    h.check_close("frequencies sum to one (times n_shots)", total(fr) * ns, ns)
    h.done()


# O6 strip / split ----------------------------------------------------------------------------------------------------

def o6_structures(tier):
    sts = []
    for n in (2, 3):
        for idx0 in subsets(n, 2):
            if idx0 and len(idx0) < n:
                for idx in itertools.permutations(idx0):
                    sts.append({"n": n, "idx": list(idx), "desired": None})
                    for bits in itertools.product("01", repeat=len(idx)):
                        sts.append({"n": n, "idx": list(idx), "desired": "".join(bits)})
    return sts


@contract("C18", "O6.split_frequency_dict", targets=[(PS, "split_frequency_dict"), (PS, "strip_post_selection"), (PS, "post_select")], level="S",
          structures=o6_structures, native_samples=count_samples)
def o6(h, st):
    """first output: marginal over `indices` (normalised); second: marginal over the others, or the conditional distribution given
    desired_measurement (its j-th character is the outcome wanted on indices[j], whatever the order of `indices`); both carry total 1; input unchanged"""
    n, idx, desired = st["n"], st["idx"], st["desired"]
    d = sym_counts(h, n)
    tot = total(d)
    before = snapshot(d)
    mid, marg = h.call(PS, "split_frequency_dict", d, list(idx), desired)
    h.check("input unchanged", snapshot(d) == before)
    others = [i for i in range(n) if i not in idx]
    exp_mid = {}
    for k, v in d.items():
        kk = "".join(k[i] for i in sorted(idx))        # marginal keys keep the positions' order; desired_measurement[j] belongs to indices[j]
        exp_mid[kk] = exp_mid.get(kk, 0) + v
    h.check("mid-circuit keys", set(mid) == set(exp_mid))
    for kk in exp_mid:
        h.check_close(f"mid-circuit marginal {kk!r} (times total)", mid[kk] * tot, exp_mid[kk])
    exp = {}
    for k, v in d.items():
        if desired is None or all(k[i] == b for i, b in zip(idx, desired)):
            kk = "".join(k[i] for i in others)
            exp[kk] = exp.get(kk, 0) + v
    h.check("final keys", set(marg) == set(exp))
    t2 = total(exp)
    for kk in exp:
        h.check_close(f"final distribution {kk!r} (times its total)", marg[kk] * t2, exp[kk])
    h.done()


@contract("C18", "O6b.split_frequency_dict_for_last_n_digits", targets=[(PS, "split_frequency_dict_for_last_n_digits")], level="S",
          structures=lambda tier: [{"n": n, "last": k} for n in (2, 3) for k in range(0, n + 1)], native_samples=count_samples)
def o6b(h, st):
    """both outputs carry the input's total; keys are the first n-k resp. last k digits"""
    n, k = st["n"], st["last"]
    d = sym_counts(h, n)
    before = snapshot(d)
    f1, f2 = h.call(PS, "split_frequency_dict_for_last_n_digits", d, k)
    h.check("input unchanged", snapshot(d) == before)
    e1, e2 = {}, {}
    for key, v in d.items():
        e1[key[:n - k]] = e1.get(key[:n - k], 0) + v
        e2[key[n - k:]] = e2.get(key[n - k:], 0) + v
    h.check("keys", set(f1) == set(e1) and set(f2) == set(e2))
    for kk in e1:
        h.check_close(f"first part {kk!r}", f1[kk], e1[kk])
    for kk in e2:
        h.check_close(f"last digits {kk!r}", f2[kk], e2[kk])
    h.check_close("totals conserved", total(f1) + total(f2), 2 * total(d))
    h.done()


# O7 marginalising qubits outside the support keeps the term's expectation value ------------------------------------------

def o7_structures(tier):
    sts = []
    for n in (2, 3) if tier == "quick" else (2, 3, 4):
        for supp in subsets(n):
            rest = [i for i in range(n) if i not in supp]
            for rem in subsets(len(rest)):
                sts.append({"n": n, "supp": supp, "remove": [rest[i] for i in rem]})
    return sts


@contract("C18", "O7.oneterm.parity_and_marginal", targets=[(BK, "get_expectation_value_from_frequencies_oneterm"), (H, "Histogram.remove_qubit_indices"),
                                                               (H, "Histogram.get_expectation_value")], level="S",
          structures=o7_structures, native_samples=count_samples)
def o7(h, st):
    """oneterm(term, f) == sum_b f[b] (-1)^{#ones of b on supp(term)}; removing qubits outside supp(term) (with re-indexing of the term)
    leaves the value unchanged"""
    n, supp, rem = st["n"], st["supp"], st["remove"]
    d = sym_counts(h, n)
    term = tuple((i, "Z") for i in supp)
    val = h.call(BK, "get_expectation_value_from_frequencies_oneterm", term, d)
    exp = 0
    for k, v in d.items():
        sgn = (-1) ** sum(1 for i in supp if k[i] == "1")
        exp = exp + sgn * v
    h.check_close("parity-weighted sum", val, exp)
    hist = h.call(H, "Histogram", d)
    h.call(H, "Histogram.remove_qubit_indices", hist, *rem)
    keep = [i for i in range(n) if i not in rem]
    term2 = tuple((keep.index(i), "Z") for i in supp)
    val2 = h.call(BK, "get_expectation_value_from_frequencies_oneterm", term2, hist.counts)
    h.check_close("unchanged by marginalising qubits outside the support", val2, exp)
    h.done()


# O8 resampling: chunk bookkeeping (sampler opaque) -----------------------------------------------------------------------

@contract("C18", "O8.get_resampled_frequencies.chunks", targets=[(BS, "get_resampled_frequencies"), (H, "Histogram.resample")], level="S",
          structures=lambda tier: [{"ncount": c} for c in (1, 7, 1000, 10 ** 7 - 1, 10 ** 7, 10 ** 7 + 3, 2 * 10 ** 7 + 5)])
def o8(h, st):
    """the chunk sizes requested from the sampler sum to ncount; output values are k/ncount with sum(k) == ncount; keys have the input's width"""
    from scipy import stats
    import numpy as np
    sizes = []

    def fake_rvs(interp, f, args, kw):
        size = kw.get("size", args[0] if args else None)
        sizes.append(size)
        return np.full(min(size, 3), 2, dtype=np.int64) if size else np.array([], dtype=np.int64)
    # the sampler is opaque: its calls are recorded, it returns (at most 3) copies of outcome '10'
    from tverif import interp as _i
    cls = type(stats.rv_discrete(name="x", values=(np.array([0]), np.array([1.0]))))
    old = _i._MODELS.get(id(cls.rvs))
    _i._MODELS[id(cls.rvs)] = fake_rvs
    try:
        if h.symbolic:
            out = h.call(BS, "get_resampled_frequencies", {"00": 0.5, "10": 0.25, "11": 0.25}, st["ncount"])
            h.check("chunk sizes sum to ncount", sum(sizes) == st["ncount"], detail=str(sizes))
            h.check("every chunk within the chunk size", all(0 <= s <= 10 ** 7 for s in sizes))
            h.check("keys have the input width", all(len(k) == 2 for k in out))
        else:
            h.check("native: skipped (sampler stub only in the interpreter)", True)
    finally:
        if old is None:
            _i._MODELS.pop(id(cls.rvs), None)
        else:
            _i._MODELS[id(cls.rvs)] = old
    h.done()


@contract("C18", "O8c.get_resampled_frequencies.key_mapping", targets=[(BS, "get_resampled_frequencies")], level="S",
          structures=lambda tier: [{"keys": ks} for ks in (["0", "1"], ["01"], ["10", "01"], ["001", "110", "011"], ["100", "000", "111", "010"], ["0001", "1000", "0110"])])
def o8c(h, st):
    """the sampler OPAQUE: whichever samples it returns, a sample drawn for the input bitstring k is counted under that same bitstring k (same width, leading zeros
    kept, not reversed), with frequency count / ncount; the sampler is given the input frequencies"""
    ks = st["keys"]
    w = list(range(1, len(ks) + 1))
    fr = {k: w[j] / sum(w) for j, k in enumerate(ks)}
    ncount = sum(w)
    if not h.symbolic:
        h.check("native: skipped (sampler stub only in the interpreter)", True)
        h.done()
        return
    with opaque_sampler(lambda xk, pk, size, k: [x for j, x in enumerate(xk) for _ in range(int(round(pk[j] * sum(w))))][:size]) as calls:
        out = h.call(BS, "get_resampled_frequencies", dict(fr), ncount)
    h.check("sampler given the input frequencies", len(calls) >= 1 and sorted(float(x) for x in calls[0][1]) == sorted(fr.values()))
    # with this draw, input key number j is sampled exactly w[j] times: the output must equal the input
    h.check("samples counted under the bitstring they were drawn for", set(out) == set(fr) and all(abs(out[k] - fr[k]) < 1e-12 for k in fr), detail=f"{out} vs {fr}")
    h.done()


@contract("C18", "O8b.resample.normalisation", targets=[(BS, "get_resampled_frequencies"), (H, "Histogram.resample")], level="B",
          structures=lambda tier: [{"ncount": c, "n": n} for c in (1, 10, 1000) for n in (1, 2, 3)],
          native_samples=lambda st, rnd, tier: [{"seed": rnd.randint(0, 10 ** 6)} for _ in range(3)])
def o8b(h, st):
    """bounded: resampled frequencies are multiples of 1/ncount summing to 1, support inside the input's support, width kept"""
    import numpy as np
    np.random.seed(int(h.integer("seed")))
    ks = keys(st["n"])
    w = np.random.random(len(ks)) + 0.01
    w[0] = 0.0
    fr = {k: float(x / w.sum()) for k, x in zip(ks, w) if x > 0}
    out = h.call(BS, "get_resampled_frequencies", fr, st["ncount"])
    h.check("sum == 1", abs(sum(out.values()) - 1) < 1e-9)
    h.check("multiples of 1/ncount", all(abs(v * st["ncount"] - round(v * st["ncount"])) < 1e-6 for v in out.values()))
    h.check("support inside the input support", set(out) <= set(fr))
    hist = h.call(H, "Histogram", fr, 0)
    rs = h.call(H, "Histogram.resample", hist, st["ncount"])
    h.check("Histogram.resample carries ncount shots", h.getattr(rs, "n_shots") == st["ncount"])
    h.done()


# O9 / O10 measurement maps ---------------------------------------------------------------------------------------------

def pauli_words(n, letters="IXYZ"):
    return ["".join(p) for p in itertools.product(letters, repeat=n)]


def to_term(word):
    return tuple((i, p) for i, p in enumerate(word) if p != "I")


@contract("C18", "O9.check_bases_commute_qwc", targets=[(QG, "check_bases_commute_qwc"), (QG, "map_measurements_qwc")], level="S",
          structures=lambda tier: [{"a": a, "b": b} for a in pauli_words(2) for b in pauli_words(2)] +
          ([{"a": a, "b": b} for a in pauli_words(3)[::3] for b in pauli_words(3)[::5]] if tier != "quick" else []))
def o9(h, st):
    """true iff the two words agree on every qubit where both are non-identity"""
    a, b = to_term(st["a"]), to_term(st["b"])
    r = h.call(QG, "check_bases_commute_qwc", a, b)
    exp = all(x == y or x == "I" or y == "I" for x, y in zip(st["a"], st["b"]))
    h.check("qubit-wise commutation decided correctly", bool(r) == exp)
    h.done()


def o10_structures(tier):
    sts = []
    bases = ["ZZ", "XX", "ZX", "YZ"]
    terms_pool = [w for w in pauli_words(2)]
    for k in (1, 2, 3):
        for combo in list(itertools.combinations(range(len(terms_pool)), k))[:: 7 if tier == "quick" else 2]:
            sts.append({"terms": [terms_pool[i] for i in combo], "bases": bases})
    return sts


@contract("C18", "O10.map_measurements_and_exp_value", targets=[(QG, "map_measurements_qwc"), (QG, "exp_value_from_measurement_bases")], level="S",
          structures=o10_structures,
          native_samples=lambda st, rnd, tier: [{**{f"c{j}": rnd.uniform(-2, 2) for j in range(len(st["terms"]))},
                                                   **{f"f{b}{k}": rnd.uniform(0.1, 1) for b in st["bases"] for k in keys(2)}}])
def o10(h, st):
    """map lists for each basis exactly the terms that are qubit-wise diagonal in it; the assembled expectation value is
    sum_basis sum_term c_term * oneterm(term, hist[basis]) (term-by-term value)"""
    from tangelo.toolboxes.operators import QubitOperator
    terms = [to_term(w) for w in st["terms"]]
    cs = [h.real(f"c{j}") for j in range(len(terms))]
    qop = QubitOperator()
    for t, c in zip(terms, cs):
        qop.terms[t] = c
    sub = {}
    for b in st["bases"]:
        bt = to_term(b)
        o = QubitOperator()
        for t, c in zip(terms, cs):
            if all(dict(bt).get(i) == p for i, p in t):
                o.terms[t] = c
        if o.terms:
            sub[bt] = o
    hists = {}
    for b in st["bases"]:
        fr = {k: h.real(f"f{b}{k}") for k in keys(2)}
        if to_term(b) in sub:
            hists[to_term(b)] = fr
    val = h.call(QG, "exp_value_from_measurement_bases", sub, hists)
    exp = 0
    for bt, o in sub.items():
        for t, c in o.terms.items():
            s = 0
            for k, v in hists[bt].items():
                s = s + v * (-1) ** sum(1 for i, _ in t if k[i] == "1")
            exp = exp + c * s
    h.check_close("assembled value == term-by-term value", val, exp)
    mp = h.call(QG, "map_measurements_qwc", sub)
    listed_terms = {t for o in sub.values() for t in o.terms}
    for t in listed_terms:
        if not t:
            continue
        for bt in sub:
            qwc = all(dict(bt).get(i, p) == p for i, p in t)
            h.check("map lists exactly the qubit-wise compatible bases", (bt in mp.get(t, [])) == qwc, detail=f"{t} vs {bt}")
    h.done()


# O11 grouping partition (openfermion heuristic: bounded) -----------------------------------------------------------------

@contract("C18", "O11.group_qwc.partition", targets=[(QG, "group_qwc")], level="B",
          structures=lambda tier: [{"n": n, "k": k, "repeat": r} for n in (2, 3, 4) for k in (1, 3, 6, 10) for r in (1, 4)],
          native_samples=lambda st, rnd, tier: [{"seed": rnd.randint(0, 10 ** 6)} for _ in range(3 if tier == "quick" else 15)])
def o11(h, st):
    """bounded: every term of the operator appears in exactly one group with its coefficient and is qubit-wise diagonal in the group key"""
    import random
    from tangelo.toolboxes.operators import QubitOperator
    seed = int(h.integer("seed"))
    rnd = random.Random(seed)
    qop = QubitOperator()
    for _ in range(st["k"]):
        w = "".join(rnd.choice("IXYZ") for _ in range(st["n"]))
        qop.terms[to_term(w)] = qop.terms.get(to_term(w), 0) + round(rnd.uniform(-1, 1), 3) + 0.001
    before = snapshot(dict(qop.terms))
    # (repeat > 1: the cover is recomputed with fresh random seeds and the smallest one kept - whichever run wins, the result must be a partition)
    groups = h.call(QG, "group_qwc", qop, seed, st.get("repeat", 1)) if st.get("repeat", 1) > 1 else h.call(QG, "group_qwc", qop, seed)
    h.check("operator unchanged", snapshot(dict(qop.terms)) == before)
    seen = {}
    for basis, sub in groups.items():
        bd = dict(basis)
        for t, c in sub.terms.items():
            h.check("term is diagonal in its group's basis", all(bd.get(i) == p for i, p in t), detail=f"{t} in {basis}")
            seen[t] = seen.get(t, 0) + 1
            h.check("coefficient kept", abs(c - qop.terms[t]) < 1e-12)
    h.check("each term appears exactly once", seen == {t: 1 for t in qop.terms}, detail=str(seen))
    h.done()


# O12 histories on ONE Histogram object ------------------------------------------------------------------------------------

HIST_OPS = ["read", "post_select", "remove", "iadd", "expectation"]


def o12_structures(tier):
    sts = []
    L = 3
    for seq in itertools.product(HIST_OPS, repeat=L):
        if not any(o in ("post_select", "remove", "iadd") for o in seq):
            continue
        sts.append({"n": 3, "ops": list(seq), "msq": False})
    # the same histories on an object CONSTRUCTED from msq-first data (keys reversed, msq_first=True): the stored convention is lsq-first whatever the input
    # convention was, so every later operation must behave exactly as on the lsq-first construction
    msq = [{**s, "msq": True} for s in sts]
    return sts + msq if tier != "quick" else sts[::2] + msq[1::4]


@contract("C18", "O12.Histogram.histories", level="S", structures=o12_structures, native_samples=lambda st, rnd, tier: count_samples(st, rnd, tier, prefixes=("v", "w")),
          targets=[(H, "Histogram.n_shots"), (H, "Histogram.frequencies"), (H, "Histogram.post_select"), (H, "Histogram.remove_qubit_indices"), (H, "Histogram.__iadd__"),
                   (H, "Histogram.get_expectation_value")])
def o12(h, st):
    """after EVERY step of a history of operations on one Histogram object (reading n_shots / frequencies / an expectation value, post-selecting in place, removing a qubit,
    += another histogram), for every value of the counts: n_shots == sum of the current counts, frequencies[k] * n_shots == counts[k] (so they sum to one), the counts are
    those of the specified operation applied to the previous counts, and the expectation value read is the parity-weighted mean of the CURRENT counts - nothing observable
    depends on values read or cached earlier in the history"""
    n = st["n"]
    d = sym_counts(h, n)
    wsym = sym_counts(h, n, prefix="w")       # counts of the histograms added along the history (declared up front so that every counter-model is complete)
    if st.get("msq"):
        hist = h.call(H, "Histogram", {k[::-1]: v for k, v in d.items()}, 0, True)
    else:
        hist = h.call(H, "Histogram", dict(d))
    cur = dict(d)              # specification state: the counts the object must hold
    width = n
    step = 0
    for op in st["ops"]:
        step += 1
        tag = f"step {step} ({op}): "
        if op == "read":
            pass
        elif op == "post_select":
            if width < 2:
                continue
            h.call(H, "Histogram.post_select", hist, {0: "1"})
            cur = {k[1:]: v for k, v in cur.items() if k[0] == "1"}
            width -= 1
        elif op == "remove":
            if width < 2:
                continue
            h.call(H, "Histogram.remove_qubit_indices", hist, width - 1)
            new = {}
            for k, v in cur.items():
                new[k[:-1]] = new.get(k[:-1], 0) + v
            cur = new
            width -= 1
        elif op == "iadd":
            other = {k: wsym[k.rjust(n, "0")] for k in cur}
            o2 = h.call(H, "Histogram", {k[::-1]: v for k, v in other.items()}, 0, True) if st.get("msq") else h.call(H, "Histogram", dict(other))
            hist = h.I.augop(__import__("ast").Add, hist, o2) if h.symbolic else hist.__iadd__(o2)
            cur = {k: cur[k] + other[k] for k in cur}
        elif op == "expectation":
            term = ((0, "Z"),) if width >= 1 else ()
            val = h.call(H, "Histogram.get_expectation_value", hist, term)
            tot = total(cur)
            want = sum((v if k[0] == "0" else -1 * v) for k, v in cur.items())
            if not h.symbolic:
                # (value compared in the bounded native runs only: a sum of quotients times the total is nonlinear for the SMT back ends; the symbolic run still
                #  executes the call, so that whatever it caches takes part in the rest of the history)
                h.check_close(tag + "expectation value of Z0 times the total == signed sum of the current counts", val * tot, want)
        # observable state after the step
        counts = hist.counts
        h.check(tag + "keys of the counts", sorted(counts) == sorted(cur), detail=f"{sorted(counts)} vs {sorted(cur)}")
        if sorted(counts) == sorted(cur):
            for k in cur:
                h.check_close(tag + f"count of {k}", counts[k], cur[k])
        ns = h.getattr(hist, "n_shots")
        h.check_close(tag + "n_shots == sum of the current counts", ns, total(cur))
        fr = h.getattr(hist, "frequencies")
        for k in cur:
            if k in fr:
                h.check_close(tag + f"frequency of {k} times the total == its count", fr[k] * total(cur), cur[k])
        h.check(tag + "frequencies defined on the current keys", sorted(fr) == sorted(cur))
    h.done()


from tverif.engine import repeatable
repeatable((PS, "post_select"), (PS, "strip_post_selection"), (PS, "split_frequency_dict"), (PS, "split_frequency_dict_for_last_n_digits"), (QG, "map_measurements_qwc"),
           (QG, "check_bases_commute_qwc"))

PROPERTY = {
    "level": "proof",
    "explanation": "Conservation laws of Histogram / post-selection / splitting / one-term expectation values are proved for every value of the "
                   "counts (symbolic reals, exact normal forms / z3) on every histogram shape up to the bound; the grouping partition of "
                   "openfermion's heuristic and the sampler are outside the verifier's reach and are covered by labelled bounded runs. Histories of reads and in-place operations on ONE Histogram object are proved step by step for every value of the counts (O12).",
    "bounds": {"quick": "bitstrings of length <= 3 (all 2^n keys present), every index subset / expected-outcome dictionary on <= 2 positions",
               "thorough": "length <= 4"},
    "assumptions": ["floats as reals", "collections.Counter addition and bitarray executed natively on symbolic values through operator overloading",
                    "scipy sampler opaque (chunk sizes recorded)", "group_qwc partition property: bounded only (external heuristic)"],
    "trusted_base": ["tverif AST interpreter", "tverif.ring", "z3"],
}
