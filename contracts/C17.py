"""C17 -- Circuits and operators survive export/import round trips."""
import itertools

from tverif.engine import contract, snapshot
from tverif.ring import Poly

TT = "tangelo/linq/translator/translate_circuit.py"
TI = "tangelo/linq/translator/translate_json_ionq.py"
TP = "tangelo/linq/translator/translate_projectq.py"
TC = "tangelo/linq/translator/translate_circuit.py"
TQ = "tangelo/linq/translator/translate_qubitop.py"
TCQ = "tangelo/linq/translator/translate_cirq.py"
G = "tangelo/linq/gate.py"

PARAM = {"RX", "RY", "RZ", "PHASE", "CRX", "CRY", "CRZ", "CPHASE", "XX"}
TWO_TARGET = {"XX", "SWAP", "CSWAP"}
IONQ = ["H", "X", "Y", "Z", "S", "T", "RX", "RY", "RZ", "PHASE", "SWAP", "XX", "CRX", "CRY", "CRZ", "CPHASE", "CX", "CY", "CZ", "CNOT"]
IONQ_UNSUPPORTED = ["CH", "CSWAP", "MEASURE", "POTATO"]
PQ = ["H", "X", "Y", "Z", "S", "T", "RX", "RY", "RZ", "PHASE", "CNOT"]
PQ_UNSUPPORTED = ["CZ", "SWAP", "XX", "CRZ", "CPHASE", "CSWAP"]


def mk_gate(name, target, control=None, parameter="", is_variational=False):
    from tangelo.linq import Gate
    return Gate(name, target, control, parameter, is_variational)


def mk_circuit(gates, n_qubits=None):
    from tangelo.linq import Circuit
    return Circuit(gates, n_qubits=n_qubits)


def same_gate(h, a, b):
    """field-wise equality (CNOT == CX), parameters identical (symbolic: same normal form)"""
    names = {a.name, b.name}
    if not (a.name == b.name or names == {"CNOT", "CX"}):
        return False
    if list(a.target) != list(b.target) or (list(a.control) if a.control else None) != (list(b.control) if b.control else None):
        return False
    pa, pb = a.parameter, b.parameter
    if isinstance(pa, Poly) or isinstance(pb, Poly):
        return Poly._coerce(pa).same(pb) if not isinstance(pb, str) and not isinstance(pa, str) else False
    if pa in ("", None) and pb in ("", None):
        return True
    return pa == pb


# O1 IonQ JSON ----------------------------------------------------------------------------------------------------------

def o1_structures(tier):
    sts = []
    for name in IONQ:
        nt = 2 if name in TWO_TARGET else 1
        for nc in ((1, 2) if name.startswith("C") else (0,)):
            for base in (0, 3):
                qs = [base + 2 * i for i in range(nt + nc)][::-1] if base else list(range(nt + nc))
                for fixed in (None, 9):
                    sts.append({"name": name, "target": qs[:nt], "control": qs[nt:] or None, "fixed": fixed})
    for name in IONQ_UNSUPPORTED:
        sts.append({"name": name, "unsupported": True})
    sts.append({"multi": True})
    return sts


@contract("C17", "O1.ionq.round_trip", targets=[(TI, "translate_c_to_json_ionq"), (TI, "translate_c_from_json_ionq"), (TI, "get_ionq_gates")], level="S",
          structures=o1_structures, native_samples=lambda st, rnd, tier: [{"theta": v} for v in (0.5, -0.5, 1e-05, 12.566370614359172, 3.0)])
def o1(h, st):
    """from_ionq(to_ionq(c)) has the same gates (name up to CNOT = CX, qubits, parameter) and the same width, for every supported gate kind, any placement /
    number of controls and EVERY parameter value; gates the format cannot express are refused by the writer; the source circuit is unchanged"""
    if st.get("multi"):
        gates = [mk_gate("H", 2), mk_gate("CNOT", 0, 2), mk_gate("RZ", 1, None, h.real("theta")), mk_gate("CPHASE", 4, [1, 0], h.real("theta") * 2), mk_gate("SWAP", [3, 0])]
        c = mk_circuit(gates, 7)
    elif st.get("unsupported"):
        name = st["name"]
        g = mk_gate(name, [0, 1] if name == "CSWAP" else [0], [2] if name.startswith("C") else None)
        e = h.raises(lambda: h.call(TI, "translate_c_to_json_ionq", mk_circuit([g])), ValueError)
        h.check("unsupported gate refused by the writer", e is not None)
        h.done()
        return
    else:
        theta = h.real("theta") if st["name"] in PARAM else ""
        c = mk_circuit([mk_gate(st["name"], st["target"], st["control"], theta)], st["fixed"])
    before = snapshot(c.__dict__)
    js = h.call(TI, "translate_c_to_json_ionq", c)
    h.check("source circuit unchanged by export", snapshot(c.__dict__) == before)
    c2 = h.call(TI, "translate_c_from_json_ionq", js)
    h.check("same number of gates", len(c2._gates) == len(c._gates))
    h.check("same gates", all(same_gate(h, a, b) for a, b in zip(c._gates, c2._gates)), detail=str(c2._gates)[:200])
    h.check("same width", h.getattr(c2, "width") == h.getattr(c, "width"), detail=f"{h.getattr(c2, 'width')} vs {h.getattr(c, 'width')}")
    # the same round trip through the FRONT END translate_circuit (target / source names in any letter case; source == target returns the circuit itself)
    js2 = h.call(TT, "translate_circuit", c, "IonQ")
    c3 = h.call(TT, "translate_circuit", js2, "tangelo", "ionq")
    h.check("front end: same gates after translate_circuit(.., 'ionq') and back", len(c3._gates) == len(c._gates) and all(same_gate(h, a, b) for a, b in zip(c._gates, c3._gates)),
            detail=str(c3._gates)[:200])
    h.check("front end: source == target hands the circuit back", h.call(TT, "translate_circuit", c, "tangelo") is c)
    e = h.raises(lambda: h.call(TT, "translate_circuit", c, "no-such-format"), NotImplementedError)
    h.check("front end: unknown target refused", e is not None)
    h.check("source circuit unchanged by the front end", snapshot(c.__dict__) == before)
    h.done()


# O2/O3 ProjectQ command text ----------------------------------------------------------------------------------------------

PARAMS = [0.5, -0.5, 1e-05, 12.566370614359172, 3]


def o3_structures(tier):
    sts = []
    for name in PQ:
        for idx in (0, 1, 7, 12):
            for fixed in (None, idx + 3):
                ps = PARAMS if name in PARAM else [""]
                for p in ps:
                    sts.append({"name": name, "idx": idx, "fixed": fixed, "param": p})
    for name in PQ_UNSUPPORTED:
        sts.append({"name": name, "unsupported": True})
    sts.append({"multi": True})
    sts.append({"name": "MEASURE", "measure": True})
    return sts


@contract("C17", "O3.projectq.round_trip", targets=[(TP, "translate_c_to_projectq"), (TP, "translate_c_from_projectq"), (TP, "get_projectq_gates")], level="S", structures=o3_structures)
def o3(h, st):
    """from_projectq(to_projectq(c)) == c (gates, qubits, parameters and width, idle highest qubits included) for every gate kind the writer supports; what the
    writer cannot express is refused; whatever the writer emits is read back (not silently dropped)"""
    if st.get("unsupported"):
        name = st["name"]
        g = mk_gate(name, [0, 1] if name in TWO_TARGET else [0], [2] if name.startswith("C") else None, 0.5 if name in PARAM else "")
        e = h.raises(lambda: h.call(TP, "translate_c_to_projectq", mk_circuit([g])), ValueError)
        h.check("unsupported gate refused by the writer", e is not None)
        h.done()
        return
    if st.get("multi"):
        c = mk_circuit([mk_gate("H", 2), mk_gate("CNOT", 0, 2), mk_gate("RZ", 1, None, 0.25), mk_gate("PHASE", 4, None, -1.5), mk_gate("T", 3)], 7)
    elif st.get("measure"):
        c = mk_circuit([mk_gate("H", 0), mk_gate("MEASURE", 0), mk_gate("X", 1)])
    else:
        name, idx = st["name"], st["idx"]
        g = mk_gate(name, idx + 1 if name == "CNOT" else idx, idx if name == "CNOT" else None, st["param"])
        c = mk_circuit([g], st["fixed"] + 1 if (st["fixed"] and name == "CNOT") else st["fixed"])
    before = snapshot(c.__dict__)
    text = h.call(TP, "translate_c_to_projectq", c)
    h.check("source circuit unchanged by export", snapshot(c.__dict__) == before)
    c2 = h.call(TP, "translate_c_from_projectq", text)
    h.check("same gates after the round trip", len(c2._gates) == len(c._gates) and all(same_gate(h, a, b) for a, b in zip(c._gates, c2._gates)),
            detail=f"{c2._gates} vs {c._gates}"[:300])
    h.check("same width after the round trip", h.getattr(c2, "width") == h.getattr(c, "width"), detail=f"{h.getattr(c2, 'width')} vs {h.getattr(c, 'width')}")
    h.done()


# O4 repr / eval ----------------------------------------------------------------------------------------------------------

def o4_structures(tier):
    import numpy as np
    sts = []
    names = ["H", "RX", "CNOT", "CRZ", "SWAP", "CSWAP", "XX", "MEASURE", "POTATO", "CPHASE"]
    for name in names:
        nt = 2 if name in TWO_TARGET else 1
        for nc in ((1, 2) if name.startswith("C") else (0,)):
            for pk in ("none", "int", "float", "neg", "str", "npfloat", "npint", "tiny"):
                for var in (False, True):
                    sts.append({"name": name, "nt": nt, "nc": nc, "param": pk, "var": var})
    return sts if tier != "quick" else sts[::2]


@contract("C17", "O4.Gate.__repr__.eval", targets=[(G, "Gate.__repr__"), (G, "Gate.__init__"), (G, "Gate.__eq__")], level="S", structures=o4_structures)
def o4(h, st):
    """eval(repr(g)) (with only Gate in scope) recreates a gate that is equal and field-wise identical, for int / float / negative / string / numpy parameters, any
    qubit shape and the variational flag"""
    import numpy as np
    from tangelo.linq import Gate
    p = {"none": "", "int": 3, "float": 0.7853981633974483, "neg": -2.5, "str": "alpha", "npfloat": np.float64(0.5), "npint": np.int64(2), "tiny": 1e-05}[st["param"]]
    target = list(range(st["nt"]))
    control = list(range(st["nt"], st["nt"] + st["nc"])) or None
    g = mk_gate(st["name"], target, control, p, st["var"])
    r = h.call(G, "Gate.__repr__", g)
    box = {}
    e = h.raises(lambda: box.setdefault("g", eval(r, {"Gate": Gate})), Exception)
    if e is not None:
        e._from_target = True
    h.check("repr evaluates (only Gate in scope)", e is None, detail=f"{r!r}: {e}")
    if e is None:
        g2 = box["g"]
        h.check("equal gate", bool(h.call(G, "Gate.__eq__", g, g2)))
        h.check("field-wise identical", g2.name == g.name and g2.target == g.target and g2.control == g.control and g2.parameter == g.parameter and g2.is_variational == g.is_variational,
                detail=f"{g2.__dict__} vs {g.__dict__}")
    h.done()


# O5 operators -------------------------------------------------------------------------------------------------------------

def o5_structures(tier):
    words = ["", "X0", "Z0 Y2", "X1 Y3 Z4", "Y0 Y1", "Z7"]
    sts = []
    for k in (1, 2, 3):
        for combo in itertools.combinations(range(len(words)), k):
            sts.append({"words": [words[i] for i in combo], "cplx": sum(combo) % 2 == 1})
    return sts if tier != "quick" else sts[::2]


@contract("C17", "O5.translate_operator.round_trip", targets=[(TQ, "translate_operator"), (TCQ, "translate_op_to_cirq"), (TCQ, "translate_op_from_cirq")], level="S", structures=o5_structures)
def o5(h, st):
    """tangelo -> cirq -> tangelo and tangelo -> openfermion -> tangelo return the same terms; the source operator is unchanged; unsupported formats raise"""
    from tangelo.toolboxes.operators import QubitOperator
    q = QubitOperator()
    for j, w in enumerate(st["words"]):
        q += QubitOperator(w, (0.5 + j) * (1j if (st["cplx"] and j == 0) else 1.0))
    before = snapshot(dict(q.terms))
    c = h.call(TQ, "translate_operator", q, "tangelo", "cirq")
    back = h.call(TQ, "translate_operator", c, "cirq", "tangelo")
    h.check("source unchanged", snapshot(dict(q.terms)) == before)
    keys = set(q.terms) | set(back.terms)
    h.check("same terms after the cirq round trip", all(abs(q.terms.get(k, 0) - back.terms.get(k, 0)) < 1e-12 for k in keys), detail=f"{dict(back.terms)} vs {dict(q.terms)}")
    of = q.to_openfermion()
    back2 = QubitOperator.from_openfermion(of)
    h.check("same terms after the openfermion round trip", dict(back2.terms) == dict(q.terms) and back2.terms is not of.terms)
    e = h.raises(lambda: h.call(TQ, "translate_operator", q, "tangelo", "nonsense"), NotImplementedError)
    h.check("unsupported target raises NotImplementedError", e is not None)
    h.done()


# ---------------------------------------------------------------------------------------------------------------------
# P1  IonQ JSON round trip for circuits of ANY length and ANY placement (loop cuts of writer and reader, symbolic qubit indices)

from tverif.engine import GhostList, Opaque, stub
from tverif.interp import GhostIterable, GSeq

CIRC = "tangelo/linq/circuit.py"


class _AccLoop(GhostIterable):
    """invariant protocol of a loop that only appends to one local list: that list is the loop-carried state (opaque prefix + what the generic iteration appends)"""

    def __init__(self, h, var, elem):
        self.h, self.var, self.elem = h, var, elem
        self.managed = (var,)
        self.iterations = 0

    def element(self):
        self.iterations += 1
        return self.elem

    def init(self, interp, env):
        self.h.check(f"on loop entry: {self.var} is an empty list", env.lookup(self.var) == [])

    def havoc(self, interp, env):
        self.acc = GhostList(self.var)
        env.assign(self.var, self.acc)

    def step(self, interp, env, broke):
        self.h.check("the loop does not stop early", not broke)
        self.h.shape(f"{self.var} not rebound (prefix kept)", env.lookup(self.var) is self.acc)


def p1_structures(tier):
    sts = []
    for name in IONQ:
        nt = 2 if name in TWO_TARGET else 1
        for nc in ((1, 2) if name.startswith("C") else (0,)):
            sts.append({"name": name, "nt": nt, "nc": nc})
    return sts


@contract("C17", "P1.ionq.round_trip.any_length", targets=[(TI, "translate_c_to_json_ionq"), (TI, "translate_c_from_json_ionq")], level="P", structures=p1_structures)
def p1(h, st):
    """for a circuit of ANY length and a generic gate of it (every kind the format supports, SYMBOLIC qubit indices - any placement -, any number of controls listed, every
    parameter value): one generic iteration of the writer appends exactly one JSON entry to an arbitrary prefix and leaves the gate untouched; one generic iteration of the
    reader on THAT entry appends exactly one gate that equals the source gate field by field (name up to CNOT = CX); the writer records the source's width under 'qubits' and
    the reader builds Circuit(n_qubits=that width) + Circuit(gates) (constructor / + under contracts C11.P4 / P6). By induction on the two loops the round trip reproduces the
    gate list and the width of every circuit"""
    if not h.symbolic:
        h.check("native: covered by O1", True)
        h.done()
        return
    from tangelo.linq import Gate, Circuit
    name, nt, nc = st["name"], st["nt"], st["nc"]
    qs = [h.integer(f"q{i}") for i in range(nt + nc)]
    for q in qs:
        h.assume(q >= 0)
    for a, b in itertools.combinations(qs, 2):
        h.assume(a != b)
    theta = h.real("theta") if name in PARAM else ""
    g = Gate.__new__(Gate)
    g.__dict__ = {"name": name, "target": list(qs[:nt]), "control": (list(qs[nt:]) if nc else None), "parameter": theta, "is_variational": False}
    gb = snapshot(g.__dict__)
    # writer
    wl = _AccLoop(h, "json_gates", g)
    w = h.integer("w")
    src = Circuit.__new__(Circuit)
    src.__dict__ = {"_gates": wl}
    stub(h, CIRC, "Circuit.width", lambda a, k: w)
    js = h.call(TI, "translate_c_to_json_ionq", src)
    h.shape("writer: loop body entered once for the generic gate", wl.iterations == 1)
    h.check("writer: source gate unchanged", snapshot(g.__dict__) == gb)
    h.check("writer: exactly one entry appended per gate", len(wl.acc.appended) == 1 and isinstance(wl.acc.appended[0], dict))
    h.check("writer: the entries and the source's width are returned", isinstance(js, dict) and js.get("circuit") is wl.acc and js.get("qubits") is w)
    entry = wl.acc.appended[0]
    # reader on the entry the writer produced
    rl = _AccLoop(h, "gates", entry)
    eb = snapshot(entry)
    log_init, log_add = [], []
    stub(h, CIRC, "Circuit.__init__", lambda a, k: None, log=log_init)
    stub(h, CIRC, "Circuit.__add__", lambda a, k: Opaque("sum", of=(a[0], a[1])), log=log_add)
    out = h.call(TI, "translate_c_from_json_ionq", {"qubits": w, "circuit": rl})
    h.shape("reader: loop body entered once for the generic entry", rl.iterations == 1)
    h.check("reader: JSON entry unchanged", snapshot(entry) == eb)
    h.check("reader: exactly one gate appended per entry", len(rl.acc.appended) == 1 and isinstance(rl.acc.appended[0], Gate))
    g2 = rl.acc.appended[0]
    h.check("round trip: same name (CNOT == CX)", g2.name == name or {g2.name, name} == {"CNOT", "CX"})
    h.check("round trip: same number of targets / controls", len(g2.target) == nt and ((g2.control is None) if nc == 0 else (g2.control is not None and len(g2.control) == nc)))
    if len(g2.target) == nt and (nc == 0 or (g2.control is not None and len(g2.control) == nc)):
        for i, q in enumerate(qs):
            h.check_close(f"round trip: qubit {i} in place", g2.target[i] if i < nt else g2.control[i - nt], q)
    if name in PARAM:
        h.check_close("round trip: same parameter", g2.parameter, theta)
    else:
        h.check("round trip: no parameter", g2.parameter in ("", None))
    # width: Circuit(n_qubits=w) + Circuit(gates)
    h.shape("reader: result is Circuit(n_qubits=recorded width) + Circuit(gates)", len(log_add) == 1 and len(log_init) == 2 and isinstance(out, Opaque))
    if len(log_init) == 2 and len(log_add) == 1:
        ia, ib = log_init
        first = ia if ia[0][0] is log_add[0][0][0] else ib
        second = ib if first is ia else ia
        h.check("reader: left operand constructed with the recorded width and no gates", first[1].get("n_qubits", first[0][2] if len(first[0]) > 2 else None) is w and len(first[0]) == 1)
        h.check("reader: right operand constructed from the accumulated gates", (second[0][1] if len(second[0]) > 1 else second[1].get("gates")) is rl.acc and second[0][0] is log_add[0][0][1])
    h.done()


from tverif.engine import repeatable
repeatable((TI, "translate_c_to_json_ionq"), (TI, "translate_c_from_json_ionq"), (TP, "translate_c_to_projectq"), (TP, "translate_c_from_projectq"), (TCQ, "translate_op_to_cirq"),
           (TCQ, "translate_op_from_cirq"))

PROPERTY = {
    "level": "other",
    "explanation": "IonQ JSON: round trip proved per gate kind for every parameter value (symbolic parameter, dictionaries are within the verifier's subset). ProjectQ command "
                   "text, repr/eval and operator conversion go through regular expressions, string formatting, eval and cirq objects, which the SMT back ends do not "
                   "decide: they are executed from the AST on an enumerated set of concrete circuits (bounded). Unbounded: the IonQ writer and reader loops for circuits of ANY length with symbolic qubit indices (P1): the reader applied to the writer's entry for a generic gate gives the gate back.",
    "bounds": {"quick": "IonQ: 20 gate kinds x 2 placements x 1-2 controls x fixed width or not; ProjectQ: 11 gate kinds x indices {0,1,7,12} x 5 parameter values x widths with idle top qubits; repr: 10 names x 8 parameter kinds",
               "thorough": "same, all repr combinations"},
    "assumptions": ["OpenQASM / qiskit / braket / projectq operator formats: packages absent in this sandbox - not checked", "text formats: bounded enumeration only"],
    "trusted_base": ["tverif AST interpreter", "python re / eval", "cirq", "openfermion"],
}
