"""C11 -- Circuit metadata stays consistent under any operation history."""
import itertools
from collections import Counter

from tverif.engine import contract, snapshot
from tverif import qsem

G = "tangelo/linq/gate.py"
C = "tangelo/linq/circuit.py"
TC = "tangelo/linq/translator/translate_cirq.py"
TS = "tangelo/linq/translator/translate_sympy.py"
TI = "tangelo/linq/translator/translate_json_ionq.py"
TT = "tangelo/linq/translator/translate_circuit.py"

ONE_TARGET = {"H", "X", "Y", "Z", "S", "T", "RX", "RY", "RZ", "PHASE", "CNOT", "CX", "CY", "CZ", "CRX", "CRY", "CRZ", "CPHASE"}
TWO_TARGET = {"XX", "SWAP", "CSWAP"}


def mk_gate(name, target, control=None, parameter="", is_variational=False):
    from tangelo.linq import Gate
    return Gate(name, target, control, parameter, is_variational)


def mk_circuit(gates, n_qubits=None):
    from tangelo.linq import Circuit
    return Circuit(gates, n_qubits=n_qubits)


# ---------------------------------------------------------------------------------------------------------------------
# O1  Gate.__init__ : accepted iff well-formed  (symbolic integer indices: all values)

def o1_structures(tier):
    names = ["H", "RZ", "CNOT", "CRZ", "SWAP", "XX", "CSWAP", "POTATO", "CPOTATO", "MEASURE", "cnot", "x"]
    sts = []
    for name in names:
        for nt in (1, 2, 3):
            for nc in (0, 1, 2):
                if nt + nc <= 4:
                    sts.append({"name": name, "nt": nt, "nc": nc})
    return sts


@contract("C11", "O1.Gate.__init__", targets=[(G, "Gate.__init__")], level="P", structures=o1_structures, max_paths=3000,
          native_samples=lambda st, rnd, tier: [{f"q{i}": rnd.choice([-1, 0, 1, 2, 2, 3]) for i in range(st["nt"] + st["nc"])} for _ in range(6)])
def o1(h, st):
    """returns normally iff every index is >= 0, target+control indices are pairwise distinct, control only for names starting with C,
    and the number of targets fits the name; then the fields are (upper-cased name, fresh lists, parameter, flag); else ValueError.
    Proved for ALL integer index values (symbolic); arities up to 3 targets / 2 controls."""
    name, nt, nc = st["name"], st["nt"], st["nc"]
    qs = [h.integer(f"q{i}") for i in range(nt + nc)]
    target, control = qs[:nt], (qs[nt:] if nc else None)
    tl, cl = list(target), (list(control) if control is not None else None)
    box = {}

    def run():
        box["g"] = h.call(G, "Gate", name, tl if nt > 1 else tl[0], cl, 0.5, True)
    e = h.raises(run, ValueError, TypeError)
    up = name.upper()
    nonneg = True
    for q in qs:
        nonneg = nonneg & (q >= 0) if h.symbolic else (nonneg and q >= 0)
    distinct = True
    for a, b in itertools.combinations(qs, 2):
        distinct = distinct & (a != b) if h.symbolic else (distinct and a != b)
    ctrl_ok = (nc == 0) or up[0] == "C"
    n_expected = 1 if up in ONE_TARGET else (2 if up in TWO_TARGET else nt)
    arity_ok = nt == n_expected
    static_ok = ctrl_ok and arity_ok
    if e is None:
        g = box["g"]
        h.check("accepted only if well-formed: static conditions", static_ok)
        h.check("accepted only if indices are non-negative", nonneg)
        h.check("accepted only if indices are pairwise distinct", distinct)
        h.check("name upper-cased", g.name == up)
        h.check("fields stored", len(g.target) == nt and (g.control is None) == (nc == 0) and g.is_variational is True)
        h.check("target list is a fresh list", g.target is not tl)
    else:
        well = (nonneg & distinct) if h.symbolic else (nonneg and distinct)
        if static_ok:
            h.check("rejected only if ill-formed", ~well if h.symbolic and not isinstance(well, bool) else (not well))
        h.check("rejection is a ValueError", isinstance(e, ValueError))
    h.done()


@contract("C11", "O1b.Gate.__init__.types", targets=[(G, "Gate.__init__")], level="S",
          structures=lambda tier: [{"case": c} for c in ("float", "str", "bool", "npint", "nparray", "name_not_str", "tuple")])
def o1b(h, st):
    """non-integer indices and non-string names are rejected; numpy arrays / tuples of ints are accepted as lists"""
    import numpy as np
    c = st["case"]
    if c == "float":
        e = h.raises(lambda: h.call(G, "Gate", "H", 1.0), ValueError)
        h.check("float index rejected", e is not None)
    elif c == "str":
        e = h.raises(lambda: h.call(G, "Gate", "H", "1"), ValueError)
        h.check("str index rejected", e is not None)
    elif c == "bool":
        e = h.raises(lambda: h.call(G, "Gate", "H", True), ValueError)
        h.check("bool index rejected", e is not None)
    elif c == "npint":
        e = h.raises(lambda: h.call(G, "Gate", "H", np.int64(1)), ValueError)
        h.check("numpy scalar index rejected (type must be int)", e is not None)
    elif c == "nparray":
        g = h.call(G, "Gate", "CNOT", np.array([1]), np.array([0, 2]))
        h.check("numpy arrays converted to lists of int", g.target == [1] and g.control == [0, 2] and type(g.target[0]) is int)
    elif c == "name_not_str":
        e = h.raises(lambda: h.call(G, "Gate", 5, 1), TypeError)
        h.check("non-string name rejected with TypeError", e is not None)
    elif c == "tuple":
        g = h.call(G, "Gate", "SWAP", (0, 3))
        h.check("tuple converted to list", g.target == [0, 3])
    h.done()


# ---------------------------------------------------------------------------------------------------------------------
# representation invariant, recomputed from the gate list

def gq(g):
    return list(g.target) + (list(g.control) if g.control is not None else [])


def expected_depth(gates):
    last = {}
    depth = 0
    for g in gates:
        lvl = 1 + max([last.get(q, 0) for q in gq(g)])
        for q in gq(g):
            last[q] = lvl
        depth = max(depth, lvl)
    return depth


def wf_violations(h, c, strong=True, width=None):
    """list of (what, reported, recomputed) discrepancies between the reported metadata and the gate list"""
    bad = []
    gates = c._gates
    cnt = dict(Counter(g.name for g in gates))
    ncnt = dict(Counter(len(gq(g)) for g in gates))
    if dict(h.getattr(c, "counts")) != cnt:
        bad.append(("counts", dict(h.getattr(c, "counts")), cnt))
    if dict(h.getattr(c, "counts_n_qubit")) != ncnt:
        bad.append(("counts_n_qubit", dict(h.getattr(c, "counts_n_qubit")), ncnt))
    if h.getattr(c, "size") != len(gates):
        bad.append(("size", h.getattr(c, "size"), len(gates)))
    var = [g for g in gates if g.is_variational]
    if h.getattr(c, "is_variational") != bool(var):
        bad.append(("is_variational", h.getattr(c, "is_variational"), bool(var)))
    if len(c._variational_gates) != len(var) or any(a is not b for a, b in zip(c._variational_gates, var)):
        bad.append(("_variational_gates are the variational gates of the gate list (same objects, same order)", len(c._variational_gates), len(var)))
    mixed = any(g.name in ("MEASURE", "CMEASURE") for g in gates)
    if h.getattr(c, "is_mixed_state") != mixed:
        bad.append(("is_mixed_state", h.getattr(c, "is_mixed_state"), mixed))
    used = {q for g in gates for q in gq(g)}
    nfix = c._qubits_simulated or 0
    w = h.getattr(c, "width")
    if width is not None:
        ew = width
    else:
        ew = max([q + 1 for q in used] + [nfix])
    if strong and w != ew:
        bad.append(("width", w, ew))
    if not strong and w < max([q + 1 for q in used] + [0]):
        bad.append(("width covers the used qubits", w, max([q + 1 for q in used] + [0])))
    if nfix and used and max(used) >= nfix and width is None:
        bad.append(("indices below the fixed width", max(used), nfix))
    d = h.call(C, "Circuit.depth", c)
    if d != expected_depth(gates):
        bad.append(("depth", d, expected_depth(gates)))
    for g in gates:
        qs = gq(g)
        if len(set(qs)) != len(qs) or any(type(q) is not int or q < 0 for q in qs):
            bad.append(("gate well-formed", repr(g), ""))
    if len({id(g) for g in gates}) != len(gates):
        bad.append(("gate objects pairwise distinct", "", ""))
    return bad


def check_wf(h, label, c, **kw):
    bad = wf_violations(h, c, **kw)
    h.check(f"{label}: reported metadata == recomputed from the gate list", not bad, detail=str(bad[:3]))


def containers(c):
    """the mutable containers a circuit owns"""
    out = [c._gates, c._variational_gates, c._qubit_indices, c._gate_counts, c._n_qubit_gate_counts]
    for g in c._gates:
        out += [g, g.target] + ([g.control] if g.control is not None else [])
    return out


def shares_state(a, b):
    ida = {id(x) for x in containers(a)}
    return any(id(x) in ida for x in containers(b))


def observable(h, c):
    return snapshot({k: v for k, v in c.__dict__.items() if k not in ("_probabilities", "_applied_gates")})


# base circuits -------------------------------------------------------------------------------------------------------

def base_gates():
    return [
        ("H", [0], None, "", False), ("RZ", [1], None, 0.3, True), ("CNOT", [1], [0], "", False), ("CNOT", [2], [0, 1], "", False),
        ("RX", [2], None, "alpha", False), ("SWAP", [0, 2], None, "", False), ("CRZ", [0], [2], 2.5, True), ("MEASURE", [1], None, "", False),
        ("X", [3], None, "", False), ("PHASE", [0], None, -0.3, False),
        # same-kind rotations on the same qubits whose variational flags DIFFER (a merge of the two has to carry the flag into every list)
        ("RZ", [1], None, 0.4, False), ("PHASE", [0], None, 0.2, True), ("CRZ", [0], [2], -0.5, False),
    ]


def circuits(tier):
    bg = list(range(len(base_gates())))
    out = [[]]
    out += [[a] for a in bg]
    pairs = list(itertools.product(bg, repeat=2))
    out += [list(p) for p in (pairs[::3] if tier == "quick" else pairs)]
    triples = list(itertools.product([0, 1, 2, 3, 6, 7], repeat=3))
    out += [list(t) for t in (triples[::11] if tier == "quick" else triples[::2])]
    out += [list(p) for p in ((10, 1), (1, 10), (9, 11), (11, 9), (12, 6), (6, 12), (10, 1, 10), (1, 10, 1), (12, 6, 6))]     # kept in every tier
    return out


def build(idxs):
    bg = base_gates()
    return [mk_gate(*bg[i]) for i in idxs]


def fits(idxs, n):
    return n is None or all(max(base_gates()[i][1] + (base_gates()[i][2] or [])) < n for i in idxs)


# O2  construction / add_gate ----------------------------------------------------------------------------------------

def o2_structures(tier):
    sts = []
    for g in circuits(tier):
        for n in (None, 3, 4, 6):
            sts.append({"gates": g, "n": n})
    return sts


@contract("C11", "O2.Circuit.__init__.add_gate", targets=[(C, "Circuit.__init__"), (C, "Circuit.add_gate"), (C, "Circuit.depth"), (C, "Circuit.width")],
          level="S", structures=o2_structures)
def o2(h, st):
    """Circuit(gates, n): WF established; every stored gate is a fresh copy; if a gate index >= n the constructor raises ValueError.
    add_gate on the result: same, and a rejected gate leaves every observable of the circuit unchanged (exception safety)."""
    gates = build(st["gates"])
    n = st["n"]
    box = {}
    e = h.raises(lambda: box.setdefault("c", h.call(C, "Circuit", gates, n)), ValueError)
    if not fits(st["gates"], n):
        h.check("out-of-range index rejected", e is not None)
        h.done()
        return
    h.check("accepted", e is None)
    c = box["c"]
    check_wf(h, "after construction", c)
    h.check("stored gates are copies", all(a is not b for a, b in zip(c._gates, gates)) and all(a.target is not b.target for a, b in zip(c._gates, gates)))
    h.check("gate list equals the argument", snapshot([g.__dict__ for g in c._gates]) == snapshot([g.__dict__ for g in gates]))
    # add a valid gate
    g_ok = mk_gate("RY", 0, None, 0.7, True)
    before_g = snapshot(g_ok.__dict__)
    h.call(C, "Circuit.add_gate", c, g_ok)
    check_wf(h, "after add_gate", c)
    h.check("argument gate unchanged and not aliased", snapshot(g_ok.__dict__) == before_g and c._gates[-1] is not g_ok)
    # add an out-of-range gate to a fixed-width circuit
    if n:
        obs = observable(h, c)
        bad = mk_gate("CNOT", n + 1, 0, "", False)
        e2 = h.raises(lambda: h.call(C, "Circuit.add_gate", c, bad), ValueError)
        h.check("gate beyond the fixed width rejected", e2 is not None)
        h.check("rejected gate leaves the circuit unchanged", observable(h, c) == obs)
        check_wf(h, "after rejected add_gate", c)
        badv = mk_gate("RZ", n, None, 0.1, True)
        e3 = h.raises(lambda: h.call(C, "Circuit.add_gate", c, badv), ValueError)
        h.check("variational gate beyond the fixed width rejected", e3 is not None)
        h.check("rejected variational gate leaves the circuit unchanged", observable(h, c) == obs)
    h.done()


# O3..O6  one- and two-step histories ---------------------------------------------------------------------------------

OPS = ["add_gate", "add", "mul", "rmul", "copy", "inverse", "trim_qubits", "reindex_qubits", "split", "stack", "remove_small_rotations",
       "remove_redundant_gates", "merge_rotations", "simplify", "fn_remove_small_rotations", "fn_remove_redundant_gates", "fn_merge_rotations",
       "fn_simplify", "depth", "to_cirq", "to_sympy", "to_ionq"]


def numeric_only(c):
    return all(not isinstance(g.parameter, str) or g.parameter == "" for g in c._gates)


def apply_op(h, op, c):
    """apply op; returns (list of result circuits to check [(circ, kwargs)], reads_only: circuits that must stay unchanged, applicable)"""
    other = mk_circuit([mk_gate("H", 1), mk_gate("RX", 4, None, 1.1, True)])
    if op == "add_gate":
        g = mk_gate("CRY", 1, 0, 0.25, True)
        if c._qubits_simulated and c._qubits_simulated <= 1:
            obs = observable(h, c)
            e = h.raises(lambda: h.call(C, "Circuit.add_gate", c, g), ValueError)
            h.check("add_gate beyond the fixed width is rejected and leaves the circuit unchanged", e is not None and observable(h, c) == obs)
            return [(c, {})], [], True
        h.call(C, "Circuit.add_gate", c, g)
        return [(c, {})], [], True
    if op == "add":
        r = h.call(C, "Circuit.__add__", c, other)
        return [(r, {})], [c, other], True
    if op == "mul":
        r = h.call(C, "Circuit.__mul__", c, 2)
        return [(r, {})], [c], True
    if op == "rmul":
        r = h.call(C, "Circuit.__rmul__", c, 3)
        return [(r, {})], [c], True
    if op == "copy":
        r = h.call(C, "Circuit.copy", c)
        return [(r, {})], [c], True
    if op == "inverse":
        if any(g.name in ("MEASURE",) or isinstance(g.parameter, str) and g.parameter != "" for g in c._gates):
            return [], [], False
        r = h.call(C, "Circuit.inverse", c)
        return [(r, {})], [c], True
    if op == "trim_qubits":
        used = {q for g in c._gates for q in gq(g)}
        h.call(C, "Circuit.trim_qubits", c)
        return [(c, {"width": len(used)})], [], True
    if op == "reindex_qubits":
        w = h.getattr(c, "width")
        new = [w - 1 - i + 2 for i in range(len(c._qubit_indices))]
        h.call(C, "Circuit.reindex_qubits", c, new)
        return [(c, {"width": (max(new) + 1) if new else 0})], [], True
    if op == "split":
        rs = h.call(C, "Circuit.split", c)
        return [(r, {}) for r in rs], [c], True
    if op == "stack":
        r = h.call(C, "Circuit.stack", c, other)
        return [(r, {"strong": False})], [c, other], True
    if op in ("remove_small_rotations", "remove_redundant_gates", "merge_rotations", "simplify"):
        if not numeric_only(c) or (op != "remove_small_rotations" and any(g.name == "MEASURE" for g in c._gates)):
            return [], [], False
        h.call(C, f"Circuit.{op}", c)
        return [(c, {"strong": op != "merge_rotations"})], [], True
    if op.startswith("fn_"):
        if not numeric_only(c) or (op != "fn_remove_small_rotations" and any(g.name == "MEASURE" for g in c._gates)):
            return [], [], False
        r = h.call(C, op[3:], c)
        return [(r, {"strong": op != "fn_merge_rotations"})], [c], True
    if op == "depth":
        h.call(C, "Circuit.depth", c)
        return [], [c], True
    if op == "to_cirq":
        if not numeric_only(c):
            return [], [], False
        h.call(TC, "translate_c_to_cirq", c)
        return [], [c], True
    if op == "to_sympy":
        if any(g.name in ("MEASURE",) or (g.control is not None and len(g.control) > 1) for g in c._gates):
            return [], [], False
        h.call(TS, "translate_c_to_sympy", c)
        return [], [c], True
    if op == "to_ionq":
        if any(g.name in ("MEASURE", "CRZ", "PHASE") or isinstance(g.parameter, str) and g.parameter != "" or (g.control is not None and len(g.control) > 1) for g in c._gates):
            return [], [], False
        h.call(TI, "translate_c_to_json_ionq", c)
        return [], [c], True
    raise ValueError(op)


def hist_structures(tier):
    sts = []
    circs = circuits(tier)
    for ci, g in enumerate(circs):
        for n in (None, 5):
            for op in OPS:
                sts.append({"gates": g, "n": n, "ops": [op]})
    # two-step histories on a thinner set of circuits
    thin = circs[:: 9 if tier == "quick" else 3]
    for g in thin:
        for n in (None, 5):
            for op1, op2 in itertools.product(OPS, repeat=2):
                if op1 in ("depth", "to_cirq", "to_sympy", "to_ionq", "copy") and op2 in ("depth", "copy"):
                    continue
                sts.append({"gates": g, "n": n, "ops": [op1, op2]})
    if tier == "quick":
        sts = sts[::2]
    return sts


@contract("C11", "O3.histories", level="S", structures=hist_structures,
          targets=[(C, "Circuit.add_gate"), (C, "Circuit.__add__"), (C, "Circuit.__mul__"), (C, "Circuit.copy"), (C, "Circuit.inverse"), (C, "Circuit.trim_qubits"),
                   (C, "Circuit.reindex_qubits"), (C, "Circuit.split"), (C, "stack"), (C, "remove_small_rotations"), (C, "remove_redundant_gates"),
                   (C, "merge_rotations"), (C, "simplify"), (C, "Circuit.depth"), (TC, "translate_c_to_cirq"), (TS, "translate_c_to_sympy"),
                   (TI, "translate_c_to_json_ionq")])
def o3(h, st):
    """after every operation of the history: every circuit produced or modified reports metadata equal to the values recomputed from
    its gate list (WF); every circuit an operation only reads is left unchanged (frame)"""
    c = mk_circuit(build(st["gates"]), st["n"])
    population = [(c, {})]      # every circuit seen so far stays under the invariant: later operations on OTHER circuits must not disturb it
    for k, op in enumerate(st["ops"]):
        frames_before = None
        snap_c = observable(h, c)
        others_before = [(x, observable(h, x)) for x, _ in population if x is not c]
        results, reads, ok = apply_op(h, op, c)
        if not ok:
            break
        for r, kw in results:
            check_wf(h, f"step {k} ({op}) result", r, **kw)
            for x, _ in population:
                if x is not r:
                    h.check(f"step {k} ({op}): the result shares no mutable state (lists, sets, dicts, gates) with another circuit", not shares_state(x, r))
            if all(r is not x for x, _ in population):
                population.append((r, kw))
        for x, snap in others_before:
            h.check(f"step {k} ({op}): circuits not involved are unchanged", observable(h, x) == snap)
        for x, kw in population:
            if x is not c or not results or results[0][0] is c:
                pass
            if not (op in ("trim_qubits", "reindex_qubits") and x is c):
                check_wf(h, f"step {k} ({op}) every circuit alive", x, **(kw if x is not c else (results[0][1] if results and results[0][0] is c else kw)))
        for i, r in enumerate(reads):
            if r is c:
                h.check(f"step {k} ({op}) leaves the circuit it reads unchanged", observable(h, c) == snap_c)
        # carry on with the (first) result, or with c itself for read-only operations
        if results and results[0][0] is not c:
            nxt = results[0][0]
            if op in ("trim_qubits", "reindex_qubits"):
                break
            c = nxt
        elif results and op in ("trim_qubits", "reindex_qubits", "merge_rotations"):
            break
    h.done()


# O10 simulate leaves the circuit unchanged -----------------------------------------------------------------------------

BK = "tangelo/linq/target/backend.py"


@contract("C11", "O10.simulate.frame", level="S",
          structures=lambda tier: [{"gates": g, "backend": b} for g in circuits(tier)[1:: 4 if tier == "quick" else 2] for b in ("cirq", "sympy")],
          targets=[(BK, "Backend.simulate"), ("tangelo/linq/target/target_cirq.py", "CirqSimulator.simulate_circuit"),
                   ("tangelo/linq/target/target_sympy.py", "SympySimulator.simulate_circuit")])
def o10(h, st):
    """simulating a circuit (exact mode) leaves its gate list and metadata unchanged"""
    gates = build(st["gates"])
    if st["backend"] == "sympy" and any(g.name == "MEASURE" or (g.control and len(g.control) > 1) for g in gates):
        h.done()
        h.check("not applicable", True)
        return
    if st["backend"] == "cirq" and any(isinstance(g.parameter, str) and g.parameter for g in gates):
        h.check("not applicable", True)
        h.done()
        return
    c = mk_circuit(gates)
    obs = observable(h, c)
    from tangelo.linq import get_backend
    sim = get_backend(st["backend"])
    if any(g.name == "MEASURE" for g in gates):
        h.call(BK, "Backend.simulate", sim, c, False, None, "0" * sum(1 for g in gates if g.name == "MEASURE"))
    else:
        h.call(BK, "Backend.simulate", sim, c)
    h.check("circuit unchanged by simulate", observable(h, c) == obs)
    check_wf(h, "after simulate", c)
    h.done()


PROPERTY = {
    "level": "proof",
    "explanation": "Representation invariant WF (reported width/size/counts/arity counts/variational and mixed flags/depth == values recomputed from "
                   "the gate list; gates well-formed and unshared) is established by the constructor and re-established by every operation, and "
                   "read-only operations have an empty frame. Gate.__init__ is proved for ALL integer index values (symbolic indices, z3). The "
                   "operations are executed from their real AST on every enumerated small circuit and every 1- and 2-step history over 22 "
                   "operations; the induction over longer histories is the standard invariant argument. Unbounded: add_gate on ANY circuit (P2, ghost containers), the constructor as fold of add_gate over ANY gate list (P4), copy / + / * for any lengths and every integer factor (P5-P7, ghost sequences, the constructor as callee contract).",
    "bounds": {"quick": "base circuits of <= 3 gates over 10 gate kinds (controlled, multi-controlled, variational, string parameter, MEASURE), fixed width none/3/4/5/6; histories of length 1-2",
               "thorough": "all pairs, more triples"},
    "assumptions": ["cirq / sympy constructors executed natively (assumed not to mutate Tangelo objects)",
                    "invariant induction over histories longer than 2 not machine-checked",
                    "after trim_qubits / reindex_qubits the width is the number of used qubits / max(new index)+1 (documented purpose) even for fixed-width circuits"],
    "trusted_base": ["tverif AST interpreter", "z3"],
}


# ---------------------------------------------------------------------------------------------------------------------
# P2  add_gate on an ARBITRARY circuit (opaque gate list / counts / index set of any size)

def p2_structures(tier):
    sts = []
    for name in ("H", "RZ", "CNOT", "CRZ", "SWAP", "CSWAP", "MEASURE", "POTATO", "CPOTATO"):
        up = name.upper()
        nts = (2,) if up in TWO_TARGET else ((1,) if up in ONE_TARGET else (1, 2))
        for nt in nts:
            for nc in ((0,) if not up.startswith("C") else (1, 2)):
                for fixed in ("none", "sym"):
                    for var in (False, True):
                        sts.append({"name": name, "nt": nt, "nc": nc, "fixed": fixed, "var": var})
    return sts


@contract("C11", "P2.add_gate.any_circuit", targets=[(C, "Circuit.add_gate"), (G, "Gate.__init__")], level="P", structures=p2_structures, max_paths=3000,
          native_samples=lambda st, rnd, tier: [{**{f"q{i}": rnd.choice([0, 1, 2, 3, 5, 5]) for i in range(st["nt"] + st["nc"])}, "N": rnd.choice([1, 3, 6])} for _ in range(4)])
def p2(h, st):
    """for a circuit whose gate list, counts, arity counts and qubit-index set are ARBITRARY (opaque, any size) and a gate with symbolic integer qubit indices:
    add_gate either (normal return, iff the gate is well-formed and every index < n_qubits when that is set) appends exactly one fresh field-wise copy of the gate,
    appends that same object to the variational gates iff the gate is variational, adds exactly the gate's qubits to the index set, increments counts[NAME] and
    arity_counts[#qubits] by one and touches nothing else; or (ValueError) leaves EVERY container untouched. With count(old ++ [g]) = count(old) + [name = g.name]
    this is preservation of the representation invariant for circuits of any length, and exception safety"""
    from tangelo.linq import Gate, Circuit
    from tverif.engine import GhostList, GhostSet, GhostDict
    name, nt, nc = st["name"], st["nt"], st["nc"]
    qs = [h.integer(f"q{i}") for i in range(nt + nc)]
    g = Gate.__new__(Gate)
    g.__dict__ = {"name": name, "target": list(qs[:nt]), "control": (list(qs[nt:]) if nc else None), "parameter": 0.5, "is_variational": st["var"]}
    g_before = snapshot(g.__dict__)
    c = Circuit.__new__(Circuit)
    N = h.integer("N") if st["fixed"] == "sym" else None
    if N is not None:
        h.assume(N >= 0)
    gates, vgates = GhostList("_gates"), GhostList("_variational_gates")
    qidx, cnt, acnt = GhostSet("_qubit_indices"), GhostDict("counts", h.ctx), GhostDict("arity_counts", h.ctx)
    other = {"name": "circ", "_probabilities": {}, "_cmeasure_control": None, "_applied_gates": []}
    c.__dict__ = {"_gates": gates, "_variational_gates": vgates, "_qubit_indices": qidx, "_gate_counts": cnt, "_n_qubit_gate_counts": acnt, "_qubits_simulated": N, **other}
    e = h.raises(lambda: h.call(C, "Circuit.add_gate", c, g), ValueError)
    h.check("argument gate unchanged", snapshot(g.__dict__) == g_before)
    h.check("no field rebound", c.__dict__["_gates"] is gates and c.__dict__["_variational_gates"] is vgates and c.__dict__["_qubit_indices"] is qidx
            and c.__dict__["_gate_counts"] is cnt and c.__dict__["_n_qubit_gate_counts"] is acnt and all(c.__dict__[k] is v or c.__dict__[k] == v for k, v in other.items()))
    wf = True
    for q in qs:
        wf = wf & (q >= 0) if h.symbolic else (wf and q >= 0)
    for a, b in itertools.combinations(qs, 2):
        wf = wf & (a != b) if h.symbolic else (wf and a != b)
    in_range = True
    if N is not None:
        for q in qs:
            in_range = in_range & ((N == 0) | (q < N)) if h.symbolic else (in_range and (N == 0 or q < N))
    if e is not None:
        ok = (wf & in_range) if h.symbolic else (wf and in_range)
        h.check("rejected only if ill-formed or out of range", (~ok) if h.symbolic and not isinstance(ok, bool) else (not ok))
        h.check("exception safety: gate list untouched", gates.appended == [] and vgates.appended == [])
        h.check("exception safety: index set untouched", qidx.added == [])
        h.check("exception safety: counts untouched", cnt.written == {} and acnt.written == {})
        h.done()
        return
    h.check("accepted only if well-formed", wf)
    h.check("accepted only if every index is below the fixed width", in_range)
    h.check("exactly one gate appended", len(gates.appended) == 1)
    ng = gates.appended[0]
    h.check("the appended gate is a fresh copy", ng is not g and ng.target is not g.target and (ng.control is None or ng.control is not g.control))
    h.check("field-wise equal to the argument (name upper-cased)", ng.name == name.upper() and len(ng.target) == nt and (ng.control is None) == (nc == 0)
            and ng.parameter == 0.5 and ng.is_variational == st["var"])
    for i, q in enumerate(qs):
        got = ng.target[i] if i < nt else ng.control[i - nt]
        h.check_close(f"qubit {i} of the copy", got, q)
    h.check("variational list: the same object appended iff variational", (vgates.appended == [ng] and vgates.appended[0] is ng) if st["var"] else vgates.appended == [])
    h.check("index set: exactly the gate's qubits added", len(qidx.added) == nt + nc)
    for i, q in enumerate(qs):
        h.check_close(f"index {i} added", qidx.added[i], q)
    h.check("counts: exactly the entry of the gate's name written", set(cnt.written) == {name.upper()})
    h.check_close("counts[name] == old + 1", cnt.written.get(name.upper(), 0), cnt.old(name.upper()) + 1)
    h.check("arity counts: exactly the entry of the gate's arity written", set(acnt.written) == {nt + nc})
    h.check_close("arity_counts[k] == old + 1", acnt.written.get(nt + nc, 0), acnt.old(nt + nc) + 1)
    h.done()


@contract("C11", "P3.lemma.count_on_append", level="P", structures=lambda tier: [None])
def p3(h, st):
    """spec-level lemma (z3, quantified over all names x and all old count functions): if counts == CN_old pointwise and the call wrote counts[g] := counts.get(g,0)+1
    and nothing else, then counts' == CN_old + [x == g] pointwise, i.e. the invariant 'counts equal the number of gates of each name' is preserved by an append"""
    import z3
    if not h.symbolic:
        h.check("native: n/a", True)
        h.done()
        return
    Name = z3.DeclareSort("Name")
    cnt = z3.Function("cnt", Name, z3.IntSort())
    CN = z3.Function("CN", Name, z3.IntSort())
    g, x = z3.Const("g", Name), z3.Const("x", Name)
    y = z3.Const("y", Name)
    pre = z3.ForAll([y], cnt(y) == CN(y))
    cnt2 = lambda k: z3.If(k == g, cnt(g) + 1, cnt(k))
    CN2 = lambda k: CN(k) + z3.If(k == g, 1, 0)
    s = z3.Solver()
    s.add(pre, cnt2(x) != CN2(x))
    from tverif.sym import SBool
    r = s.check()
    h.check("counts' == CN' at an arbitrary name", r == z3.unsat, detail=str(r))
    h.done()


# ---------------------------------------------------------------------------------------------------------------------
# P4-P7  MODULAR contracts for gate lists of ANY length: constructor, copy, +, *  (ghost sequences, loop cut, callee contracts as stubs)
#
# The chain:  P2 (add_gate preserves WF on any circuit, exception-safe)  +  P4 (Circuit(gates, n) is fold(add_gate) from the well-formed empty circuit)
#             => every constructed circuit is WF, for any gate list.   P5-P7 (copy / + / *) hand the constructor exactly copy(gates) / a ++ b / gates * k
#             and the stated width  => their results are WF and their gate lists are the specified sequences, operands untouched.

from tverif.engine import Opaque, stub
from tverif.interp import GSeq, GhostIterable


def _blank_circuit(**fields):
    from tangelo.linq import Circuit
    c = Circuit.__new__(Circuit)
    c.__dict__ = dict(fields)
    return c


class _InitLoop(GhostIterable):
    """invariant protocol of the constructor's loop over `gates`"""

    def __init__(self, h, n, calls):
        self.h, self.n, self.calls = h, n, calls

    def init(self, interp, env):
        h, me = self.h, env.lookup("self")
        d = me.__dict__
        h.check("before the first gate: empty gate list and variational list (fresh objects)", d["_gates"] == [] and d["_variational_gates"] == [] and d["_gates"] is not d["_variational_gates"])
        h.check("before the first gate: empty counts and arity counts (fresh objects)", d["_gate_counts"] == {} and d["_n_qubit_gate_counts"] == {} and d["_gate_counts"] is not d["_n_qubit_gate_counts"])
        h.check("before the first gate: index set is range(n_qubits) (empty when no width is fixed)", d["_qubit_indices"] == (set(range(self.n)) if self.n else set()))
        h.check("before the first gate: fixed width recorded", d["_qubits_simulated"] == self.n)
        h.check("before the first gate: no add_gate call yet", self.calls == [])
        self.state = snapshot({k: v for k, v in d.items()})
        self.me = me

    def step(self, interp, env, broke):
        h = self.h
        h.shape("one add_gate call per element, on this circuit, with the element itself", len(self.calls) == 1 and self.calls[0][0][0] is self.me
                and self.calls[0][0][1] is self.elem and not self.calls[0][1])
        h.check("the loop body changes the circuit only through add_gate", snapshot(dict(self.me.__dict__)) == self.state)


@contract("C11", "P4.Circuit.__init__.any_gate_list", targets=[(C, "Circuit.__init__")], level="P", structures=lambda tier: [{"n": n} for n in (None, 0, 1, 5)])
def p4(h, st):
    """for a gate list of ANY length (ghost sequence): the constructor first establishes the well-formed empty circuit of the requested width (fresh empty containers,
    index set range(n_qubits)), then calls add_gate exactly once per element, in order, with the element itself, and changes the circuit in no other way; an empty or
    absent list adds nothing. With P2 (add_gate preserves the representation invariant on ANY circuit) this gives WF for every constructed circuit, by induction"""
    if not h.symbolic:
        h.check("native: covered by O2", True)
        h.done()
        return
    from tangelo.linq import Circuit
    calls = []
    stub(h, C, "Circuit.add_gate", lambda a, k: None, log=calls)
    proto = _InitLoop(h, st["n"], calls)
    elem = Opaque("generic gate of the list")
    proto.elem = elem
    gates = GSeq.atom("gates", elem, proto=proto)
    c = Circuit.__new__(Circuit)
    ctrl = {"k": "v"}
    h.call(C, "Circuit.__init__", c, gates, st["n"], "nm", ctrl)
    d = c.__dict__
    h.check("name and classical control stored", d["name"] == "nm" and d["_cmeasure_control"] is ctrl)
    h.check("the gate list argument is not stored in the circuit", all(v is not gates for v in d.values()))
    if gates.iterations == 0:
        h.check("empty list: no add_gate call, well-formed empty circuit", calls == [] and d["_gates"] == [] and d["_gate_counts"] == {})
    else:
        h.shape("non-empty list: the loop ran on the generic element", gates.iterations == 1 and len(calls) == 1)
    # absent list
    c2 = Circuit.__new__(Circuit)
    calls.clear()
    h.call(C, "Circuit.__init__", c2, None, st["n"])
    h.check("absent list: no add_gate call", calls == [] and c2.__dict__["_gates"] == [] and c2.__dict__["_qubit_indices"] == (set(range(st["n"])) if st["n"] else set()))
    h.done()


def _record_init(h, log):
    stub(h, C, "Circuit.__init__", lambda a, k: None, log=log)


def _init_args(call):
    """(gates, n_qubits, name, cmeasure_control) of a recorded constructor call, defaults filled in; '<absent>' marks an argument not passed"""
    args, kw = call
    names = ["gates", "n_qubits", "name", "cmeasure_control"]
    out = {n: "<absent>" for n in names}
    for n, v in zip(names, args[1:]):
        out[n] = v
    for k, v in kw.items():
        out[k] = v
    return out


@contract("C11", "P5.Circuit.copy.any_length", targets=[(C, "Circuit.copy")], level="P", structures=lambda tier: [{"fixed": f} for f in (None, "sym")])
def p5(h, st):
    """for a circuit of ANY length: copy() returns a circuit constructed (P4) from a DEEP COPY of the gate sequence with the same fixed width and name and a deep copy of
    the classical control; the source circuit's fields are untouched"""
    if not h.symbolic:
        h.check("native: covered by O3 / C09.O10", True)
        h.done()
        return
    log = []
    _record_init(h, log)
    N = h.integer("N") if st["fixed"] else None
    seq = GSeq.atom("self._gates", Opaque("generic gate"))
    ctrl = {"1": [1, 2]}
    c = _blank_circuit(_gates=seq, _qubits_simulated=N, name="nm", _cmeasure_control=ctrl)
    before = dict(c.__dict__)
    out = h.call(C, "Circuit.copy", c)
    from tangelo.linq import Circuit
    h.check("a new Circuit object is returned", type(out) is Circuit and out is not c)
    h.shape("exactly one constructor call", len(log) == 1)
    a = _init_args(log[0])
    # the constructor copies every gate field-wise (P2), so handing it the gate sequence itself would be just as consistent: both forms are accepted
    h.shape("constructed from (a deep copy of) self._gates", isinstance(a["gates"], GSeq) and a["gates"].describe() in (("copy", ("atom", "self._gates")), ("atom", "self._gates")))
    h.check("same fixed width", a["n_qubits"] is N)
    h.check("same name", a["name"] == "nm")
    h.check("classical control deep-copied", a["cmeasure_control"] == ctrl and a["cmeasure_control"] is not ctrl and a["cmeasure_control"]["1"] is not ctrl["1"])
    h.check("source circuit untouched", all(c.__dict__[k] is v for k, v in before.items()) and len(c.__dict__) == len(before) and ctrl == {"1": [1, 2]})
    h.done()


@contract("C11", "P6.Circuit.__add__.any_length", targets=[(C, "Circuit.__add__")], level="P",
          structures=lambda tier: [{"fa": a, "fb": b} for a in (None, "sym") for b in (None, "sym")])
def p6(h, st):
    """for circuits a, b of ANY lengths: a + b is constructed (P4) from the concatenation a._gates ++ b._gates (the constructor copies every gate: P2), with fixed width
    max(a.width, b.width) when either operand has a (non-zero) fixed width and no fixed width otherwise; neither operand is touched"""
    if not h.symbolic:
        h.check("native: covered by O3 / C09.O10", True)
        h.done()
        return
    log = []
    _record_init(h, log)
    Na = h.integer("Na") if st["fa"] else None
    Nb = h.integer("Nb") if st["fb"] else None
    for N in (Na, Nb):
        if N is not None:
            h.assume(N >= 0)
    wa, wb = h.integer("wa"), h.integer("wb")
    h.assume(wa >= 0)
    h.assume(wb >= 0)
    a = _blank_circuit(_gates=GSeq.atom("a._gates", Opaque("generic gate of a")), _qubits_simulated=Na)
    b = _blank_circuit(_gates=GSeq.atom("b._gates", Opaque("generic gate of b")), _qubits_simulated=Nb)
    stub(h, C, "Circuit.width", lambda args, k: wa if args[0] is a else wb)
    before = (dict(a.__dict__), dict(b.__dict__))
    out = h.call(C, "Circuit.__add__", a, b)
    h.shape("exactly one constructor call", len(log) == 1)
    g = _init_args(log[0])
    h.shape("constructed from a._gates ++ b._gates", isinstance(g["gates"], GSeq) and g["gates"].describe() == ("concat", ("atom", "a._gates"), ("atom", "b._gates")))
    fixed_a = (Na != 0) if Na is not None else False
    fixed_b = (Nb != 0) if Nb is not None else False
    n = g["n_qubits"]
    if n is None:
        h.check("no fixed width only if neither operand has one", ~(fixed_a | fixed_b) if not (isinstance(fixed_a, bool) and isinstance(fixed_b, bool)) else not (fixed_a or fixed_b))
    else:
        h.check("a fixed width only if an operand has one", (fixed_a | fixed_b) if not (isinstance(fixed_a, bool) and isinstance(fixed_b, bool)) else (fixed_a or fixed_b))
        h.check("fixed width == max(a.width, b.width)", (n >= wa) & (n >= wb) & ((n == wa) | (n == wb)))
    h.check("operands untouched", all(a.__dict__[k] is v for k, v in before[0].items()) and all(b.__dict__[k] is v for k, v in before[1].items()))
    h.done()


@contract("C11", "P7.Circuit.__mul__.any_length", targets=[(C, "Circuit.__mul__"), (C, "Circuit.__rmul__")], level="P",
          structures=lambda tier: [{"fixed": f, "side": s} for f in (None, "sym") for s in ("mul", "rmul")] + [{"bad": v} for v in ("2.0", "'2'", "None", "True")])
def p7(h, st):
    """for a circuit of ANY length and EVERY integer k: c * k (and k * c) raises ValueError iff k <= 0 and otherwise is constructed (P4) from the gate sequence repeated k
    times with the circuit's own fixed width; non-integer factors raise ValueError; the operand is untouched"""
    if not h.symbolic:
        h.check("native: covered by O3 / C09.O10", True)
        h.done()
        return
    log = []
    _record_init(h, log)
    seq = GSeq.atom("self._gates", Opaque("generic gate"))
    if "bad" in st:
        c = _blank_circuit(_gates=seq, _qubits_simulated=None)
        v = eval(st["bad"])
        e = h.raises(lambda: h.call(C, "Circuit.__mul__", c, v), ValueError)
        if st["bad"] == "True":
            # bool is an int in Python: accepted as 1 repetition
            h.check("True counts as the integer 1", e is None and len(log) == 1)
        else:
            h.check("non-integer factor refused", e is not None and log == [])
        h.done()
        return
    N = h.integer("N") if st["fixed"] else None
    k = h.integer("k")
    c = _blank_circuit(_gates=seq, _qubits_simulated=N)
    before = dict(c.__dict__)
    e = h.raises(lambda: h.call(C, "Circuit.__mul__" if st["side"] == "mul" else "Circuit.__rmul__", c, k), ValueError)
    if e is not None:
        h.check("refused only for k <= 0", k <= 0)
        h.check("nothing constructed", log == [])
    else:
        h.check("accepted only for k > 0", k > 0)
        h.shape("exactly one constructor call", len(log) == 1)
        g = _init_args(log[0])
        h.shape("constructed from self._gates * k", isinstance(g["gates"], GSeq) and g["gates"].describe() == ("repeat", ("atom", "self._gates")))
        h.check_close("repetition count is k", g["gates"].n, k)
        h.check("own fixed width", g["n_qubits"] is N)
    h.check("operand untouched", all(c.__dict__[f] is v for f, v in before.items()))
    h.done()
