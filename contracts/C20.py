"""C20 -- Fourier transform, state initialisation and phase estimation are exact."""
import itertools
import math
from fractions import Fraction

from tverif.engine import contract, snapshot
from tverif import qsem, ring
from tverif.ring import Poly, Cyc

AU = "tangelo/toolboxes/ansatz_generator/ansatz_utils.py"
QPE = "tangelo/algorithms/projective/qpe.py"
IQPE = "tangelo/algorithms/projective/iqpe.py"
SV = "tangelo/linq/helpers/circuits/statevector.py"
UC = "tangelo/toolboxes/unitary_generator/unitary_circuit.py"
TS = "tangelo/toolboxes/unitary_generator/trotter_suzuki.py"


def dft_rows(qs, n, A, inverse=False, bit_reversed_output=False):
    """DFT on the listed qubits (first listed = least significant bit of the register value), identity elsewhere"""
    k = len(qs)
    N = 1 << k
    if A is qsem.Exact:
        norm = qsem.ISQ2 ** k
        def w(e):          # exp(2 pi i e / N)
            return ring.expi(Poly.pi() * Fraction(2 * e, N))
    else:
        norm = 1 / math.sqrt(N)
        def w(e):
            return complex(math.cos(2 * math.pi * e / N), math.sin(2 * math.pi * e / N))
    def value(index):      # register value of a basis index
        v = 0
        for j, q in enumerate(qs):
            v |= ((index >> (n - 1 - q)) & 1) << j
        return v
    def with_value(index, v):
        for j, q in enumerate(qs):
            bit = (v >> j) & 1
            mask = 1 << (n - 1 - q)
            index = (index | mask) if bit else (index & ~mask)
        return index
    rows = {}
    sign = -1 if inverse else 1
    for col in range(1 << n):
        x = value(col)
        for y in range(N):
            yy = y
            if bit_reversed_output:
                yy = int(format(y, f"0{k}b")[::-1], 2) if k else 0
            row = with_value(col, yy)
            rows.setdefault(row, {})[col] = w((sign * x * y) % N) * norm
    return rows


def o3_structures(tier):
    sts = []
    maxk = 3 if tier == "quick" else 4
    for k in range(1, maxk + 1):
        n = k + 1
        lists = [list(range(k)), list(range(k))[::-1], list(range(1, k + 1))]
        if k >= 2:
            lists.append([1, 0] + list(range(2, k)) if k > 2 else [1, 0])
            lists.append([n - 1] + list(range(k - 1)))
        seen = []
        for qs in lists:
            if qs not in seen:
                seen.append(qs)
                for inverse in (False, True):
                    for swap in (True, False):
                        sts.append({"qubits": qs, "n": n, "inverse": inverse, "swap": swap})
    for k in (1, 2, 3):
        sts.append({"qubits": k, "n": k, "inverse": False, "swap": True})
    return sts


@contract("C20", "O3.get_qft_circuit.semantics", level="S", structures=o3_structures,
          targets=[(AU, "get_qft_circuit"), (AU, "append_qft_rotations_gates"), (AU, "swap_registers")])
def o3(h, st):
    """ensures U(get_qft_circuit(qubits)) == DFT_{2^k} on the listed qubits (first listed qubit least significant), identity elsewhere;
    inverse=True gives the adjoint; swap=False gives the bit-reversed transform. Exact (cyclotomic arithmetic)."""
    _ = h.pi
    qs, n = st["qubits"], st["n"]
    c = h.call(AU, "get_qft_circuit", qs, None, st["inverse"], st["swap"])
    qlist = list(range(qs)) if isinstance(qs, int) else qs
    U, A = qsem.unitary(c._gates, n, exact=h.symbolic)
    if st["swap"]:
        E = dft_rows(qlist, n, A, inverse=st["inverse"])
    else:
        # without the swaps: forward = bit-reversal after the DFT; inverse = bit reversal before the inverse DFT
        F = dft_rows(qlist, n, A, inverse=st["inverse"])
        R = dft_rows(qlist, n, A)  # placeholder to get shapes
        R = {}
        k = len(qlist)
        for col in range(1 << n):
            row = col
            for j, q in enumerate(qlist):
                b = (col >> (n - 1 - q)) & 1
                q2 = qlist[k - 1 - j]
                mask = 1 << (n - 1 - q2)
                row = (row | mask) if b else (row & ~mask)
            R.setdefault(row, {})[col] = A.one
        E = qsem.rows_mul(F, R, A) if st["inverse"] else qsem.rows_mul(R, F, A)
    h.mat_equal("U(qft circuit) == DFT", U, E, A, n)
    h.done()


@contract("C20", "O2.get_qft_circuit.arguments", level="S", structures=lambda tier: [{"case": c} for c in ("int", "tuple", "str", "n_qubits")],
          targets=[(AU, "get_qft_circuit")])
def o2(h, st):
    """int argument means range(n); other types raise KeyError; n_qubits fixes the width"""
    c = st["case"]
    if c == "int":
        a = h.call(AU, "get_qft_circuit", 3)
        b = h.call(AU, "get_qft_circuit", [0, 1, 2])
        h.check("int == range list", snapshot([g.__dict__ for g in a._gates]) == snapshot([g.__dict__ for g in b._gates]))
    elif c in ("tuple", "str"):
        e = h.raises(lambda: h.call(AU, "get_qft_circuit", (0, 1) if c == "tuple" else "01"), KeyError)
        h.check("non int/list rejected", e is not None)
    else:
        a = h.call(AU, "get_qft_circuit", [0, 1], 5)
        h.check("width fixed", h.getattr(a, "width") == 5)
    h.done()


# O4 energy_estimation ------------------------------------------------------------------------------------------------

@contract("C20", "O4.QPESolver.energy_estimation", level="S", targets=[(QPE, "QPESolver.energy_estimation")],
          structures=lambda tier: [{"bits": "".join(b)} for k in range(0, 6) for b in itertools.product("01", repeat=k)])
def o4(h, st):
    """energy_estimation(b) == sum_i b_i 2^-(i+1) (exact dyadic rational)"""
    from tangelo.algorithms.projective.qpe import QPESolver
    obj = QPESolver.__new__(QPESolver)
    v = h.call(QPE, "QPESolver.energy_estimation", obj, st["bits"])
    exp = sum(Fraction(1, 2 ** (i + 1)) for i, b in enumerate(st["bits"]) if b == "1")
    h.check("dyadic value", Fraction(v).limit_denominator(2 ** 10) == exp and abs(v - float(exp)) < 1e-15)
    h.done()


# O5/O8 QPE layout and certainty (exact) ------------------------------------------------------------------------------

def qpe_structures(tier):
    sts = []
    for k in (1, 2, 3) if tier == "quick" else (1, 2, 3, 4):
        for m in range(2 ** k):
            for ham in ("Z0", "Z0Z1") if k < 3 else ("Z0",):
                for unit in ("trotter", "circuit", "trotter_repeat"):
                    if tier == "quick" and k == 3 and m % 3 and unit == "circuit":
                        continue
                    sts.append({"k": k, "m": m, "ham": ham, "unitary": unit})
    return sts


@contract("C20", "O5.QPESolver.build.certainty", level="S", structures=qpe_structures,
          targets=[(QPE, "QPESolver.build"), (QPE, "QPESolver.__init__"), (TS, "TrotterSuzukiUnitary.build_circuit"), (UC, "CircuitUnitary.build_circuit"),
                   (UC, "CircuitUnitary.add_controls"), (AU, "get_qft_circuit"), (AU, "trotterize")])
def o5(h, st):
    """for an eigenstate whose eigenphase m/2^k is exactly representable the QPE register reads the bits of m with probability exactly 1
    (register placed after the unitary's qubits, controlled power 2^i on list position i, inverse QFT last); exact arithmetic"""
    _ = h.pi
    from tangelo.toolboxes.operators import QubitOperator
    from tangelo.linq import Circuit, Gate
    from tangelo.algorithms.projective.qpe import QPESolver
    k, m = st["k"], st["m"]
    nstate = 1 if st["ham"] == "Z0" else 2
    # U = exp(-i H), H = a * Z-word; on the reference state |1 0..> the word has eigenvalue -1: U|ref> = exp(i a)|ref>, a = 2 pi m / 2^k
    a = (Poly.pi() if h.symbolic else math.pi) * (Fraction(2 * m, 2 ** k) if h.symbolic else 2 * m / 2 ** k)
    word = ((0, "Z"),) if nstate == 1 else ((0, "Z"), (1, "Z"))
    ref = Circuit([Gate("X", 0)], n_qubits=nstate)
    if st["unitary"] in ("trotter", "trotter_repeat"):
        qop = QubitOperator()
        qop.terms[word] = a
        if m == 0:
            qop.terms[word] = (Poly.pi() * 2) if h.symbolic else 2 * math.pi
        opts = {"qubit_hamiltonian": qop, "size_qpe_register": k, "ref_state": ref, "backend_options": {"target": "cirq"}}
        if st["unitary"] == "trotter_repeat":
            # powers of the unitary obtained by REPEATING the one-step circuit instead of scaling the evolution time
            opts["unitary_options"] = {"n_steps_method": "repeat"}
    else:
        # circuit unitary: RZ(-2a) on qubit 0 ( = exp(+i a Z) ); eigenvalue on |1> is exp(-i a) -> use angle +2a to get exp(+i a)... RZ(t)|1> = e^{+it/2}|1>
        circ = Circuit([Gate("RZ", 0, parameter=a * 2)] + ([Gate("CNOT", 1, 0), Gate("CNOT", 1, 0)] if nstate == 2 else []))
        opts = {"unitary": circ, "size_qpe_register": k, "ref_state": ref, "backend_options": {"target": "cirq"}}
    solver = h.call(QPE, "QPESolver", opts)
    h.call(QPE, "QPESolver.build", solver)
    n = nstate + k
    gates = list(ref._gates) + list(solver.circuit._gates)
    h.check("QPE register placed after the unitary's qubits", sorted(solver.qpe_qubit_list) == list(range(nstate, nstate + k)))
    h.check("circuit stays within the expected register", max(q for g in gates for q in g.target + (g.control or [])) < n)
    psi, A = qsem.apply_to_state(gates, n, {0: (qsem.Exact.one if h.symbolic else 1 + 0j)}, exact=h.symbolic)
    bits = format(m, f"0{k}b")
    # probability of reading `bits` on the register qubits nstate..n-1 (qubit nstate first)
    prob = 0
    for idx, amp in psi.items():
        reg = "".join(str((idx >> (n - 1 - q)) & 1) for q in range(nstate, n))
        if reg == bits:
            prob = prob + amp * A.conj(amp)
    h.check_close("probability of the exact eigenphase bitstring is 1", prob, 1.0)
    e = h.call(QPE, "QPESolver.energy_estimation", solver, bits)
    h.check("energy_estimation(bits of m) == m / 2^k", abs(e - m / 2 ** k) < 1e-15)
    h.done()


@contract("C20", "O8.QPE_iQPE.simulate", level="B",
          structures=lambda tier: [{"k": k, "m": m, "solver": s, "ham": hm} for k in (2, 3) for m in range(2 ** k) for s in ("qpe", "iqpe") for hm in ("Z0", "Z0+Z1", "X0X1")][:: 1 if tier != "quick" else 3]
                                  # Hamiltonians whose support has a GAP below its highest qubit (an idle state qubit, left in |0> or flipped by the reference circuit)
                                  + [{"k": k, "m": m, "solver": s, "ham": hm} for k in (2, 3) for m in range(2 ** k) for s in ("qpe", "iqpe")
                                     for hm in ("Z0|Z2", "Z0|Z2 idle flipped", "Z1|Z2", "Z1|Z2 idle flipped")][:: 1 if tier != "quick" else 5],
          native_samples=lambda st, rnd, tier: [{}],
          targets=[(QPE, "QPESolver.simulate"), (IQPE, "IterativeQPESolver.simulate"), (IQPE, "IterativeQPESolver.build")])
def o8(h, st):
    """bounded (cirq simulation): standard and iterative phase estimation return the exactly representable eigenphase with certainty, for
    diagonal and non-diagonal commuting Hamiltonians"""
    import numpy as np
    from tangelo.toolboxes.operators import QubitOperator
    from tangelo.linq import Circuit, Gate
    from tangelo.algorithms.projective.qpe import QPESolver
    from tangelo.algorithms.projective.iqpe import IterativeQPESolver
    k, m = st["k"], st["m"]
    a = 2 * math.pi * m / 2 ** k
    if st["ham"] == "Z0":
        qop, ref = QubitOperator("Z0", a), Circuit([Gate("X", 0)], n_qubits=1)           # eigenvalue -a  -> phase +a
    elif st["ham"] == "Z0+Z1":
        qop, ref = QubitOperator("Z0", a) + QubitOperator("Z1", a / 2) + QubitOperator("", a / 2), Circuit([Gate("X", 0)], n_qubits=2)   # -a + a/2 + a/2 = 0 -> total energy 0?  use below
        qop = QubitOperator("Z0", a / 2) + QubitOperator("Z1", -a / 2) + QubitOperator("", 0.0)     # on |10>: -a/2 - a/2 = -a
    if "|" in st["ham"] and m == 0:
        a = 2 * math.pi               # a full turn: the phase 0 with non-vanishing coefficients (an all-zero operator has no support at all)
    if st["ham"] in ("Z0", "Z0+Z1"):
        pass
    elif st["ham"].startswith("Z0|Z2"):
        # on |1 x 0>: Z0 = -1, Z2 = +1  ->  -a/2 - a/2 = -a, whatever the idle qubit 1 holds
        qop = QubitOperator("Z0", a / 2) + QubitOperator("Z2", -a / 2)
        ref = Circuit([Gate("X", 0)] + ([Gate("X", 1)] if "flipped" in st["ham"] else []), n_qubits=3)
    elif st["ham"].startswith("Z1|Z2"):
        qop = QubitOperator("Z1", a / 2) + QubitOperator("Z2", -a / 2)
        ref = Circuit([Gate("X", 1)] + ([Gate("X", 0)] if "flipped" in st["ham"] else []), n_qubits=3)
    else:
        qop, ref = QubitOperator("X0 X1", a), Circuit([Gate("H", 0), Gate("CNOT", 1, 0), Gate("Z", 0)], n_qubits=2)   # (|00>-|11>)/sqrt2: XX = -1
    cls = QPESolver if st["solver"] == "qpe" else IterativeQPESolver
    opts = {"qubit_hamiltonian": qop, "size_qpe_register": k, "ref_state": ref, "backend_options": {"target": "cirq", "n_shots": 20 if st["solver"] == "iqpe" else None}}
    solver = cls(opts)
    h.call(QPE if st["solver"] == "qpe" else IQPE, f"{cls.__name__}.build", solver)
    e = h.call(QPE if st["solver"] == "qpe" else IQPE, f"{cls.__name__}.simulate", solver)
    h.check("estimated phase == m / 2^k", abs(e - m / 2 ** k) < 1e-12, detail=f"got {e}")
    if st["solver"] == "qpe":
        h.check("with certainty", abs(max(solver.qpe_freqs.values()) - 1) < 1e-9, detail=str(solver.qpe_freqs))
    else:
        h.check("with certainty (all shots agree)", len(solver.qpe_freqs) == 1, detail=str(solver.qpe_freqs))
    h.done()


# O6 add_controls -----------------------------------------------------------------------------------------------------

@contract("C20", "O6.CircuitUnitary.add_controls", level="S",
          structures=lambda tier: [{"method": mth, "control": c, "steps": s} for mth in ("all", "variational") for c in (None, 3, [3], [3, 4]) for s in (1, 2)],
          native_samples=lambda st, rnd, tier: [{"t": rnd.uniform(-3, 3)}],
          targets=[(UC, "CircuitUnitary.add_controls"), (UC, "CircuitUnitary.build_circuit"), (UC, "CircuitUnitary.__init__")])
def o6(h, st):
    """build_circuit(n, control): operator == controlled(U^n) on the control qubit(s) when every gate ("all") is controlled;
    the unitary's own circuit is not modified; metadata of the result is consistent"""
    from tangelo.linq import Circuit, Gate
    from contracts.C11 import wf_violations
    t = h.real("t", angle_denom=2)
    gates = [Gate("H", 0), Gate("RZ", 1, parameter=t, is_variational=True), Gate("CNOT", 1, 0), Gate("CRX", 2, 1, parameter=t, is_variational=True)]
    base = Circuit(gates)
    before = snapshot(base.__dict__)
    u = h.call(UC, "CircuitUnitary", base, st["method"])
    out = h.call(UC, "CircuitUnitary.build_circuit", u, st["steps"], st["control"])
    h.check("the unitary's circuit is unchanged", snapshot(base.__dict__) == before)
    bad = wf_violations(h, out)
    h.check("result metadata consistent with its gate list", not bad, detail=str(bad[:2]))
    n = 5
    if st["method"] == "all":
        U, A = qsem.unitary(out._gates, n, exact=h.symbolic)
        B, _ = qsem.unitary(list(base._gates) * st["steps"], n, exact=h.symbolic)
        ctrl = st["control"]
        E = B if ctrl is None else qsem.controlled_rows(B, [ctrl] if isinstance(ctrl, int) else ctrl, n, A)
        h.mat_equal("U(result) == controlled(U^n)", U, E, A, n)
    h.done()


# O7 StateVector (floating point: bounded) ------------------------------------------------------------------------------

def sv_structures(tier):
    sts = []
    for nq in (1, 2, 3) if tier == "quick" else (1, 2, 3, 4):
        for kind in ("dense", "real", "sparse", "basis", "uniform", "near_real", "tiny_phase", "tiny_amplitudes", "near_product", "balanced_signs", "tiny_rotation"):
            for order in ("msq_first", "lsq_first"):
                sts.append({"nq": nq, "kind": kind, "order": order})
    return sts


@contract("C20", "O7.StateVector", level="B", structures=sv_structures,
          native_samples=lambda st, rnd, tier: [{"seed": rnd.randint(0, 10 ** 6)} for _ in range(3 if tier == "quick" else 12)],
          targets=[(SV, "StateVector.initializing_circuit"), (SV, "StateVector.uncomputing_circuit"), (SV, "StateVector._rotations_to_disentangle"),
                   (SV, "StateVector._bloch_angles"), (SV, "StateVector._get_multiplex_circuit")])
def o7(h, st):
    """bounded (floating point): exp(i phase) * U(initializing_circuit)|0> == the given amplitude vector (1e-9) in the stated qubit order,
    and U(uncomputing_circuit) maps the vector to exp(-i phase')|0...0>"""
    import numpy as np
    from tangelo.linq.helpers.circuits.statevector import StateVector
    rng = np.random.default_rng(int(h.integer("seed")))
    nq = st["nq"]
    d = 2 ** nq
    if st["kind"] == "dense":
        v = rng.normal(size=d) + 1j * rng.normal(size=d)
    elif st["kind"] == "real":
        v = rng.normal(size=d) + 0j
    elif st["kind"] == "sparse":
        v = np.zeros(d, dtype=complex)
        idx = rng.choice(d, size=max(1, d // 2), replace=False)
        v[idx] = rng.normal(size=len(idx)) + 1j * rng.normal(size=len(idx))
    elif st["kind"] == "basis":
        v = np.zeros(d, dtype=complex)
        v[rng.integers(d)] = np.exp(1j * rng.uniform(0, 6))
    elif st["kind"] == "near_real":
        # positive real amplitudes with imaginary round-off noise: relative phases tiny but not exactly zero
        v = np.abs(rng.normal(size=d)) + 0.1 + 1e-10j * rng.normal(size=d)
    elif st["kind"] == "tiny_phase":
        v = np.abs(rng.normal(size=d)) + 0.1 + 0j
        v[rng.integers(d)] *= np.exp(1e-9j)
    elif st["kind"] == "tiny_amplitudes":
        v = rng.normal(size=d) + 1j * rng.normal(size=d)
        idx = rng.choice(d, size=max(1, d // 2), replace=False)
        v[idx] *= 1e-9
    elif st["kind"] == "near_product":
        # |0...0> plus a perturbation of size 1e-9: all rotation angles tiny but non-zero
        v = np.zeros(d, dtype=complex)
        v[0] = 1
        v = v + 1e-9 * (rng.normal(size=d) + 1j * rng.normal(size=d))
    elif st["kind"] == "balanced_signs":
        # real vector whose relative phases (0 / pi) cancel in the sum at some peeling level
        v = np.abs(rng.normal(size=d)) + 0.1 + 0j
        v[1::2] *= -1
        if d >= 4:
            v[2] *= -1
            v[3] *= -1
    elif st["kind"] == "tiny_rotation":
        # exactly real, one pair rotated by a tiny angle: RY angles of a level tiny but non-zero, RZ angles exactly zero
        v = np.zeros(d, dtype=complex)
        v[0] = 1
        v[-1] = 1e-9
    else:
        v = np.ones(d, dtype=complex)
    v = v / np.linalg.norm(v)
    sv = h.call(SV, "StateVector", v.copy(), st["order"])
    circ, phase = h.call(SV, "StateVector.initializing_circuit", sv, True)
    U = qsem.to_numpy(qsem.unitary(circ._gates, nq, exact=False)[0], nq)
    out = U[:, 0] * np.exp(1j * phase)
    # qsem index convention: qubit 0 = most significant bit.  order 'msq_first': vector index has qubit 0 least significant
    if st["order"] == "msq_first":
        perm = [int(format(i, f"0{nq}b")[::-1], 2) for i in range(d)]
        out = out[perm]
    err = float(np.max(np.abs(out - v)))
    # amplitudes of relative size ~1e-9: theta = 2 arccos(|a| / r) with |a| / r within machine epsilon of 1 loses half of the digits (floating point, not a contract
    # matter): the achievable accuracy is sqrt(machine epsilon) ~ 1.5e-8 for these families
    tol = 1e-7 if st["kind"] in ("tiny_amplitudes", "near_product", "tiny_rotation") else 1e-9
    h.check("prepared state (with the returned phase) equals the input vector", err < tol, detail=f"max err {err:.2e}")
    unc, ph2 = h.call(SV, "StateVector.uncomputing_circuit", sv, True)
    U2 = qsem.to_numpy(qsem.unitary(unc._gates, nq, exact=False)[0], nq)
    vin = v if st["order"] == "lsq_first" else v[[int(format(i, f"0{nq}b")[::-1], 2) for i in range(d)]]
    res = U2 @ vin
    h.check("uncomputing circuit maps the vector to |0...0> (up to the returned phase)", abs(abs(res[0]) - 1) < tol and abs(res[0] * np.exp(1j * ph2) - 1) < tol,
            detail=f"|res0|={abs(res[0]):.6f} phase defect={abs(res[0] * np.exp(1j * ph2) - 1):.2e}")
    h.done()


from tverif.engine import repeatable
repeatable((AU, "get_qft_circuit"), (SV, "StateVector.initializing_circuit"), (SV, "StateVector.uncomputing_circuit"))

PROPERTY = {
    "level": "other",
    "explanation": "QFT == DFT and phase-estimation certainty are proved exactly (cyclotomic arithmetic in Q(zeta_32), AST of the real circuit "
                   "builders) for every qubit list up to the bound; add_controls for every angle (symbolic). StateVector (arccos/angle/norm on floats) "
                   "and the simulated QPE/iQPE runs are outside the verifier's reach: labelled bounded native contract runs.",
    "bounds": {"quick": "QFT on <= 3 listed qubits in any order inside a register one qubit wider; QPE register <= 3 qubits, all representable phases; StateVector on 1-3 qubits, 3 seeds per shape",
               "thorough": "QFT <= 4 listed qubits, QPE register <= 4, StateVector 1-4 qubits, 12 seeds"},
    "assumptions": ["floats as reals in the exact part", "StateVector / simulated phase estimation: bounded stand-in only (tolerance 1e-9)", "cirq assumed for the bounded QPE runs"],
    "trusted_base": ["tverif AST interpreter", "tverif.ring / qsem", "z3"],
}
