"""C19 -- Noisy simulation applies exactly the specified channels."""
import itertools
from fractions import Fraction

from tverif.engine import contract, snapshot
from tverif import qsem, fakes
from tverif.ring import Poly

NM = "tangelo/linq/noisy_simulation/noise_models.py"
TC = "tangelo/linq/translator/translate_cirq.py"
BK = "tangelo/linq/target/backend.py"
TGC = "tangelo/linq/target/target_cirq.py"

GATES = [("H", [0], None), ("RZ", [1], None), ("CNOT", [1], [0]), ("CNOT", [2], [0, 1]), ("CRZ", [0], [2]), ("XX", [0, 2], None), ("SWAP", [1, 2], None),
         ("CSWAP", [0, 1], [2]), ("X", [2], None), ("CPHASE", [1], [2, 0]), ("MEASURE", [0], None)]
PARAM = {"RX", "RY", "RZ", "PHASE", "CRX", "CRY", "CRZ", "CPHASE", "XX"}


def mk_gate(name, target, control=None, parameter="", is_variational=False):
    from tangelo.linq import Gate
    return Gate(name, target, control, parameter, is_variational)


def mk_circuit(gates, n_qubits=None):
    from tangelo.linq import Circuit
    return Circuit(gates, n_qubits=n_qubits)


# O1 NoiseModel.add_quantum_error ---------------------------------------------------------------------------------------

@contract("C19", "O1.NoiseModel.add_quantum_error", targets=[(NM, "NoiseModel.add_quantum_error"), (NM, "NoiseModel.noisy_gates")], level="S",
          structures=lambda tier: [{"case": c} for c in ("ok_pauli", "ok_depol", "both", "unknown_type", "pauli_not_list", "pauli_len2", "depol_int", "depol_list", "duplicate_pauli", "duplicate_depol")])
def o1(h, st):
    """raises ValueError for an unknown type, pauli parameters that are not a list of 3, depol parameter that is not a float, or a second channel of
    the same type on a gate (model unchanged then); otherwise appends (type, params) keeping earlier entries"""
    from tangelo.linq.noisy_simulation import NoiseModel
    nm = NoiseModel()
    add = lambda *a: h.call(NM, "NoiseModel.add_quantum_error", nm, *a)
    c = st["case"]
    if c == "ok_pauli":
        add("X", "pauli", [0.1, 0.2, 0.3])
        h.check("stored", nm._quantum_errors == {"X": [("pauli", [0.1, 0.2, 0.3])]} and h.getattr(nm, "noisy_gates") == {"X"})
    elif c == "ok_depol":
        add("CNOT", "depol", 0.25)
        h.check("stored", nm._quantum_errors == {"CNOT": [("depol", 0.25)]})
    elif c == "both":
        add("X", "pauli", [0.1, 0.2, 0.3])
        add("X", "depol", 0.5)
        add("H", "depol", 0.1)
        h.check("both kept in order", nm._quantum_errors == {"X": [("pauli", [0.1, 0.2, 0.3]), ("depol", 0.5)], "H": [("depol", 0.1)]})
    else:
        bad = {"unknown_type": ("X", "amplitude_damping", 0.1), "pauli_not_list": ("X", "pauli", 0.1), "pauli_len2": ("X", "pauli", [0.1, 0.2]),
               "depol_int": ("X", "depol", 1), "depol_list": ("X", "depol", [0.1]), "duplicate_pauli": ("X", "pauli", [0.0, 0.0, 0.1]),
               "duplicate_depol": ("X", "depol", 0.3)}[c]
        if c.startswith("duplicate"):
            add("X", "pauli", [0.1, 0.2, 0.3])
            add("X", "depol", 0.5)
        before = snapshot(nm._quantum_errors)
        e = h.raises(lambda: add(*bad), ValueError)
        h.check("rejected with ValueError", e is not None)
        h.check("model unchanged by the rejected call", snapshot(nm._quantum_errors) == before)
    h.done()


# O2 Backend.__init__ ---------------------------------------------------------------------------------------------------

@contract("C19", "O2.Backend.__init__.noise_support", targets=[(BK, "Backend.__init__")], level="S",
          structures=lambda tier: [{"backend": b, "noise": nz, "shots": s} for b in ("cirq", "sympy") for nz in (False, True) for s in (None, 10)])
def o2(h, st):
    """a noise model on a backend without noisy simulation raises; a noise model without n_shots raises"""
    from tangelo.linq.noisy_simulation import NoiseModel
    from tangelo.linq.target.target_cirq import CirqSimulator
    from tangelo.linq.target.target_sympy import SympySimulator
    cls = CirqSimulator if st["backend"] == "cirq" else SympySimulator
    nm = None
    if st["noise"]:
        nm = NoiseModel()
        nm.add_quantum_error("X", "depol", 0.1)
    rel = "tangelo/linq/target/target_cirq.py" if st["backend"] == "cirq" else "tangelo/linq/target/target_sympy.py"
    e = h.raises(lambda: h.call(rel, cls.__name__, st["shots"], nm), ValueError)
    should_raise = (st["noise"] and st["backend"] == "sympy") or (st["noise"] and st["shots"] is None)
    h.check("rejected iff unsupported / missing shots", (e is not None) == should_raise, detail=str(e))
    h.done()


# O3 insertion of channels ----------------------------------------------------------------------------------------------

def o3_structures(tier):
    sts = []
    specs = [["pauli"], ["depol"], ["pauli", "depol"], ["depol", "pauli"]]
    for gi in range(len(GATES)):
        for spec in specs:
            for other in (None, 8):
                sts.append({"gates": [gi] if other is None else [other, gi, other], "noisy": [gi], "spec": spec})
    sts.append({"gates": [0, 2, 3, 8, 2], "noisy": [2, 8], "spec": ["pauli", "depol"]})
    # several noisy gate names in one circuit, each with its OWN rates - same number of qubits (H / X / RZ; CNOT / CRZ; doubly-controlled pair), repeated occurrences,
    # interleaved, and a name that appears with different numbers of controls
    for spec in specs:
        sts.append({"gates": [0, 8, 1, 8, 0], "noisy": [0, 8, 1], "spec": spec})
        sts.append({"gates": [2, 4, 2, 5, 6], "noisy": [2, 4, 5, 6], "spec": spec})
        sts.append({"gates": [3, 9, 7, 3], "noisy": [3, 9, 7], "spec": spec})
        sts.append({"gates": [8, 2, 3, 0, 4], "noisy": [2, 0, 4, 8], "spec": spec})
    return sts


def _o3_samples(st, rnd, tier):
    names = sorted({GATES[i][0] for i in st["noisy"]})
    out = []
    for k in range(2):
        v = {"t": [0.7, -2.0][k]}
        for j, nme in enumerate(names):
            if k == 0:
                v.update({f"px_{nme}": 0.1 + 0.03 * j, f"py_{nme}": 0.05 + 0.02 * j, f"pz_{nme}": 0.2 - 0.04 * j, f"p_{nme}": 0.3 + 0.1 * j})
            else:
                v.update({f"px_{nme}": 0.0, f"py_{nme}": 0.0, f"pz_{nme}": 0.0, f"p_{nme}": 0.0})
        out.append(v)
    return out


@contract("C19", "O3.translate_c_to_cirq.noise_insertion", targets=[(TC, "translate_c_to_cirq")], level="S", structures=o3_structures, native_samples=_o3_samples)
def o3(h, st):
    """after the operation(s) of EVERY gate whose name is in the noise model, in gate order: pauli -> asymmetric_depolarize(px,py,pz) on each target then
    each control; depol -> one depolarize(p (4^k-1)/4^k, k) on targets++controls (k = number of qubits of the gate) - with the rates specified FOR THAT GATE NAME
    (every noisy name carries its own symbolic rates); both when both are specified, in the order given; no channel after any other gate; for every value of the rates"""
    if h.symbolic:
        h.I.module_override["cirq"] = fakes.FakeCirq
    from tangelo.linq.noisy_simulation import NoiseModel
    rates = {nme: (h.real(f"px_{nme}"), h.real(f"py_{nme}"), h.real(f"pz_{nme}"), h.real(f"p_{nme}")) for nme in sorted({GATES[i][0] for i in st["noisy"]})}
    for r4 in rates.values():
        for r in r4[:3]:
            h.assume(r >= 0)
            h.assume(r <= 0.3)       # requires: the three Pauli probabilities of a channel sum to at most one
        h.assume(r4[3] >= 0)
        h.assume(r4[3] <= 1)
    t = h.real("t", angle_denom=2)
    gates = [mk_gate(GATES[i][0], GATES[i][1], GATES[i][2], t if GATES[i][0] in PARAM else "") for i in st["gates"]]
    c = mk_circuit(gates, 3)
    nm = NoiseModel()
    noisy_names = {GATES[i][0] for i in st["noisy"]}
    for name in sorted(noisy_names):
        px, py, pz, p = rates[name]
        for kind in st["spec"]:
            nm._quantum_errors.setdefault(name, []).append(("pauli", [px, py, pz]) if kind == "pauli" else ("depol", p))
    cc = h.call(TC, "translate_c_to_cirq", c, nm)
    if not h.symbolic:
        import cirq
        ops = [op for op in cc.all_operations()][3:]
        chans = [op for op in ops if not cirq.has_unitary(op) and not cirq.is_measurement(op)]
        h.check("native: channel count", len(chans) ==
                sum((len(g.target) + len(g.control or []) if "pauli" in st["spec"] else 0) + (1 if "depol" in st["spec"] else 0) for g in gates if g.name in noisy_names))
        # the real cirq channel objects carry the rates of the gate they follow (cirq reorders operations on disjoint qubits: compared as multisets per qubit tuple)
        exp = []
        for g in gates:
            if g.name in noisy_names:
                px, py, pz, p = rates[g.name]
                qs = list(g.target) + list(g.control or [])
                k = len(qs)
                for kind in st["spec"]:
                    exp += [("pauli", (q,), (px, py, pz)) for q in qs] if kind == "pauli" else [("depol", tuple(qs), (p * (4 ** k - 1) / 4 ** k,))]
        got = []
        for op in chans:
            gch = op.gate
            qs = tuple(q.x for q in op.qubits)
            if isinstance(gch, cirq.AsymmetricDepolarizingChannel):
                got.append(("pauli", qs, (gch.p_x, gch.p_y, gch.p_z)))
            elif isinstance(gch, cirq.DepolarizingChannel):
                got.append(("depol", qs, (gch.p,)))
            else:
                got.append(("other", qs, ()))
        key = lambda r: (r[0], r[1], tuple(round(x, 9) for x in r[2]))
        got, exp = sorted(got, key=key), sorted(exp, key=key)
        same_shape = [(a[0], a[1]) for a in got] == [(b[0], b[1]) for b in exp]
        h.check("exactly the specified channels on exactly the gate's qubits", same_shape, detail=f"{got} vs {exp}")
        if same_shape:
            okp = all(all(abs(x - y) < 1e-12 for x, y in zip(a[2], b[2])) for a, b in zip(got, exp) if a[0] == "pauli")
            okd = all(abs(a[2][0] - b[2][0]) < 1e-12 for a, b in zip(got, exp) if a[0] == "depol")
            for nm_ in ("px", "py", "pz"):
                h.check(nm_, okp, detail=f"{got} vs {exp}")
            h.check("depolarising parameter p (4^k-1)/4^k", okd, detail=f"{got} vs {exp}")
        h.done()
        return
    ops = cc.ops[3:]
    pos = 0
    for g in gates:
        # the gate's own operation
        h.check(f"operation of {g.name} present", pos < len(ops) and ops[pos].gate.name not in ("asymmetric_depolarize", "depolarize"))
        pos += 1
        if g.name in noisy_names:
            qs = list(g.target) + list(g.control or [])
            px, py, pz, p = rates[g.name]
            for kind in st["spec"]:
                if kind == "pauli":
                    for q in qs:
                        ok = pos < len(ops) and ops[pos].gate.name == "asymmetric_depolarize" and ops[pos].qubits == [q]
                        h.check(f"pauli channel on qubit {q} after {g.name}", ok)
                        if ok:
                            a, b, cz = ops[pos].gate.params
                            h.check_close("px", a, px)
                            h.check_close("py", b, py)
                            h.check_close("pz", cz, pz)
                        pos += 1
                else:
                    k = len(qs)
                    ok = pos < len(ops) and ops[pos].gate.name == "depolarize" and ops[pos].qubits == qs and ops[pos].gate.nq == k
                    h.check(f"one {k}-qubit depolarising channel on targets++controls after {g.name}", ok)
                    if ok:
                        h.check_close("depolarising parameter p (4^k-1)/4^k", ops[pos].gate.params[0], p * Fraction(4 ** k - 1, 4 ** k))
                    pos += 1
    h.check("no other operation", pos == len(ops), detail=str(ops[pos:pos + 3]))
    h.done()


# O4 channel semantics --------------------------------------------------------------------------------------------------

@contract("C19", "O4.depolarising_parameter.semantics", targets=[(TC, "translate_c_to_cirq")], level="S",
          structures=lambda tier: [{"k": k} for k in (1, 2, 3)])
def o4(h, st):
    """with cirq's documented depolarize(q, n) (each of the 4^n-1 non-identity Paulis with probability q/(4^n-1)) the parameter emitted for a k-qubit
    gate makes the channel rho -> (1-p) rho + p 1/2^k: every non-identity Pauli component is scaled by exactly (1-p); p = 0 gives the identity channel"""
    if not h.symbolic:
        h.check("native: n/a", True)
        h.done()
        return
    h.I.module_override["cirq"] = fakes.FakeCirq
    from tangelo.linq.noisy_simulation import NoiseModel
    k = st["k"]
    p = h.real("p")
    g = {1: mk_gate("X", 0), 2: mk_gate("CNOT", 1, 0), 3: mk_gate("CNOT", 2, [0, 1])}[k]
    nm = NoiseModel()
    nm._quantum_errors[g.name] = [("depol", p)]
    cc = h.call(TC, "translate_c_to_cirq", mk_circuit([g], 3), nm)
    ok_last = bool(cc.ops) and cc.ops[-1].gate.name == "depolarize" and len(cc.ops[-1].gate.params) >= 1
    h.check("last operation is the depolarising channel", ok_last, detail=str(cc.ops[-1].gate.name if cc.ops else None))
    if not ok_last:
        h.done()
        return
    q = cc.ops[-1].gate.params[0]
    # Pauli transfer: component sigma != 1 is multiplied by (1-q) + q/(4^k-1) * sum_{P != 1} chi(P, sigma), chi = +1 if P commutes with sigma else -1
    letters = "IXYZ"
    words = ["".join(w) for w in itertools.product(letters, repeat=k)]
    def commute(a, b):
        return sum(1 for x, y in zip(a, b) if x != "I" and y != "I" and x != y) % 2 == 0
    for sigma in words[1:]:
        s = sum(1 if commute(P, sigma) else -1 for P in words[1:])
        factor = (1 - q) + q * Fraction(s, 4 ** k - 1)
        h.check_close(f"component {sigma} scaled by 1-p", factor, 1 - p)
    h.done()


# O5 / end-to-end (bounded) -----------------------------------------------------------------------------------------------

def kraus_pauli(px, py, pz):
    import numpy as np
    I2, X, Y, Z = np.eye(2), np.array([[0, 1], [1, 0]]), np.array([[0, -1j], [1j, 0]]), np.array([[1, 0], [0, -1]])
    return [(1 - px - py - pz, I2), (px, X), (py, Y), (pz, Z)]


def embed(op, q, n):
    import numpy as np
    M = np.array([[1]])
    for k in range(n):
        M = np.kron(M, op if k == q else np.eye(2))
    return M


def e2e_structures(tier):
    sts = []
    for gi in (0, 1, 2, 3, 4, 5, 7):
        for spec in (["pauli"], ["depol"], ["pauli", "depol"]):
            for rates in ((0.0, 0.0, 0.0, 0.0), (0.1, 0.05, 0.2, 0.3), (0.5, 0.0, 0.5, 1.0)):
                sts.append({"gate": gi, "spec": spec, "rates": list(rates)})
    return sts if tier != "quick" else sts[::2]


@contract("C19", "O6.noisy_density_matrix.end_to_end", level="B", structures=e2e_structures, native_samples=lambda st, rnd, tier: [{}],
          targets=[(TC, "translate_c_to_cirq"), (TGC, "CirqSimulator.simulate_circuit"), (BK, "Backend.get_expectation_value")])
def o6(h, st):
    """bounded (real cirq): the density matrix of the translated noisy circuit equals the one obtained by applying, after the noisy gate, the specified
    Pauli channel on each target and control / the depolarising channel (1-p) rho + p 1/2^k on the gate's qubits; zero rates reproduce the noiseless state"""
    import numpy as np
    import cirq
    from tangelo.linq.noisy_simulation import NoiseModel
    n = 3
    name, tg, ct = GATES[st["gate"]]
    prep = [mk_gate("RY", 0, None, 1.3), mk_gate("RY", 1, None, 0.7), mk_gate("CZ", 2, 1), mk_gate("RX", 2, None, 1.1), mk_gate("CY", 0, 2)]
    g = mk_gate(name, tg, ct, 0.9 if name in PARAM else "")
    c = mk_circuit(prep + [g], n)
    px, py, pz, p = st["rates"]
    nm = NoiseModel()
    for kind in st["spec"]:
        h.call(NM, "NoiseModel.add_quantum_error", nm, name, kind, [px, py, pz] if kind == "pauli" else float(p))
    if px + py + pz > 1:
        e = h.raises(lambda: h.call(TC, "translate_c_to_cirq", c, nm), ValueError)
        h.check("probabilities summing above one are rejected", e is not None)
        h.done()
        return
    cc = h.call(TC, "translate_c_to_cirq", c, nm)
    rho = cirq.DensityMatrixSimulator(dtype=np.complex128).simulate(cc).final_density_matrix
    U = qsem.to_numpy(qsem.unitary(prep + [g], n, exact=False)[0], n)
    psi = U[:, 0]
    ref = np.outer(psi, psi.conj())
    qs = list(tg) + list(ct or [])
    if name in [x.name for x in prep]:
        h.check("test design: noisy gate name unique in the circuit", False)
    for kind in st["spec"]:
        if kind == "pauli":
            for q in qs:
                ref = sum(w * embed(K, q, n) @ ref @ embed(K, q, n).conj().T for w, K in kraus_pauli(px, py, pz))
        else:
            k = len(qs)
            # (1-p) rho + p * (1/2^k on the gate qubits (x) partial trace)
            mixed = 0
            paulis = [np.eye(2), np.array([[0, 1], [1, 0]]), np.array([[0, -1j], [1j, 0]]), np.array([[1, 0], [0, -1]])]
            for combo in itertools.product(range(4), repeat=k):
                P = np.eye(2 ** n)
                for q, a in zip(qs, combo):
                    P = P @ embed(paulis[a], q, n)
                mixed = mixed + P @ ref @ P.conj().T
            mixed = mixed / 4 ** k
            ref = (1 - p) * ref + p * mixed
    err = float(np.max(np.abs(rho - ref)))
    h.check("density matrix equals the specified channels applied after the noisy gate", err < 1e-9, detail=f"max err {err:.2e}")
    h.done()


@contract("C19", "O5.malformed_rates", level="B", structures=lambda tier: [{"case": c} for c in ("neg_pauli", "sum_above_one", "neg_depol", "depol_above_bound")],
          native_samples=lambda st, rnd, tier: [{}], targets=[(TC, "translate_c_to_cirq"), (NM, "NoiseModel.add_quantum_error")])
def o5(h, st):
    """bounded: negative probabilities and Pauli probabilities summing above one are rejected before any result is produced"""
    from tangelo.linq.noisy_simulation import NoiseModel
    nm = NoiseModel()
    spec = {"neg_pauli": ("pauli", [-0.1, 0.1, 0.1]), "sum_above_one": ("pauli", [0.5, 0.4, 0.3]), "neg_depol": ("depol", -0.2), "depol_above_bound": ("depol", 1.5)}[st["case"]]
    def run():
        h.call(NM, "NoiseModel.add_quantum_error", nm, "X", *spec)
        h.call(TC, "translate_c_to_cirq", mk_circuit([mk_gate("X", 0)]), nm)
    e = h.raises(run, ValueError)
    h.check("rejected", e is not None)
    h.done()


# O7 histories: the same noise model / circuit objects across several translations ------------------------------------------

def _channels(cc):
    import cirq
    got = []
    for op in cc.all_operations():
        g = op.gate
        qs = tuple(q.x for q in op.qubits)
        if isinstance(g, cirq.AsymmetricDepolarizingChannel):
            got.append(("pauli", qs, (round(g.p_x, 12), round(g.p_y, 12), round(g.p_z, 12))))
        elif isinstance(g, cirq.DepolarizingChannel):
            got.append(("depol", qs, (round(g.p, 12),)))
    return sorted(got)


def _expected_channels(gates, errors):
    exp = []
    for g in gates:
        for kind, par in errors.get(g.name, []):
            qs = list(g.target) + list(g.control or [])
            k = len(qs)
            if kind == "pauli":
                exp += [("pauli", (q,), tuple(round(x, 12) for x in par)) for q in qs]
            else:
                exp.append(("depol", tuple(qs), (round(par * (4 ** k - 1) / 4 ** k, 12),)))
    return sorted(exp)


@contract("C19", "O7.noise_insertion.histories", level="B", structures=lambda tier: [{"k": k} for k in range(4 if tier == "quick" else 12)],
          native_samples=lambda st, rnd, tier: [{"seed": rnd.randint(0, 10 ** 6)}], targets=[(TC, "translate_c_to_cirq"), (NM, "NoiseModel.add_quantum_error")])
def o7(h, st):
    """bounded: the SAME noise-model object and the SAME circuit objects used for several translations in a row, with the model extended (a new noisy gate name, a second channel
    on a name) and other circuits / other models translated in between: every translation carries exactly the channels of the model AS IT IS AT THAT CALL, with that model's
    rates on that circuit's gates - nothing is remembered from an earlier translation"""
    import random
    from tangelo.linq.noisy_simulation import NoiseModel
    rnd = random.Random(int(h.integer("seed")) + st["k"])
    idx = list(range(len(GATES) - 1))
    circs = []
    for _ in range(2):
        gl = [mk_gate(GATES[i][0], GATES[i][1], GATES[i][2], 0.4 if GATES[i][0] in PARAM else "") for i in rnd.sample(idx, 5)]
        circs.append((mk_circuit(gl, 3), gl))
    names = sorted({g.name for _, gl in circs for g in gl})
    nm, other = NoiseModel(), NoiseModel()
    h.call(NM, "NoiseModel.add_quantum_error", other, names[0], "depol", 0.33)

    def check(tag, model, ci):
        c, gl = circs[ci]
        cc = h.call(TC, "translate_c_to_cirq", c, model)
        got, exp = _channels(cc), _expected_channels(gl, model._quantum_errors)
        h.check(tag + "channels == those of the model as it is now, on this circuit's gates", got == exp, detail=f"{got} vs {exp}")
    h.call(NM, "NoiseModel.add_quantum_error", nm, names[0], "depol", round(rnd.uniform(0.05, 0.4), 3))
    check("call 1: ", nm, 0)
    h.call(NM, "NoiseModel.add_quantum_error", nm, names[1 % len(names)], "pauli", [0.1, 0.02, 0.05])
    check("call 2 (model extended by a new noisy gate): ", nm, 0)
    check("call 3 (other circuit): ", nm, 1)
    check("call 4 (other model): ", other, 0)
    if names[0] in nm._quantum_errors and not any(k == "pauli" for k, _ in nm._quantum_errors[names[0]]):
        h.call(NM, "NoiseModel.add_quantum_error", nm, names[0], "pauli", [0.0, 0.2, 0.0])
    h.call(NM, "NoiseModel.add_quantum_error", nm, names[-1], "depol", 0.21) if names[-1] not in nm._quantum_errors else None
    check("call 5 (second channel on a noisy gate, another gate name with its own depolarising rate): ", nm, 0)
    check("call 6 (first circuit again, other circuit's turn): ", nm, 1)
    h.check("translations without a model carry no channel", _channels(h.call(TC, "translate_c_to_cirq", circs[0][0])) == [])
    h.done()


PROPERTY = {
    "level": "other",
    "explanation": "Channel insertion by the translator (which gates, which qubits, order, parameters) is proved from the AST for every rate value (symbolic "
                   "rates, recorded cirq terms) on every gate kind incl. multi-controlled ones; the depolarising parameter is proved to give (1-p) rho + p 1/2^k "
                   "under cirq's documented channel (exact Pauli-transfer computation, k <= 3). The density matrices of the real cirq simulator are compared "
                   "with an independent Kraus evolution in the bounded layer. Every noisy gate name carries its OWN symbolic rates (several noisy names of the same arity in one circuit). Unbounded: the noise insertion loop step for circuits of ANY length (P3). Bounded histories of translations sharing model / circuit objects (O7).",
    "bounds": {"quick": "11 gate kinds x 4 noise specs, alone and between other gates, 3 qubits; end-to-end: 7 gates x 3 specs x 3 rate sets (every 2nd)", "thorough": "all"},
    "assumptions": ["cirq's asymmetric_depolarize / depolarize implement their documented channels (validated numerically in C19.O6)", "floats as reals"],
    "trusted_base": ["tverif AST interpreter", "tverif.fakes", "z3", "cirq"],
}


# P: noise insertion in the translation loop of a circuit of ANY length --------------------------------------------------------

from tverif.interp import GhostIterable


class NoisyGenericGate(GhostIterable):
    managed = ("target_circuit", "measure_count")      # loop-carried state described by this invariant (anything else carried across iterations -> undecided)

    def __init__(self, h, gate, n, spec, rates, noisy):
        self.h, self.gate, self.n, self.spec, self.rates, self.noisy = h, gate, n, spec, rates, noisy
        self.before = snapshot(gate.__dict__)
        self.iterations = 0

    def element(self):
        self.iterations += 1
        return self.gate

    def havoc(self, interp, env):
        t = env.lookup("target_circuit")
        t.ops[:] = [fakes.COp(fakes.CGateT("<opaque translated prefix>"), [])]

    def step(self, interp, env, broke):
        h, g = self.h, self.gate
        px, py, pz, p = self.rates
        t = env.lookup("target_circuit")
        h.check("source gate unchanged", snapshot(g.__dict__) == self.before)
        h.check("translated prefix untouched", t.ops[0].gate.name == "<opaque translated prefix>")
        new = t.ops[1:]
        chans = [o for o in new if o.gate.name in ("asymmetric_depolarize", "depolarize")]
        first_chan = next((i for i, o in enumerate(new) if o.gate.name in ("asymmetric_depolarize", "depolarize")), len(new))
        h.check("channels come after the gate's own operation(s)", first_chan >= 1 and all(o.gate.name in ("asymmetric_depolarize", "depolarize") for o in new[first_chan:]))
        qs = list(g.target) + list(g.control or [])
        exp = []
        if self.noisy:
            for kind in self.spec:
                if kind == "pauli":
                    exp += [("asymmetric_depolarize", [q]) for q in qs]
                else:
                    exp += [("depolarize", qs)]
        h.check("exactly the specified channels on exactly the gate's qubits, in order", [(o.gate.name, o.qubits) for o in chans] == exp, detail=str([(o.gate.name, o.qubits) for o in chans]))
        for o in chans:
            if o.gate.name == "depolarize":
                k = len(qs)
                h.check_close("depolarising parameter p (4^k-1)/4^k", o.gate.params[0], p * Fraction(4 ** k - 1, 4 ** k))
            else:
                h.check_close("px", o.gate.params[0], px)
                h.check_close("py", o.gate.params[1], py)
                h.check_close("pz", o.gate.params[2], pz)


@contract("C19", "P3.noise_insertion.loop_step.any_length", targets=[(TC, "translate_c_to_cirq")], level="P",
          structures=lambda tier: [{"gate": gi, "spec": sp, "noisy": nz} for gi in range(len(GATES)) for sp in (["pauli"], ["depol"], ["pauli", "depol"], ["depol", "pauli"]) for nz in (True, False)])
def p3(h, st):
    """for a source circuit of ANY length and an arbitrary translated prefix: one generic iteration appends, after the gate's own operation, exactly the channels the noise
    model attaches to that gate's name (none when the name is not noisy) on exactly its targets then controls, with the specified rates, for every rate value"""
    if not h.symbolic:
        h.check("native: covered by O3 / O6", True)
        h.done()
        return
    h.I.module_override["cirq"] = fakes.FakeCirq
    from tangelo.linq import Circuit
    from tangelo.linq.noisy_simulation import NoiseModel
    px, py, pz, p = h.real("px"), h.real("py"), h.real("pz"), h.real("p")
    t = h.real("t", angle_denom=2)
    name, tg, ct = GATES[st["gate"]]
    g = mk_gate(name, tg, ct, t if name in PARAM else "")
    nm = NoiseModel()
    noisy_name = name if st["noisy"] else ("H" if name != "H" else "X")
    for kind in st["spec"]:
        nm._quantum_errors.setdefault(noisy_name, []).append(("pauli", [px, py, pz]) if kind == "pauli" else ("depol", p))
    c = Circuit.__new__(Circuit)
    it = NoisyGenericGate(h, g, 3, st["spec"], (px, py, pz, p), st["noisy"])
    c.__dict__ = {"_gates": it, "_qubit_indices": set(range(3)), "_qubits_simulated": 3, "name": "any"}
    h.call(TC, "translate_c_to_cirq", c, nm)
    h.shape("the loop body was entered once for the generic gate", it.iterations == 1)
    h.done()
