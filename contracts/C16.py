"""C16 -- Operator arithmetic returns correct values and never mutates operands."""
import itertools

from tverif.engine import contract, snapshot
from tverif.ring import Poly

OP = "tangelo/toolboxes/operators/operators.py"
MF = "tangelo/toolboxes/operators/multiformoperator.py"

F_TERMS = [((0, 1), (1, 0)), ((1, 1), (0, 0)), ((2, 1), (3, 1), (1, 0), (0, 0)), (), ((3, 1), (3, 0))]
Q_TERMS = [((0, "X"),), ((0, "Z"), (1, "Y")), ((1, "X"), (2, "X")), (), ((0, "Y"),)]


def mk_fermion(kind, spec, coefs, attrs=(None, None, None)):
    """kind: 'tangelo' | 'of' ; spec: list of indices into F_TERMS"""
    import openfermion as of
    from tangelo.toolboxes.operators import FermionOperator
    op = FermionOperator(None, 1.0, *attrs) if kind == "tangelo" else of.FermionOperator()
    for i, c in zip(spec, coefs):
        op.terms[F_TERMS[i]] = c
    return op


def mk_qubit(kind, spec, coefs):
    import openfermion as of
    from tangelo.toolboxes.operators import QubitOperator, QubitHamiltonian
    if kind == "tangelo":
        op = QubitOperator()
    elif kind == "of":
        op = of.QubitOperator()
    else:
        op = QubitHamiltonian(mapping=kind[1], up_then_down=kind[2])
    for i, c in zip(spec, coefs):
        op.terms[Q_TERMS[i]] = c
    return op


def state(op):
    return snapshot({"terms": dict(op.terms), "attrs": {k: v for k, v in op.__dict__.items() if k != "terms"}})


def expected_terms(opname, ta, tb, fermion=True):
    """algebraically correct result as a dict term -> coefficient, computed independently of the code under contract"""
    out = {}
    if opname in ("add", "sub"):
        for t, c in ta.items():
            out[t] = out.get(t, 0) + c
        for t, c in tb.items():
            out[t] = out.get(t, 0) + (c if opname == "add" else -c)
        return out
    # product: fermion words concatenate; Pauli words multiply letter-wise
    for t1, c1 in ta.items():
        for t2, c2 in tb.items():
            if fermion:
                t, ph = t1 + t2, 1
            else:
                t, ph = pauli_mul(t1, t2)
            out[t] = out.get(t, 0) + c1 * c2 * ph
    return out


_PM = {("X", "Y"): ("Z", 1j), ("Y", "Z"): ("X", 1j), ("Z", "X"): ("Y", 1j), ("Y", "X"): ("Z", -1j), ("Z", "Y"): ("X", -1j), ("X", "Z"): ("Y", -1j)}


def pauli_mul(t1, t2):
    d = dict(t1)
    ph = 1
    for q, p in t2:
        if q not in d:
            d[q] = p
        elif d[q] == p:
            del d[q]
        else:
            r, f = _PM[(d[q], p)]
            d[q] = r
            ph = ph * f
    return tuple(sorted(d.items())), ph


def check_terms(h, label, got_terms, exp):
    keys = set(got_terms) | set(exp)
    for t in sorted(keys, key=repr):
        g = got_terms.get(t, 0)
        e = exp.get(t, 0)
        if h.symbolic:
            e = e if isinstance(e, Poly) else Poly.const(e)
            if isinstance(e, Poly) and not e.is_real_valued() and not isinstance(g, Poly):
                g = Poly.const(g)
        # openfermion drops a term whose resulting coefficient is below its EQ_TOLERANCE (1e-8): compare up to that tolerance
        if h.symbolic:
            d = Poly._coerce(g) - e
            if d.is_zero():
                h.ctx.discharged(f"{h.cid}::{label}: coefficient of {t}")
            elif d.is_real_valued():
                h.check(f"{label}: coefficient of {t}", abs(d) <= 1e-8)
            else:
                h.check(f"{label}: coefficient of {t}", (abs(d.real) <= 1e-8) & (abs(d.imag) <= 1e-8))
        else:
            h.check(f"{label}: coefficient of {t}", abs(complex(g) - complex(e)) <= 1.0001e-8)


def coef_samples(st, rnd, tier):
    return [{f"{p}{i}": rnd.choice([rnd.uniform(-2, 2), 1.0, -1.0, 0.5]) for p in "ab" for i in range(4)} for _ in range(3)]


# ---------------------------------------------------------------------------------------------------------------------
# O1 FermionOperator binary arithmetic: value + frame, all operand-class combinations

F_SHAPES = [([0], [1]), ([0, 2], [0]), ([0, 3], [2, 4]), ([1], [1]), ([0, 1], [3]), ([], [0, 2]), ([1, 3], []), ([], [])]
BINOPS = ["add", "radd", "sub", "rsub", "mul", "rmul"]


def o1_structures(tier):
    sts = []
    for sa, sb in F_SHAPES:
        for ka, kb in (("tangelo", "tangelo"), ("tangelo", "of"), ("of", "tangelo")):
            for op in ("add", "sub", "mul"):
                sts.append({"a": sa, "b": sb, "ka": ka, "kb": kb, "op": op, "attrs": None})
    for op in ("add", "sub", "mul"):
        sts.append({"a": [0], "b": [1], "ka": "tangelo", "kb": "tangelo", "op": op, "attrs": [4, 2, 0]})
    return sts


def py_binop(h, op, a, b):
    import ast
    from tverif.interp import Interp
    nodes = {"add": ast.Add, "sub": ast.Sub, "mul": ast.Mult, "truediv": ast.Div, "pow": ast.Pow}
    if h.symbolic:
        try:
            return h.I.binop(nodes[op], a, b)
        except Exception as e:
            from tverif.interp import _INTERNAL
            if not isinstance(e, _INTERNAL):
                e._from_target = True
            raise
    import operator
    try:
        return {"add": operator.add, "sub": operator.sub, "mul": operator.mul, "truediv": operator.truediv, "pow": operator.pow}[op](a, b)
    except Exception as e:
        e._from_target = True
        raise


@contract("C16", "O1.FermionOperator.binary", level="S", structures=o1_structures, native_samples=coef_samples,
          targets=[(OP, "FermionOperator.__add__"), (OP, "FermionOperator.__radd__"), (OP, "FermionOperator.__sub__"), (OP, "FermionOperator.__rsub__"),
                   (OP, "FermionOperator.__mul__"), (OP, "FermionOperator.__iadd__"), (OP, "FermionOperator.__imul__"), (OP, "FermionOperator.__isub__")])
def o1(h, st):
    """a (+|-|*) b with a, b Tangelo or openfermion FermionOperators: result terms == algebraic result; both operands unchanged
    (terms and attributes); result is a new object; for every value of the coefficients"""
    ca = [h.real(f"a{i}") for i in range(len(st["a"]))]
    cb = [h.real(f"b{i}") for i in range(len(st["b"]))]
    for c in ca + cb:
        h.assume(abs(c) > 0.01)
    attrs = tuple(st["attrs"]) if st["attrs"] else (None, None, None)
    a = mk_fermion(st["ka"], st["a"], ca, attrs)
    b = mk_fermion(st["kb"], st["b"], cb, attrs)
    sa, sb = state(a), state(b)
    ta, tb = dict(a.terms), dict(b.terms)
    r = py_binop(h, st["op"], a, b)
    h.check("left operand unchanged", state(a) == sa)
    h.check("right operand unchanged", state(b) == sb)
    h.check("result is a new object", r is not a and r is not b)
    h.check("result shares no term dictionary with an operand", r.terms is not a.terms and r.terms is not b.terms)
    exp = expected_terms(st["op"], ta, tb)
    check_terms(h, st["op"], dict(r.terms), exp)
    # a later in-place update of the result must not reach the operands
    bump = mk_fermion("tangelo", [2], [1.0], attrs) if st["ka"] == "tangelo" and st["op"] != "mul" else None
    if bump is not None and type(r).__name__ == "FermionOperator" and hasattr(r, "n_spinorbitals"):
        h.call(OP, "FermionOperator.__iadd__", r, bump)
        h.check("in-place update of the result leaves the operands unchanged", state(a) == sa and state(b) == sb)
    if st["attrs"] and st["ka"] == "tangelo":
        h.check("attributes carried to the result", (r.n_spinorbitals, r.n_electrons, r.spin) == attrs)
    h.done()


@contract("C16", "O1b.FermionOperator.scalar", level="S", native_samples=coef_samples,
          structures=lambda tier: [{"a": s, "op": op, "side": side, "k": k} for s in ([0], [0, 3], [2, 4]) for op in ("add", "sub", "mul", "truediv", "neg") for side in ("left", "right")
                                   for k in ("2.0", "0", "0.0", "1", "1.0", "np0", "-1")
                                   if not (op in ("truediv", "neg") and side == "right") and not (op == "neg" and k != "2.0") and not (op == "truediv" and k in ("0", "0.0", "np0"))],
          targets=[(OP, "FermionOperator.__add__"), (OP, "FermionOperator.__radd__"), (OP, "FermionOperator.__sub__"), (OP, "FermionOperator.__rsub__"),
                   (OP, "FermionOperator.__mul__")])
def o1b(h, st):
    """scalar forms with the operator on either side (a+k, k+a, a-k, k-a, a*k, k*a, a/k, -a; k generic and the NEUTRAL elements 0, 0.0, numpy 0, 1, 1.0, and -1): correct value,
    operand unchanged, the result is a NEW object also when it has the operand's value (an in-place update of the result does not reach the operand)"""
    ca = [h.real(f"a{i}") for i in range(len(st["a"]))]
    for c in ca:
        h.assume(abs(c) > 0.01)
    a = mk_fermion("tangelo", st["a"], ca)
    sa = state(a)
    ta = dict(a.terms)
    import numpy as _np
    k = {"2.0": 2.0, "0": 0, "0.0": 0.0, "1": 1, "1.0": 1.0, "np0": _np.float64(0), "-1": -1}[st.get("k", "2.0")]
    op = st["op"]
    if op == "neg":
        import ast
        r = h.I.eval(ast.parse("-x", mode="eval").body, _env(h, {"x": a})) if h.symbolic else -a
        exp = {t: -c for t, c in ta.items()}
    else:
        r = py_binop(h, op, a, k) if st["side"] == "left" else py_binop(h, op, k, a)
        if op == "add":
            exp = dict(ta)
            exp[()] = exp.get((), 0) + k
        elif op == "sub":
            exp = dict(ta) if st["side"] == "left" else {t: -c for t, c in ta.items()}
            exp[()] = exp.get((), 0) + (-k if st["side"] == "left" else k)
        elif op == "mul":
            exp = {t: c * k for t, c in ta.items()}
        else:
            exp = {t: c / k for t, c in ta.items()}
    h.check("operand unchanged", state(a) == sa)
    h.check("result is a new object", r is not a)
    h.check("result shares no term dictionary with the operand", r.terms is not a.terms)
    check_terms(h, f"{op}/{st['side']}", dict(r.terms), exp)
    if type(r).__name__ == "FermionOperator" and hasattr(r, "n_spinorbitals"):
        h.call(OP, "FermionOperator.__imul__", r, 3.0)
        h.check("in-place update of the result leaves the operand unchanged", state(a) == sa)
    h.done()


def _env(h, vars_):
    from tverif.interp import Env
    e = Env(None, {})
    e.vars.update(vars_)
    return e


@contract("C16", "O1c.FermionOperator.chains", level="S", native_samples=coef_samples,
          structures=lambda tier: [{"a": sa, "b": sb, "chain": ch} for sa, sb in F_SHAPES[:3] for ch in ("sum_then_product", "difference_twice", "builtin_sum", "mixed")],
          targets=[(OP, "FermionOperator.__add__"), (OP, "FermionOperator.__mul__"), (OP, "FermionOperator.__sub__"), (OP, "FermionOperator.__radd__")])
def o1c(h, st):
    """chains of operations on shared operands: every intermediate result is correct and the shared operands keep their value"""
    ca = [h.real(f"a{i}") for i in range(len(st["a"]))]
    cb = [h.real(f"b{i}") for i in range(len(st["b"]))]
    for c in ca + cb:
        h.assume(abs(c) > 0.01)
    a, b = mk_fermion("tangelo", st["a"], ca), mk_fermion("tangelo", st["b"], cb)
    sa, sb = state(a), state(b)
    ta, tb = dict(a.terms), dict(b.terms)
    ch = st["chain"]
    if ch == "sum_then_product":
        s = py_binop(h, "add", a, b)
        p = py_binop(h, "mul", a, b)
        check_terms(h, "a+b", dict(s.terms), expected_terms("add", ta, tb))
        check_terms(h, "a*b after a+b", dict(p.terms), expected_terms("mul", ta, tb))
    elif ch == "difference_twice":
        d1 = py_binop(h, "sub", a, b)
        d2 = py_binop(h, "sub", a, b)
        check_terms(h, "first a-b", dict(d1.terms), expected_terms("sub", ta, tb))
        check_terms(h, "second a-b", dict(d2.terms), expected_terms("sub", ta, tb))
    elif ch == "builtin_sum":
        s = h.I.call_value(sum, [[a, b, a]], {}) if h.symbolic else sum([a, b, a])
        exp = expected_terms("add", expected_terms("add", ta, tb), ta)
        check_terms(h, "sum([a,b,a])", dict(s.terms), exp)
    else:
        x = py_binop(h, "mul", 2.0, a)
        y = py_binop(h, "sub", x, a)
        check_terms(h, "2*a - a", dict(y.terms), ta)
    h.check("shared operands unchanged at the end", state(a) == sa and state(b) == sb)
    h.done()


@contract("C16", "O2.FermionOperator.inplace", level="S", native_samples=coef_samples,
          structures=lambda tier: [{"a": sa, "b": sb, "kb": kb, "op": op} for sa, sb in F_SHAPES[:4] for kb in ("tangelo", "of", "scalar") for op in ("iadd", "isub", "imul")],
          targets=[(OP, "FermionOperator.__iadd__"), (OP, "FermionOperator.__isub__"), (OP, "FermionOperator.__imul__")])
def o2(h, st):
    """a += b, a -= b, a *= b: a holds the algebraic result, the same object is returned, b unchanged"""
    ca = [h.real(f"a{i}") for i in range(len(st["a"]))]
    cb = [h.real(f"b{i}") for i in range(len(st["b"]))]
    for c in ca + cb:
        h.assume(abs(c) > 0.01)
    a = mk_fermion("tangelo", st["a"], ca)
    b = 2.0 if st["kb"] == "scalar" else mk_fermion(st["kb"], st["b"], cb)
    sb = state(b) if st["kb"] != "scalar" else None
    ta = dict(a.terms)
    tb = {(): 2.0} if st["kb"] == "scalar" else dict(b.terms)
    name = {"iadd": "FermionOperator.__iadd__", "isub": "FermionOperator.__isub__", "imul": "FermionOperator.__imul__"}[st["op"]]
    r = h.call(OP, name, a, b)
    h.check("returns self", r is a)
    if sb is not None:
        h.check("right operand unchanged", state(b) == sb)
    exp = expected_terms({"iadd": "add", "isub": "sub", "imul": "mul"}[st["op"]], ta, tb)
    check_terms(h, st["op"], dict(a.terms), exp)
    h.done()


@contract("C16", "O3.FermionOperator.attribute_checks", level="S",
          structures=lambda tier: [{"op": op, "kb": kb} for op in ("add", "mul", "eq") for kb in ("tangelo_other_attrs", "of")],
          targets=[(OP, "FermionOperator.__iadd__"), (OP, "FermionOperator.__imul__"), (OP, "FermionOperator.__eq__")])
def o3(h, st):
    """operators with different (n_spinorbitals, n_electrons, spin) cannot be combined (RuntimeError) and compare unequal; operands unchanged"""
    a = mk_fermion("tangelo", [0], [1.5], (4, 2, 0))
    b = mk_fermion("tangelo", [0], [1.5], (4, 2, 2)) if st["kb"] != "of" else mk_fermion("of", [0], [1.5])
    sa, sb = state(a), state(b)
    if st["op"] == "eq":
        r = h.call(OP, "FermionOperator.__eq__", a, b)
        h.check("== follows the documented rule", bool(r) == (st["kb"] == "of"))
    else:
        e = h.raises(lambda: py_binop(h, st["op"], a, b), RuntimeError)
        h.check("RuntimeError raised", e is not None)
    h.check("operands unchanged", state(a) == sa and state(b) == sb)
    h.done()


# ---------------------------------------------------------------------------------------------------------------------
# O4 QubitHamiltonian with plain QubitOperator

@contract("C16", "O4.QubitHamiltonian.iadd_eq", level="S", native_samples=coef_samples,
          structures=lambda tier: [{"other": o, "op": op} for o in ("tangelo", "of", "same", "bare", "other_mapping", "other_order") for op in ("iadd", "eq", "add")],
          targets=[(OP, "QubitHamiltonian.__iadd__"), (OP, "QubitHamiltonian.__eq__"), (OP, "QubitHamiltonian.__init__")])
def o4(h, st):
    """QubitHamiltonian (+=|==|+) other: with a plain QubitOperator (Tangelo or openfermion) or a bare QubitHamiltonian the attribute check is
    ignored and the parent's behaviour applies (no exception); mismatching annotated Hamiltonians raise RuntimeError / compare unequal"""
    ca = [h.real(f"a{i}") for i in range(2)]
    cb = [h.real(f"b{i}") for i in range(2)]
    for c in ca + cb:
        h.assume(abs(c) > 0.01)
    a = mk_qubit(("ham", "JW", True), [0, 1], ca)
    o = st["other"]
    kind = {"tangelo": "tangelo", "of": "of", "same": ("ham", "jw", True), "bare": ("ham", None, None), "other_mapping": ("ham", "BK", True),
            "other_order": ("ham", "JW", False)}[o]
    b = mk_qubit(kind, [1, 2], cb)
    sb = state(b)
    ta, tb = dict(a.terms), dict(b.terms)
    mismatch = o in ("other_mapping", "other_order")
    if st["op"] == "eq":
        r = h.call(OP, "QubitHamiltonian.__eq__", a, b)
        h.check("mismatching annotations compare unequal; otherwise term comparison", bool(r) is False)
        a2 = mk_qubit(kind if not isinstance(kind, str) else kind, [0, 1], ca)
        r2 = h.call(OP, "QubitHamiltonian.__eq__", a, a2)
        h.check("equal terms compare equal unless annotations mismatch", bool(r2) == (not mismatch))
    else:
        def run():
            if st["op"] == "iadd":
                return h.call(OP, "QubitHamiltonian.__iadd__", a, b)
            return py_binop(h, "add", a, b)
        if mismatch:
            e = h.raises(run, RuntimeError)
            h.check("RuntimeError for mismatching annotations", e is not None)
        else:
            r = run()
            check_terms(h, st["op"], dict(r.terms), expected_terms("add", ta, tb))
            if st["op"] == "iadd":
                h.check("returns self", r is a)
            else:
                h.check("left operand unchanged by +", snapshot(dict(a.terms)) == snapshot(ta))
    h.check("right operand unchanged", state(b) == sb)
    h.done()


# O4b QubitHamiltonian / QubitOperator: binary and scalar forms that go through the inherited operators (which call the overridden += / ==) ------------------

@contract("C16", "O4b.QubitHamiltonian.scalar_and_binary", level="S", native_samples=coef_samples,
          structures=lambda tier: [{"cls": c, "op": op, "side": side, "k": k} for c in ("ham", "tangelo") for op in ("add", "sub", "mul", "truediv", "neg") for side in ("left", "right")
                                   for k in ("2.0", "0", "1", "-1")
                                   if not (op in ("truediv", "neg") and side == "right") and not (op == "neg" and k != "2.0") and not (op == "truediv" and k == "0")]
                                  + [{"cls": c, "op": op, "other": o} for c in ("ham", "tangelo") for op in ("add", "sub", "mul", "sum") for o in ("same", "plain", "of")],
          targets=[(OP, "QubitHamiltonian.__iadd__"), (OP, "QubitHamiltonian.__init__")])
def o4b(h, st):
    """q+k, k+q, q-k, k-q, q*k, k*q, q/k, -q (k generic and the neutral elements 0, 1, and -1) and q+r, q-r, q*r, sum([q, r, q]) for an annotated QubitHamiltonian / a plain
    Tangelo QubitOperator q: algebraically correct value, operands unchanged, the result is a NEW object sharing no term dictionary with an operand (an in-place update of the
    result does not reach the operands), and a QubitHamiltonian result carries the annotations (mapping, ordering) of q"""
    ca = [h.real(f"a{i}") for i in range(2)]
    cb = [h.real(f"b{i}") for i in range(2)]
    for c in ca + cb:
        h.assume(abs(c) > 0.01)
    kind = ("ham", "JW", True) if st["cls"] == "ham" else "tangelo"
    a = mk_qubit(kind, [0, 1], ca)
    sa, ta = state(a), dict(a.terms)
    op = st["op"]
    b = None
    if "other" in st:
        b = mk_qubit(kind if st["other"] == "same" else ("tangelo" if st["other"] == "plain" else "of"), [1, 2], cb)
        sb, tb = state(b), dict(b.terms)
        if op == "sum":
            r = h.I.call_value(sum, [[a, b, a]], {}) if h.symbolic else sum([a, b, a])
            exp = expected_terms("add", expected_terms("add", ta, tb), ta)
        else:
            r = py_binop(h, op, a, b)
            exp = expected_terms(op, ta, tb, fermion=False)
    elif op == "neg":
        import ast
        r = h.I.eval(ast.parse("-x", mode="eval").body, _env(h, {"x": a})) if h.symbolic else -a
        exp = {t: -c for t, c in ta.items()}
    else:
        k = {"2.0": 2.0, "0": 0, "1": 1, "-1": -1}[st["k"]]
        r = py_binop(h, op, a, k) if st["side"] == "left" else py_binop(h, op, k, a)
        if op == "add":
            exp = dict(ta)
            exp[()] = exp.get((), 0) + k
        elif op == "sub":
            exp = dict(ta) if st["side"] == "left" else {t: -c for t, c in ta.items()}
            exp[()] = exp.get((), 0) + (-k if st["side"] == "left" else k)
        elif op == "mul":
            exp = {t: c * k for t, c in ta.items()}
        else:
            exp = {t: c / k for t, c in ta.items()}
    h.check("left operand unchanged", state(a) == sa)
    h.check("result is a new object", r is not a and r is not b)
    h.check("result shares no term dictionary with an operand", r.terms is not a.terms and (b is None or r.terms is not b.terms))
    check_terms(h, f"{op}", dict(r.terms), exp)
    if b is not None:
        h.check("right operand unchanged", state(b) == sb)
    if st["cls"] == "ham":
        h.check("annotations carried to the result", type(r).__name__ == "QubitHamiltonian" and r.mapping == "JW" and r.up_then_down is True)
    # a later in-place update of the result must not reach the operands
    r *= 3.0
    h.check("in-place update of the result leaves the operands unchanged", state(a) == sa and (b is None or state(b) == sb))
    h.done()


# O5 conversions ------------------------------------------------------------------------------------------------------

@contract("C16", "O5.conversions", level="S", native_samples=coef_samples, structures=lambda tier: [{"spec": s} for s in ([0], [0, 1, 3], [2, 4])],
          targets=[(OP, "QubitOperator.from_openfermion"), (OP, "QubitOperator.to_openfermion"), (OP, "QubitHamiltonian.to_qubitoperator"),
                   (OP, "qubitop_to_qubitham"), (OP, "FermionOperator.to_openfermion")])
def o5(h, st):
    """conversions return a fresh object whose terms dictionary is a copy; the source is unchanged and not aliased"""
    import openfermion as of
    from tangelo.toolboxes.operators import QubitOperator, QubitHamiltonian, FermionOperator
    cs = [h.real(f"a{i}") for i in range(len(st["spec"]))]
    src = mk_qubit("of", st["spec"], cs)
    s0 = state(src)
    q = h.call(OP, "QubitOperator.from_openfermion", QubitOperator, src) if False else h.I.call_value(QubitOperator.from_openfermion, [src], {}) if h.symbolic else QubitOperator.from_openfermion(src)
    h.check("from_openfermion: class, terms copied, no aliasing", type(q) is QubitOperator and q.terms is not src.terms and snapshot(dict(q.terms)) == snapshot(dict(src.terms)))
    back = h.call(OP, "QubitOperator.to_openfermion", q)
    h.check("to_openfermion: class, terms copied", type(back) is of.QubitOperator and back.terms is not q.terms and snapshot(dict(back.terms)) == snapshot(dict(src.terms)))
    ham = h.call(OP, "qubitop_to_qubitham", q, "JW", True)
    h.check("qubitop_to_qubitham: annotated copy", type(ham) is QubitHamiltonian and ham.terms is not q.terms and ham.mapping == "JW" and ham.up_then_down is True
            and snapshot(dict(ham.terms)) == snapshot(dict(q.terms)))
    q2 = h.call(OP, "QubitHamiltonian.to_qubitoperator", ham)
    h.check("to_qubitoperator: plain copy", type(q2) is QubitOperator and q2.terms is not ham.terms and snapshot(dict(q2.terms)) == snapshot(dict(q.terms)))
    f = mk_fermion("tangelo", st["spec"], cs, (4, 2, 0))
    fo = h.call(OP, "FermionOperator.to_openfermion", f)
    h.check("FermionOperator.to_openfermion: copy", type(fo) is of.FermionOperator and fo.terms is not f.terms and snapshot(dict(fo.terms)) == snapshot(dict(f.terms)))
    h.check("source unchanged", state(src) == s0)
    h.done()


# ---------------------------------------------------------------------------------------------------------------------
# O6/O7 integer <-> stabilizer tables

@contract("C16", "O7.pauli_product_table", level="B", structures=lambda tier: [{"a": a, "b": b, "pos": pos} for a in range(4) for b in range(4) for pos in (0, 1)],
          native_samples=lambda st, rnd, tier: [{}], targets=[(MF, "MultiformOperator.__mul__"), (MF, "MultiformOperator.from_integerop")])
def o7(h, st):
    """for the integer encoding I,Z,X,Y = 0,1,2,3 (bounded exhaustive: all 16 pairs, either qubit of a 2-qubit register): the array-form product of the single Pauli letters
    sigma_a and sigma_b is phase(a,b) * sigma_{a xor b} with the phase of the 2x2 matrix product - decided by executing the real __mul__ (wherever it keeps its phase table), not
    by reading the table out of the source"""
    import numpy as np
    from tangelo.toolboxes.operators import MultiformOperator
    S = {0: np.eye(2), 1: np.array([[1, 0], [0, -1]]), 2: np.array([[0, 1], [1, 0]]), 3: np.array([[0, -1j], [1j, 0]])}
    a, b, pos = st["a"], st["b"], st["pos"]

    def one(letter, coef):
        row = [0, 0]
        row[pos] = letter
        return MultiformOperator.from_integerop(np.array([row]), np.array([coef], dtype=complex))
    ma, mb = one(a, 1.0), one(b, 1.0)
    prod = h.call(MF, "MultiformOperator.__mul__", ma, mb)
    M = S[a] @ S[b]
    c = a ^ b
    k = np.argmax(np.abs(S[c]))
    phase = M.flat[k] / S[c].flat[k]
    h.check("the matrices agree with the encoding: sigma_a sigma_b == phase * sigma_(a xor b)", np.allclose(M, phase * S[c]))
    ints = np.asarray(prod.integer)
    facs = np.asarray(prod.factors)
    keep = [i for i in range(len(facs)) if abs(facs[i]) > 1e-12]
    exp_row = [0, 0]
    exp_row[pos] = c
    h.check("one term, the letter a xor b on the same qubit", len(keep) == 1 and list(ints[keep[0]]) == exp_row, detail=f"{ints.tolist()} {facs.tolist()}")
    if len(keep) == 1:
        h.check("with the phase of the matrix product", abs(facs[keep[0]] - phase) < 1e-12, detail=f"{facs[keep[0]]} vs {phase}")
    h.done()


def small_qubit_ops(nq, maxterms):
    words = ["".join(p) for p in itertools.product("IXYZ", repeat=nq)]
    out = []
    for k in range(1, maxterms + 1):
        for combo in itertools.combinations(range(len(words)), k):
            out.append([words[i] for i in combo])
    return out


def to_term(word):
    return tuple((i, p) for i, p in enumerate(word) if p != "I")


def qop_from(words, coefs):
    from tangelo.toolboxes.operators import QubitOperator
    op = QubitOperator()
    for w, c in zip(words, coefs):
        op.terms[to_term(w)] = c
    return op


COEFS = [1.0, -1.0, 0.5, 1j]


def o8_structures(tier):
    ops = small_qubit_ops(2, 2)
    pairs = list(itertools.product(range(len(ops)), repeat=2))
    step = 29 if tier == "quick" else 5
    sts = [{"a": ops[i], "b": ops[j], "n": 2, "ca": k % 4, "cb": (k // 3) % 4} for k, (i, j) in enumerate(pairs[::step])]
    # wide registers, around the machine-word boundaries of any integer packing of a Pauli word: words that differ only on the lowest / highest qubits, and
    # products that contain duplicates to be summed
    def word(n, **at):
        w = ["I"] * n
        for k, p in at.items():
            w[int(k[1:]) if int(k[1:]) >= 0 else n + int(k[1:])] = p
        return "".join(w)
    for n in ((31, 32, 33, 64, 65) if tier == "quick" else (16, 31, 32, 33, 34, 48, 63, 64, 65, 70, 128)):
        last = n - 1
        a1 = [word(n, q0="X", **{f"q{last}": "Y"}), word(n, q1="Z", **{f"q{last}": "Y"})]
        b1 = [word(n, **{f"q{last}": "Z"})]
        a2 = [word(n, q0="X"), word(n, q0="X", **{f"q{last}": "Z"})]
        b2 = [word(n), word(n, **{f"q{last}": "Z"})]
        a3 = [word(n, q0="Y", q1="X"), word(n, q1="X", **{f"q{last - 1}": "Z"})]
        b3 = [word(n, q0="Z"), word(n, q1="Y", **{f"q{last}": "X"})]
        sts += [{"a": a1, "b": b1, "n": n, "ca": 0, "cb": 2}, {"a": a2, "b": b2, "n": n, "ca": 2, "cb": 0}, {"a": a3, "b": b3, "n": n, "ca": 3, "cb": 1}]
    return sts


@contract("C16", "O8.MultiformOperator.mul_commute", level="B", structures=o8_structures,
          native_samples=lambda st, rnd, tier: [{}],
          targets=[(MF, "MultiformOperator.__mul__"), (MF, "MultiformOperator.from_qubitop"), (MF, "do_commute"), (MF, "MultiformOperator.collapse"),
                   (MF, "qubit_to_integer"), (MF, "integer_to_binary"), (MF, "integer_to_qubit_terms")])
def o8(h, st):
    """bounded exhaustive (numpy arrays are outside the verifier's subset): array-form product == symbolic product (duplicates summed);
    do_commute(a,b) true implies [A,B] == 0 and equals 'every term pair commutes'; term_resolved flags; operands unchanged; round trip"""
    import numpy as np
    from tangelo.toolboxes.operators import MultiformOperator
    n = st["n"]
    ca = [COEFS[(st["ca"] + i) % 4] for i in range(len(st["a"]))]
    cb = [COEFS[(st["cb"] + i) % 4] for i in range(len(st["b"]))]
    qa, qb = qop_from(st["a"], ca), qop_from(st["b"], cb)
    ma = h.I.call_value(MultiformOperator.from_qubitop, [qa, n], {}) if h.symbolic else MultiformOperator.from_qubitop(qa, n)
    mb = MultiformOperator.from_qubitop(qb, n)
    h.check("round trip qubit -> integer/binary -> qubit", dict(ma.qubitoperator.terms) == dict(qa.terms) if hasattr(ma, "qubitoperator") else True)
    sa = (ma.integer.copy(), ma.binary.copy(), np.array(ma.factors).copy())
    prod = h.call(MF, "MultiformOperator.__mul__", ma, mb)
    exp = expected_terms("mul", dict(qa.terms), dict(qb.terms), fermion=False)
    exp = {t: c for t, c in exp.items() if abs(c) > 1e-12}
    got = {t: c for t, c in dict(prod.terms).items() if abs(c) > 1e-12}
    h.check("array product == symbolic product", set(got) == set(exp) and all(abs(got[t] - exp[t]) < 1e-12 for t in exp), detail=f"{got} vs {exp}")
    h.check("operands unchanged", np.array_equal(sa[0], ma.integer) and np.array_equal(sa[1], ma.binary) and np.array_equal(sa[2], ma.factors))
    # commutation
    def words_commute(w1, w2):
        return sum(1 for x, y in zip(w1, w2) if x != "I" and y != "I" and x != y) % 2 == 0
    every_pair = all(words_commute(x, y) for x in st["a"] for y in st["b"])
    r = h.call(MF, "do_commute", ma, mb)
    h.check("do_commute(a, b) == every term of a commutes with every term of b", bool(r) == every_pair, detail=f"{st['a']} {st['b']} -> {r}")
    tr = h.call(MF, "do_commute", ma, mb, True)
    h.check("term-resolved flags", [bool(x) for x in tr] == [all(words_commute(x, y) for y in st["b"]) for x in st["a"]])
    # the array form is a CONVERSION of the source operator: updating it in place (removing / compressing terms, as the tapering does with non-commuting terms) must
    # leave the source QubitOperator untouched, and the array form then describes the remaining terms
    qa_before, qb_before = dict(qa.terms), dict(qb.terms)
    n_terms = len(ma.factors)
    if n_terms >= 1:
        h.call(MF, "MultiformOperator.remove_terms", ma, [0])
        h.check("remove_terms on the array form leaves the source operator unchanged", dict(qa.terms) == qa_before and dict(qb.terms) == qb_before, detail=f"{dict(qa.terms)} vs {qa_before}")
        h.check("remove_terms removes exactly the requested term", len(ma.factors) == n_terms - 1 and len(dict(ma.terms)) == n_terms - 1 and set(dict(ma.terms)) <= set(qa_before))
    h.call(MF, "MultiformOperator.compress", mb)
    h.check("compress on the array form leaves the source operator unchanged", dict(qb.terms) == qb_before)
    h.done()


PROPERTY = {
    "level": "other",
    "explanation": "Frame conditions (operands unchanged, fresh result) and algebraic values of FermionOperator / QubitHamiltonian arithmetic are "
                   "proved for every coefficient value (symbolic coefficients; exact normal forms) on each enumerated operator shape and operand-class "
                   "combination, executing Tangelo's overrides from their AST and openfermion's SymbolicOperator natively (assumed contract). The "
                   "array-based MultiformOperator works on numpy arrays, outside the verifier's subset: bounded exhaustive native contract runs "
                   "(labelled B), plus the exhaustive 16-entry Pauli phase table decided by executing the real product. Scalar forms include the neutral elements "
                   "(0, 0.0, numpy 0, 1, 1.0) and -1; QubitOperator / QubitHamiltonian binary and scalar forms with Tangelo and openfermion operands on the right (O4b).",
    "bounds": {"quick": "operators of 1-2 terms from 5 fermionic / 5 Pauli words; all operand class combinations; array form: pairs of operators with <= 2 terms on 2 qubits (every 29th pair)",
               "thorough": "every 5th pair"},
    "assumptions": ["openfermion SymbolicOperator arithmetic executed natively on symbolic coefficients through operator overloading (assumed contract)",
                    "floats as reals", "MultiformOperator: bounded stand-in only"],
    "trusted_base": ["tverif AST interpreter", "tverif.ring", "z3", "openfermion"],
}
