"""C10 -- Mid-circuit measurement and classical control follow the Born rule."""
import itertools
import math

from tverif.engine import contract, snapshot
from tverif import qsem
from tverif.ring import Poly

BK = "tangelo/linq/target/backend.py"
TGC = "tangelo/linq/target/target_cirq.py"
C = "tangelo/linq/circuit.py"
PS = "tangelo/toolboxes/post_processing/post_selection.py"


def mk_gate(name, target, control=None, parameter="", is_variational=False):
    from tangelo.linq import Gate
    return Gate(name, target, control, parameter, is_variational)


def mk_circuit(gates, n_qubits=None, cmeasure_control=None):
    from tangelo.linq import Circuit
    return Circuit(gates, n_qubits=n_qubits, cmeasure_control=cmeasure_control)


def qubit_bit(i, q, n, order):
    return (i >> (n - 1 - q)) & 1 if order == "lsq_first" else (i >> q) & 1


# O1 collapse ------------------------------------------------------------------------------------------------------------

def o1_structures(tier):
    sts = []
    for n in (1, 2):
        for q in range(n):
            for result in (0, 1):
                for order in ("lsq_first", "msq_first"):
                    sts.append({"n": n, "q": q, "result": result, "order": order})
    return sts


@contract("C10", "O1.collapse_statevector", targets=[(BK, "collapse_statevector_to_desired_measurement")], level="S", structures=o1_structures, max_paths=50,
          native_samples=lambda st, rnd, tier: [{f"a{i}": rnd.choice([rnd.uniform(-1, 1), 0.0]) for i in range(4)} for _ in range(3)])
def o1(h, st):
    """kept indices == {i : bit_q(i) == result} (bit position per order); prob == sum_kept a_i^2; result == kept / sqrt(prob); the other entries are 0; the input
    vector is unchanged - for every (real) amplitude vector with non-negligible probability"""
    import numpy as np
    n, q, res, order = st["n"], st["q"], st["result"], st["order"]
    amps = [h.real(f"a{i}") for i in range(2 ** n)]
    if h.symbolic:
        vec = np.empty(2 ** n, dtype=object)
        for i, a in enumerate(amps):
            vec[i] = a
    else:
        vec = np.array(amps, dtype=complex)
    kept = [i for i in range(2 ** n) if qubit_bit(i, q, n, order) == res]
    p_exp = sum(amps[i] * amps[i] for i in kept)
    h.assume(p_exp > 1e-6)
    before = [x for x in vec]
    out, prob = h.call(BK, "collapse_statevector_to_desired_measurement", vec, q, res, order)
    h.check("input vector unchanged", all((Poly._coerce(a).same(b) if h.symbolic else a == b) for a, b in zip(vec, before)))
    h.check_close("probability == sum of the kept |a_i|^2", prob, p_exp, tol=1e-12)
    for i in range(2 ** n):
        if i in kept:
            # out_i * sqrt(p) == a_i  <=>  out_i^2 * p == a_i^2 and same sign
            h.check_close(f"kept amplitude {i} renormalised (squared)", out[i] * out[i] * p_exp, amps[i] * amps[i], tol=1e-12)
            h.check(f"kept amplitude {i} keeps its sign", out[i] * amps[i] >= 0)
        else:
            h.check(f"amplitude {i} of the other branch is zero", (Poly._coerce(out[i]).is_zero() if h.symbolic else out[i] == 0))
    h.done()


@contract("C10", "O1b.collapse_statevector.errors_partition", targets=[(BK, "collapse_statevector_to_desired_measurement")], level="B",
          structures=lambda tier: [{"n": n, "order": o} for n in (1, 2, 3) for o in ("lsq_first", "msq_first")],
          native_samples=lambda st, rnd, tier: [{"seed": rnd.randint(0, 10 ** 6)} for _ in range(3)])
def o1b(h, st):
    """bounded (complex amplitudes): p_0 + p_1 == ||psi||^2 for every qubit; invalid length / qubit / result / order raise ValueError; zero probability raises unless ignored"""
    import numpy as np
    rs = np.random.default_rng(int(h.integer("seed")))
    n = st["n"]
    v = rs.normal(size=2 ** n) + 1j * rs.normal(size=2 ** n)
    v = v / np.linalg.norm(v)
    for q in range(n):
        _, p0 = h.call(BK, "collapse_statevector_to_desired_measurement", v, q, 0, st["order"])
        _, p1 = h.call(BK, "collapse_statevector_to_desired_measurement", v, q, 1, st["order"])
        h.check(f"probabilities of the two outcomes of qubit {q} sum to one", abs(p0 + p1 - 1) < 1e-12)
    for args in ((np.ones(3), 0, 0, st["order"]), (v, n, 0, st["order"]), (v, 0, 2, st["order"]), (v, 0, 0, "sideways")):
        e = h.raises(lambda: h.call(BK, "collapse_statevector_to_desired_measurement", *args), ValueError)
        h.check("invalid argument rejected", e is not None)
    z = np.zeros(2 ** n, dtype=complex)
    z[0] = 1
    e = h.raises(lambda: h.call(BK, "collapse_statevector_to_desired_measurement", z, 0, 1, st["order"]), ValueError)
    h.check("zero-probability outcome raises", e is not None)
    out, p = h.call(BK, "collapse_statevector_to_desired_measurement", z, 0, 1, st["order"], True)
    h.check("zero-probability outcome ignored on request", p == 0 and not np.any(out))
    h.done()


# O2 perform_measurement -------------------------------------------------------------------------------------------------

@contract("C10", "O2.perform_measurement", targets=[(BK, "Backend.perform_measurement"), (BK, "Backend.collapse_statevector_to_desired_measurement")], level="S", max_paths=60,
          structures=lambda tier: [{"q": q, "desired": d} for q in (0, 1) for d in (None, "0", "1")],
          native_samples=lambda st, rnd, tier: [{f"a{i}": rnd.uniform(0.1, 1) for i in range(4)} for _ in range(2)])
def o2(h, st):
    """with a desired result: that branch and its probability; otherwise the draw u is opaque and the function returns ("1", collapse to 1, p_1) iff p_0 < u and
    ("0", collapse to 0, p_0) otherwise: the probability returned is always the one of the branch returned"""
    import numpy as np
    from tangelo.linq.target.target_cirq import CirqSimulator
    sim = CirqSimulator.__new__(CirqSimulator)
    n, q = 2, st["q"]
    amps = [h.real(f"a{i}") for i in range(4)]
    for a in amps:
        h.assume(a > 0.05)
        h.assume(a < 1)
    if h.symbolic:
        h.ctx.opaque_random = True
        vec = np.empty(4, dtype=object)
        for i, a in enumerate(amps):
            vec[i] = a
    else:
        vec = np.array(amps, dtype=complex)
    meas, out, prob = h.call(BK, "Backend.perform_measurement", sim, vec, q, st["desired"])
    if st["desired"] is not None:
        h.check("the desired outcome is returned", meas == st["desired"])
    h.check("outcome is a bit character", meas in ("0", "1"))
    if st["desired"] is None and h.symbolic:
        us = [p for name, p in h.ctx.inputs.items() if name.startswith("u!")]
        h.check("exactly one random draw", len(us) == 1)
        p0 = sum(amps[i] * amps[i] for i in range(4) if qubit_bit(i, q, n, "lsq_first") == 0)
        # Born rule for the draw: outcome 0 is returned exactly when u falls below p_0 (probability p_0 for a uniform draw)
        h.check("outcome 1 iff the draw is above p_0", (p0 < us[0]) if meas == "1" else (p0 >= us[0]))
    kept = [i for i in range(4) if qubit_bit(i, q, n, "lsq_first") == int(meas)]
    h.check_close("probability returned is the probability of the branch returned", prob, sum(amps[i] * amps[i] for i in kept), tol=1e-12)
    for i in range(4):
        if i not in kept:
            h.check(f"state returned lies in the branch returned (amplitude {i} zero)", (Poly._coerce(out[i]).is_zero() if h.symbolic else out[i] == 0))
    h.done()


# O3 get_unitary_circuit_pieces ------------------------------------------------------------------------------------------

SPEC = [("H", [0], None, ""), ("MEASURE", [0], None, ""), ("CNOT", [1], [0], ""), ("RY", [1], None, 0.6), ("MEASURE", [1], None, ""), ("X", [2], None, ""),
        ("CMEASURE", [2], None, {"0": [], "1": []})]


@contract("C10", "O3.get_unitary_circuit_pieces", targets=[(C, "get_unitary_circuit_pieces")], level="S",
          structures=lambda tier: [{"gates": list(g)} for L in (0, 1, 2, 3, 4) for g in itertools.product(range(len(SPEC)), repeat=L)][:: 7 if tier == "quick" else 2])
def o3(h, st):
    """concat(piece_i ++ [measure_i]) ++ last piece == the gate list; measured qubit = target[0]; flag None for MEASURE / the parameter for CMEASURE; pieces are
    copies with the circuit's width; input unchanged"""
    gates = [mk_gate(*SPEC[i]) for i in st["gates"]]
    c = mk_circuit(gates, 3)
    before = snapshot(c.__dict__)
    pieces, qubits, flags = h.call(C, "get_unitary_circuit_pieces", c)
    h.check("input unchanged", snapshot(c.__dict__) == before)
    meas = [g for g in gates if g.name in ("MEASURE", "CMEASURE")]
    h.check("one more piece than measurements", len(pieces) == len(meas) + 1 and len(qubits) == len(meas) and len(flags) == len(meas))
    rebuilt = []
    for i, p in enumerate(pieces):
        rebuilt += [(g.name, g.target, g.control) for g in p._gates]
        if i < len(meas):
            rebuilt.append((meas[i].name, meas[i].target, meas[i].control))
    h.check("pieces interleaved with the measurements reproduce the gate list", rebuilt == [(g.name, g.target, g.control) for g in gates])
    h.check("measured qubits", qubits == [g.target[0] for g in meas])
    h.check("flags", all((f is None) == (g.name == "MEASURE") for f, g in zip(flags, meas)))
    h.check("pieces have the circuit's width and fresh gates", all(h.getattr(p, "width") == 3 for p in pieces) and all(pg is not g for p in pieces for pg in p._gates for g in gates))
    h.done()


# O6 Born rule over all outcome strings ------------------------------------------------------------------------------------

PREPS = [
    [("H", [0], None, ""), ("MEASURE", [0], None, ""), ("CNOT", [1], [0], "")],
    [("RY", [0], None, 0.9), ("CNOT", [1], [0], ""), ("MEASURE", [1], None, ""), ("RX", [0], None, 0.4), ("MEASURE", [0], None, ""), ("H", [1], None, "")],
    [("RY", [0], None, 1.1), ("RY", [1], None, 2.0), ("CNOT", [2], [1], ""), ("MEASURE", [1], None, ""), ("CRY", [2], [0], 0.7), ("MEASURE", [2], None, ""), ("H", [0], None, ""), ("MEASURE", [0], None, "")],
    [("X", [0], None, ""), ("MEASURE", [0], None, ""), ("H", [1], None, "")],
]


def reference_branches(gates, n, init=None):
    """exact branching evolution: {outcome string: (probability, normalised state)}"""
    import numpy as np
    psi0 = np.zeros(2 ** n, dtype=complex)
    psi0[0] = 1
    if init is not None:
        psi0 = np.array(init, dtype=complex)
    branches = {"": (1.0, psi0)}
    for g in gates:
        new = {}
        if g.name == "MEASURE":
            q = g.target[0]
            for key, (p, psi) in branches.items():
                for bit in (0, 1):
                    v = psi.copy()
                    for i in range(2 ** n):
                        if ((i >> (n - 1 - q)) & 1) != bit:
                            v[i] = 0
                    pb = float(np.vdot(v, v).real)
                    if pb > 1e-14:
                        new[key + str(bit)] = (p * pb, v / math.sqrt(pb))
        else:
            U = qsem.to_numpy(qsem.unitary([g], n, exact=False)[0], n)
            for key, (p, psi) in branches.items():
                new[key] = (p, U @ psi)
        branches = new
    return branches


@contract("C10", "O6.simulate.born_rule", level="S", structures=lambda tier: [{"prep": p, "init": i} for p in range(len(PREPS)) for i in (False, True)],
          targets=[(BK, "Backend.simulate"), (TGC, "CirqSimulator.simulate_circuit"), (BK, "Backend.perform_measurement"), (C, "get_unitary_circuit_pieces"),
                   (PS, "split_frequency_dict"), (C, "Circuit.success_probabilities")])
def o6(h, st):
    """exact simulation conditioned on each outcome string b returns the normalised post-measurement state and final distribution of branch b and records its
    probability; the recorded probabilities sum to 1 over the reachable strings, and the probability-weighted branch distributions reproduce the unconditioned one;
    unreachable strings raise"""
    import numpy as np
    from tangelo.linq import get_backend
    gates = [mk_gate(*g) for g in PREPS[st["prep"]]]
    n = 1 + max(q for g in gates for q in g.target + (g.control or []))
    init = None
    if st["init"]:
        rs = np.random.default_rng(11)
        init = rs.normal(size=2 ** n) + 1j * rs.normal(size=2 ** n)
        init = init / np.linalg.norm(init)
    ref = reference_branches(gates, n, init)
    c = mk_circuit(gates, n)
    n_meas = sum(1 for g in gates if g.name == "MEASURE")
    sim = get_backend("cirq")
    total = 0.0
    mix = {}
    for bits in itertools.product("01", repeat=n_meas):
        key = "".join(bits)
        if key not in ref:
            e = h.raises(lambda: h.call(BK, "Backend.simulate", sim, c, True, init, key), ValueError)
            h.check(f"unreachable outcome string {key} raises", e is not None)
            continue
        freqs, sv = h.call(BK, "Backend.simulate", sim, c, True, init, key)
        p, psi = ref[key]
        probs = h.getattr(c, "success_probabilities")
        h.check(f"probability of branch {key} recorded", key in probs and abs(probs[key] - p) < 1e-9, detail=f"{probs.get(key)} vs {p}")
        ov = abs(np.vdot(np.array(sv).reshape(-1), psi))
        h.check(f"returned statevector is the normalised state of branch {key}", abs(ov - 1) < 1e-9 and abs(np.linalg.norm(sv) - 1) < 1e-9)
        exp = {format(i, f"0{n}b"): abs(psi[i]) ** 2 for i in range(2 ** n) if abs(psi[i]) ** 2 > 1e-10}
        h.check(f"final distribution of branch {key}", set(freqs) == set(exp) and all(abs(freqs[k] - exp[k]) < 1e-9 for k in exp), detail=f"{freqs} vs {exp}")
        h.check("mid-circuit frequencies record the selected string", sim.mid_circuit_meas_freqs == {key: 1.0} or abs(sim.mid_circuit_meas_freqs.get(key, 0) - 1) < 1e-9)
        total += probs[key]
        for k, v in freqs.items():
            mix[k] = mix.get(k, 0) + probs[key] * v
    h.check("branch probabilities sum to one", abs(total - 1) < 1e-9, detail=str(total))
    uncond = {}
    for key, (p, psi) in ref.items():
        for i in range(2 ** n):
            if abs(psi[i]) ** 2 > 1e-12:
                uncond[format(i, f"0{n}b")] = uncond.get(format(i, f"0{n}b"), 0) + p * abs(psi[i]) ** 2
    h.check("probability-weighted branch distributions reproduce the unconditioned distribution",
            all(abs(mix.get(k, 0) - uncond.get(k, 0)) < 1e-9 for k in set(mix) | set(uncond)))
    h.done()


# O7 measurement-controlled operations --------------------------------------------------------------------------------------

def make_cmeasure_circuit(kind):
    from tangelo.linq import Gate, Circuit
    from tangelo.linq.circuit import ClassicalControl
    if kind == "dict":
        g = [Gate("H", 0), Gate("CMEASURE", 0, parameter={"0": [Gate("X", 1)], "1": [Gate("Y", 1), Gate("H", 1)]}), Gate("Z", 1)]
        return Circuit(g, n_qubits=2), lambda m: ([("X", [1])] if m == "0" else [("Y", [1]), ("H", [1])])
    if kind == "function":
        def ctrl(m):
            return [Gate("X", 1)] if m == "1" else []
        g = [Gate("RY", 0, parameter=1.0), Gate("CMEASURE", 0), Gate("H", 1)]
        return Circuit(g, n_qubits=2, cmeasure_control=ctrl), lambda m: ([("X", [1])] if m == "1" else [])
    if kind == "class":
        class Ctl(ClassicalControl):
            def __init__(self):
                self.seen = []
            def return_gates(self, measurement):
                self.seen.append(measurement)
                return [Gate("X", 1)] if measurement == "0" else [Gate("Z", 1)]
            def finalize(self):
                self.seen = []
        g = [Gate("H", 0), Gate("CMEASURE", 0), Gate("H", 1)]
        return Circuit(g, n_qubits=2, cmeasure_control=Ctl()), lambda m: ([("X", [1])] if m == "0" else [("Z", [1])])
    if kind == "nested":
        inner = {"0": [], "1": [Gate("X", 0)]}
        g = [Gate("H", 0), Gate("CMEASURE", 0, parameter={"0": [Gate("H", 1), Gate("CMEASURE", 1, parameter=inner)], "1": [Gate("X", 1)]}), Gate("Z", 0)]
        return Circuit(g, n_qubits=2), None
    raise ValueError(kind)


@contract("C10", "O7.cmeasure.applied_gates", level="S", structures=lambda tier: [{"kind": k, "desired": d} for k in ("dict", "function", "class") for d in ("0", "1")] +
          [{"kind": "nested", "desired": d} for d in ("00", "01", "1")],
          targets=[(TGC, "CirqSimulator.simulate_circuit"), (BK, "Backend.simulate"), (C, "Circuit.controlled_measurement_op"), (C, "generate_applied_gates"), (C, "Circuit.applied_gates")])
def o7(h, st):
    """with measurement-controlled operations and a desired outcome string, the gates applied are exactly those selected by the outcomes (dictionary, function and
    class control, one nested level); generate_applied_gates agrees with the simulation; the final distribution is the one of that gate sequence"""
    import numpy as np
    from tangelo.linq import get_backend
    c, select = make_cmeasure_circuit(st["kind"])
    sim = get_backend("cirq")
    d = st["desired"]
    try:
        freqs, sv = h.call(BK, "Backend.simulate", sim, c, True, None, d)
    except ValueError as e:
        if "zero" in str(e).lower():
            h.check("outcome has zero probability: refused", True)
            h.done()
            return
        raise
    applied = h.getattr(c, "applied_gates")
    sig = [(g.name, g.target) for g in applied if g.name not in ("CMEASURE", "MEASURE")]
    meas = [g.parameter for g in applied if g.name in ("CMEASURE", "MEASURE")]
    h.check("measurement outcomes recorded in the applied gates", "".join(meas) == d, detail=str(meas))
    if select is not None:
        pre = [(g.name, g.target) for g in c._gates[:1]]
        post = [(g.name, g.target) for g in c._gates[2:]]
        h.check("applied gates == gates before ++ selected gates ++ gates after", sig == pre + select(d) + post, detail=str(sig))
    else:
        exp = {"00": [("H", [0]), ("H", [1]), ("Z", [0])], "01": [("H", [0]), ("H", [1]), ("X", [0]), ("Z", [0])], "1": [("H", [0]), ("X", [1]), ("Z", [0])]}[d]
        h.check("nested control: applied gates follow both outcomes", sig == exp, detail=str(sig))
    gen = h.call(C, "generate_applied_gates", c, d)
    h.check("generate_applied_gates agrees with the simulation", [(g.name, g.target, g.parameter if g.name in ("CMEASURE", "MEASURE") else None) for g in gen] ==
            [(g.name, g.target, g.parameter if g.name in ("CMEASURE", "MEASURE") else None) for g in applied])
    # reference: project on the outcomes while applying the applied gates
    n = 2
    psi = np.zeros(4, dtype=complex)
    psi[0] = 1
    for g in applied:
        if g.name in ("CMEASURE", "MEASURE"):
            q, bit = g.target[0], int(g.parameter)
            for i in range(4):
                if ((i >> (n - 1 - q)) & 1) != bit:
                    psi[i] = 0
            psi = psi / np.linalg.norm(psi)
        else:
            psi = qsem.to_numpy(qsem.unitary([g], n, exact=False)[0], n) @ psi
    exp = {format(i, "02b"): abs(psi[i]) ** 2 for i in range(4) if abs(psi[i]) ** 2 > 1e-10}
    h.check("final distribution is the one of the applied gate sequence", set(freqs) == set(exp) and all(abs(freqs[k] - exp[k]) < 1e-9 for k in exp), detail=f"{freqs} vs {exp}")
    h.done()


# O7b nested control against the defining recursion -------------------------------------------------------------------------

def _G(*a, **k):
    from tangelo.linq import Gate
    return Gate(*a, **k)


def nested_circuits():
    """measurement-controlled programs (dictionary control) with nesting, gates trailing an inner CMEASURE inside a selected branch, non-commuting trailing
    groups, and top-level MEASURE / CMEASURE gates remaining after a nested one. (name, gate list, width)"""
    G = _G
    inner_x0 = {"0": [], "1": [G("X", 0)]}
    return [
        ("inner_last", [G("H", 0), G("CMEASURE", 0, parameter={"0": [G("H", 1), G("CMEASURE", 1, parameter=inner_x0)], "1": [G("X", 1)]}), G("Z", 0)], 2),
        ("trailing_after_inner", [G("H", 0), G("CMEASURE", 0, parameter={"0": [], "1": [G("H", 1), G("CMEASURE", 1, parameter=inner_x0), G("CNOT", 1, control=0)]})], 2),
        ("trailing_both_levels", [G("H", 0), G("CMEASURE", 0, parameter={"0": [G("X", 1)], "1": [G("H", 1), G("CMEASURE", 1, parameter={"0": [G("H", 0)], "1": [G("X", 0), G("H", 0)]}),
                                                                                     G("CNOT", 1, control=0), G("RY", 0, parameter=0.7)]}), G("H", 1)], 2),
        ("measure_after_nested", [G("X", 0), G("CMEASURE", 0, parameter={"0": [], "1": [G("H", 1), G("CMEASURE", 1, parameter={"0": [], "1": []}), G("X", 2)]}),
                                  G("MEASURE", 2), G("H", 1)], 3),
        ("cmeasure_after_nested", [G("H", 0), G("CMEASURE", 0, parameter={"0": [G("X", 2)], "1": [G("H", 1), G("CMEASURE", 1, parameter={"0": [G("X", 2)], "1": []}), G("H", 2)]}),
                                   G("CMEASURE", 2, parameter={"0": [], "1": [G("X", 0)]}), G("H", 0), G("MEASURE", 1), G("X", 1)], 3),
        ("three_levels", [G("H", 0), G("CMEASURE", 0, parameter={"0": [], "1": [G("H", 1), G("CMEASURE", 1, parameter={"0": [G("X", 1)], "1": [G("H", 2), G("CMEASURE", 2, parameter={
            "0": [G("X", 0)], "1": [G("H", 0)]}), G("CNOT", 0, control=2)]}), G("CNOT", 2, control=1)]}), G("MEASURE", 0)], 3),
    ]


def selected_gates(gates, outcomes):
    """the defining recursion of measurement control: a (C)MEASURE consumes the next outcome; the gates of the selected branch follow it immediately, in order,
    before anything that comes after the CMEASURE at its own level. Returns [(name, target, control, parameter-or-outcome)]"""
    out = []
    for g in gates:
        if g.name == "MEASURE":
            if not outcomes:
                raise IndexError
            out.append(("MEASURE", list(g.target), None, outcomes.pop(0)))
        elif g.name == "CMEASURE":
            if not outcomes:
                raise IndexError
            b = outcomes.pop(0)
            out.append(("CMEASURE", list(g.target), None, b))
            out += selected_gates(g.parameter[b], outcomes)
        else:
            out.append((g.name, list(g.target), g.control, g.parameter))
    return out


def outcome_strings(gates):
    """all complete outcome strings of the program"""
    res = []

    def rec(prefix):
        try:
            o = list(prefix)
            selected_gates(gates, o)
        except IndexError:
            rec(prefix + "0")
            rec(prefix + "1")
            return
        res.append(prefix)
    rec("")
    return res


def branch_reference(gates, n, d, init=None):
    """(selected gate sequence, final state, probability) of the branch with outcome string d: Born-rule evolution of the defining recursion"""
    import numpy as np
    exp = selected_gates(gates, list(d))
    psi = np.zeros(2 ** n, dtype=complex)
    psi[0] = 1
    if init is not None:
        psi = np.array(init, dtype=complex)
    prob = 1.0
    for (gn, tg, ct, par) in exp:
        if gn in ("MEASURE", "CMEASURE"):
            q, bit = tg[0], int(par)
            for i in range(2 ** n):
                if ((i >> (n - 1 - q)) & 1) != bit:
                    psi[i] = 0
            p = float(np.linalg.norm(psi) ** 2)
            prob *= p
            if p < 1e-12:
                return exp, psi, 0.0
            psi = psi / np.sqrt(p)
        else:
            psi = qsem.to_numpy(qsem.unitary([mk_gate(gn, tg, ct, par)], n, exact=False)[0], n) @ psi
    return exp, psi, prob


def o7b_structures(tier):
    sts = []
    for k, (name, gates, n) in enumerate(nested_circuits()):
        for s in outcome_strings(gates):
            sts.append({"circuit": name, "k": k, "desired": s, "init": False})
            sts.append({"circuit": name, "k": k, "desired": s, "init": True})
    return sts


@contract("C10", "O7b.cmeasure.nested.defining_recursion", level="S", structures=o7b_structures,
          targets=[(TGC, "CirqSimulator.simulate_circuit"), (BK, "Backend.simulate"), (C, "generate_applied_gates"), (C, "get_unitary_circuit_pieces"), (C, "Circuit.applied_gates")])
def o7b(h, st):
    """nested measurement control (up to three levels, gates trailing an inner CMEASURE, further top-level measurements afterwards), every complete outcome string:
    the applied gates are exactly, and in the order of, the defining recursion (branch gates directly after their CMEASURE); generate_applied_gates returns the same
    list; the recorded probability and the final state are those of the Born-rule evolution of that gate sequence - from |0...0> or from a supplied (random complex) initial
    statevector, which is left unchanged; zero-probability strings are refused"""
    import numpy as np
    from tangelo.linq import get_backend
    name, gates, n = nested_circuits()[st["k"]]
    d = st["desired"]
    init = None
    if st.get("init"):
        rs = np.random.default_rng(11 + st["k"])
        init = rs.normal(size=2 ** n) + 1j * rs.normal(size=2 ** n)
        init = init / np.linalg.norm(init)
    exp, psi, prob = branch_reference(gates, n, d, init)
    c = mk_circuit(gates, n)
    sim = get_backend("cirq")
    if prob < 1e-12:
        e = h.raises(lambda: h.call(BK, "Backend.simulate", sim, c, True, init, d), ValueError)
        h.check("outcome string of zero probability is refused", e is not None)
        h.done()
        return
    init_before = None if init is None else init.copy()
    freqs, sv = h.call(BK, "Backend.simulate", sim, c, True, init, d)
    applied = h.getattr(c, "applied_gates")
    if init is not None:
        h.check("caller's initial statevector unchanged", np.array_equal(init, init_before))

    def sig(gs):
        return [(g.name, list(g.target), g.control, g.parameter) for g in gs]
    h.check("applied gates == defining recursion (selected branch gates directly after their CMEASURE)", sig(applied) == exp, detail=f"{sig(applied)} vs {exp}")
    gen = h.call(C, "generate_applied_gates", c, d)
    h.check("generate_applied_gates == defining recursion", sig(gen) == exp, detail=f"{sig(gen)} vs {exp}")
    probs = h.getattr(c, "success_probabilities")
    h.check("recorded branch probability", d in probs and abs(probs[d] - prob) < 1e-9, detail=f"{probs} vs {prob}")
    sv = np.asarray(sv)
    h.check("final state is the Born-rule state of the branch", abs(abs(np.vdot(psi, sv)) - 1) < 1e-7 and abs(np.linalg.norm(sv) - 1) < 1e-7, detail=f"{sv} vs {psi}")
    expf = {format(i, f"0{n}b"): abs(psi[i]) ** 2 for i in range(2 ** n) if abs(psi[i]) ** 2 > 1e-10}
    h.check("final distribution of the branch", set(freqs) == set(expf) and all(abs(freqs[k] - expf[k]) < 1e-7 for k in expf), detail=f"{freqs} vs {expf}")
    h.done()


@contract("C10", "O8b.sampled.nested_control", level="B", structures=lambda tier: [{"k": k, "save": sv} for k in range(len(nested_circuits())) for sv in (False, True)],
          native_samples=lambda st, rnd, tier: [{"seed": rnd.randint(0, 10 ** 6)} for _ in range(1 if tier == "quick" else 4)],
          targets=[(BK, "Backend.simulate"), (TGC, "CirqSimulator.simulate_circuit"), (PS, "split_frequency_dict")])
def o8b(h, st):
    """bounded (sampled runs of the nested measurement-controlled programs, 30 shots): every sampled mid-circuit string is a complete outcome string of non-zero
    probability and the probability recorded for it is the exact branch probability; sampled final bitstrings lie in the support of a sampled branch; frequencies are
    multiples of 1/n_shots summing to 1; with save_mid_circuit_meas the joint strings are (branch string) ++ (bitstring in that branch's support)"""
    import numpy as np
    from tangelo.linq import get_backend
    np.random.seed(int(h.integer("seed")) % (2 ** 31))
    name, gates, n = nested_circuits()[st["k"]]
    ref = {}
    for d in outcome_strings(gates):
        _, psi, prob = branch_reference(gates, n, d)
        if prob > 1e-12:
            ref[d] = (prob, {format(i, f"0{n}b") for i in range(2 ** n) if abs(psi[i]) ** 2 > 1e-12})
    c = mk_circuit(gates, n)
    shots = 30
    sim = get_backend("cirq", n_shots=shots)
    freqs, _ = h.call(BK, "Backend.simulate", sim, c, False, None, None, st["save"])
    h.check("frequencies sum to one", abs(sum(freqs.values()) - 1) < 1e-9)
    h.check("multiples of 1/n_shots", all(abs(v * shots - round(v * shots)) < 1e-9 for v in freqs.values()))
    probs = h.getattr(c, "success_probabilities")
    h.check("sampled outcome strings are complete strings of non-zero probability", set(probs) <= set(ref), detail=f"{set(probs) - set(ref)}")
    h.check("probability recorded for a sampled string is the exact branch probability", all(abs(probs[d] - ref[d][0]) < 1e-9 for d in probs if d in ref),
            detail=str({d: (probs[d], ref[d][0]) for d in probs if d in ref}))
    support = set().union(*[ref[d][1] for d in probs if d in ref]) if probs else set()
    h.check("sampled final bitstrings lie in the support of the sampled branches", set(freqs) <= support, detail=f"{set(freqs) - support}")
    if st["save"]:
        mid = sim.mid_circuit_meas_freqs
        h.check("mid-circuit frequencies: reachable strings, sum one", set(mid) <= set(ref) and abs(sum(mid.values()) - 1) < 1e-9, detail=str(mid))
        allf = sim.all_frequencies
        ok = all(any(k.startswith(d) and len(k) == len(d) + n and k[len(d):] in ref[d][1] for d in ref) for k in allf)
        h.check("joint strings == branch string ++ bitstring in that branch's support", ok, detail=str(allf))
    h.done()


@contract("C10", "O8.sampled.support", level="B", structures=lambda tier: [{"prep": p, "save": s} for p in range(len(PREPS)) for s in (False, True)],
          native_samples=lambda st, rnd, tier: [{"seed": rnd.randint(0, 10 ** 6)}],
          targets=[(BK, "Backend.simulate"), (TGC, "CirqSimulator.simulate_circuit")])
def o8(h, st):
    """bounded: with finite shots every sampled outcome lies in the support of the exact branch distributions, frequencies sum to 1 and are multiples of 1/n_shots"""
    import numpy as np
    from tangelo.linq import get_backend
    np.random.seed(int(h.integer("seed")) % (2 ** 31))
    gates = [mk_gate(*g) for g in PREPS[st["prep"]]]
    n = 1 + max(q for g in gates for q in g.target + (g.control or []))
    ref = reference_branches(gates, n)
    c = mk_circuit(gates, n)
    shots = 40
    sim = get_backend("cirq", n_shots=shots)
    freqs, _ = h.call(BK, "Backend.simulate", sim, c, False, None, None, st["save"])
    h.check("frequencies sum to one", abs(sum(freqs.values()) - 1) < 1e-9)
    h.check("multiples of 1/n_shots", all(abs(v * shots - round(v * shots)) < 1e-9 for v in freqs.values()))
    support = set()
    for key, (p, psi) in ref.items():
        for i in range(2 ** n):
            if abs(psi[i]) ** 2 > 1e-12:
                support.add(format(i, f"0{n}b"))
    h.check("sampled outcomes lie in the exact support", set(freqs) <= support, detail=f"{set(freqs) - support}")
    if st["save"]:
        mid = sim.mid_circuit_meas_freqs
        h.check("sampled mid-circuit strings are reachable outcome strings", set(mid) <= set(ref), detail=str(mid))
        h.check("mid-circuit frequencies sum to one", abs(sum(mid.values()) - 1) < 1e-9)
    h.done()


@contract("C10", "O9.sampled.wide_registers.deterministic", level="B",
          structures=lambda tier: [{"n": n, "n_meas": m, "save": sv, "desired": d, "init": it} for n, m in ((9, 2), (8, 3), (10, 1), (7, 4), (11, 2), (3, 1)) for sv in (True, False)
                                   for d in (False, True) for it in (False, True) if (sv or not d) and (not it or n in (3, 7, 9))][:: 1 if tier != "quick" else 1]
                                  # a noise model (all rates zero, so that every outcome stays certain) sends the desired-outcome request through the density-matrix route
                                  + [{"n": n, "n_meas": m, "save": True, "desired": True, "init": it, "noisy": True} for n, m in ((3, 1), (4, 2), (5, 3)) for it in (False, True)]
                                  # one shot with the statevector returned next to the saved mid-circuit record (the only shot number for which that combination is defined)
                                  + [{"n": n, "n_meas": m, "save": True, "desired": d, "init": it, "one_shot_sv": True} for n, m in ((3, 1), (5, 2)) for d in (False, True) for it in (False, True)],
          native_samples=lambda st, rnd, tier: [{"seed": rnd.randint(0, 10 ** 6)}],
          targets=[(BK, "Backend.simulate"), (TGC, "CirqSimulator.simulate_circuit")])
def o9(h, st):
    """bounded: CLASSICAL (X / CNOT only) circuits with mid-circuit MEASURE gates on registers wide enough that measurements + width exceeds ten: every outcome is certain, so
    sampled mode (with and without saved mid-circuit measurements, with and without a desired outcome string, from |0...0> or from a user-supplied basis state) must report exactly the one final bitstring of the classical
    evolution with frequency one - each bit under its own qubit, whatever the number of measurement records -, the one mid-circuit string, and their concatenation as joint string"""
    import random
    import numpy as np
    from tangelo.linq import get_backend
    rnd = random.Random(int(h.integer("seed")) + 7 * st["n"])
    np.random.seed(int(h.integer("seed")) % (2 ** 31))
    n, n_meas = st["n"], st["n_meas"]
    bits = [0] * n
    init_sv = None
    if st.get("init"):
        # a user-supplied initial state: a random computational basis state (qubit 0 is the most significant bit of a cirq statevector index)
        bits = [rnd.randrange(2) for _ in range(n)]
        init_sv = np.zeros(2 ** n, dtype=complex)
        init_sv[int("".join(str(b) for b in bits), 2)] = 1.0
    gates, mid = [], ""
    meas_left = n_meas
    for step in range(3 * n):
        if rnd.random() < 0.6:
            q = rnd.randrange(n)
            gates.append(mk_gate("X", q))
            bits[q] ^= 1
        else:
            a, b = rnd.sample(range(n), 2)
            gates.append(mk_gate("CNOT", b, a))
            bits[b] ^= bits[a]
        if meas_left and step % (3 * n // (n_meas + 1)) == 1:
            q = rnd.randrange(n)
            gates.append(mk_gate("MEASURE", q))
            mid += str(bits[q])
            meas_left -= 1
    while meas_left:
        q = rnd.randrange(n)
        gates.append(mk_gate("MEASURE", q))
        mid += str(bits[q])
        meas_left -= 1
        gates.append(mk_gate("X", (q + 1) % n))
        bits[(q + 1) % n] ^= 1
    final = "".join(str(b) for b in bits)
    c = mk_circuit(gates, n)
    shots = 12
    if st.get("noisy"):
        from tangelo.linq.noisy_simulation import NoiseModel
        nm = NoiseModel()
        nm.add_quantum_error("X", "pauli", [0.0, 0.0, 0.0])
        nm.add_quantum_error("CNOT", "depol", 0.0)
        sim = get_backend("cirq", n_shots=shots, noise_model=nm)
    else:
        sim = get_backend("cirq", n_shots=shots)
    desired = mid if st["desired"] else None
    if st.get("one_shot_sv"):
        sim = get_backend("cirq", n_shots=1)
        freqs, sv = h.call(BK, "Backend.simulate", sim, c, True, init_sv, desired, True)
        exp_sv = np.zeros(2 ** n, dtype=complex)
        exp_sv[int(final, 2)] = 1.0
        h.check("one shot: the returned statevector is the certain final basis state (up to a phase)", sv is not None and abs(abs(np.vdot(exp_sv, np.asarray(sv).reshape(-1))) - 1) < 1e-9)
    else:
        freqs, _ = h.call(BK, "Backend.simulate", sim, c, False, init_sv, desired, st["save"])
    freqs = {k: v for k, v in freqs.items() if abs(v) > 1e-12}
    h.check("the certain final bitstring (qubit 0 first) with frequency one", set(freqs) == {final} and abs(freqs[final] - 1) < 1e-9, detail=f"{freqs} vs {final}")
    if st["save"]:
        midf = {k: v for k, v in sim.mid_circuit_meas_freqs.items() if abs(v) > 1e-12}
        h.check("the certain mid-circuit string with frequency one", set(midf) == {mid} and abs(midf[mid] - 1) < 1e-9, detail=f"{midf} vs {mid}")
        allf = {k: v for k, v in sim.all_frequencies.items() if abs(v) > 1e-12}
        h.check("joint string == mid-circuit string ++ final bitstring", set(allf) == {mid + final}, detail=f"{allf} vs {mid + final}")
    h.done()


# ---------------------------------------------------------------------------------------------------------------------
# P1  get_unitary_circuit_pieces on a circuit of ANY length (loop cut; the constructor under its own contract C11.P4)

from tverif.engine import GhostList, Opaque, stub
from tverif.interp import GhostIterable


class _PiecesLoop(GhostIterable):
    managed = ("circuits", "gates", "measure_qubits", "cmeasure_flags")

    def __init__(self, h, g, w, init_calls):
        self.h, self.g, self.w, self.init_calls = h, g, w, init_calls
        self.gb = snapshot(g.__dict__)
        self.iterations = 0

    def element(self):
        self.iterations += 1
        return self.g

    def init(self, interp, env):
        self.h.check("on loop entry: four empty, distinct lists", all(env.lookup(k) == [] for k in self.managed) and len({id(env.lookup(k)) for k in self.managed}) == 4)
        self.h.check("on loop entry: no circuit constructed yet", self.init_calls == [])

    def havoc(self, interp, env):
        self.lists = {k: GhostList(k) for k in self.managed}
        for k, v in self.lists.items():
            env.assign(k, v)

    def step(self, interp, env, broke):
        h, g, L = self.h, self.g, self.lists
        h.check("the loop does not stop early", not broke)
        h.check("source gate unchanged", snapshot(g.__dict__) == self.gb)
        for k in ("circuits", "measure_qubits", "cmeasure_flags"):
            h.shape(f"{k}: prefix kept (not rebound)", env.lookup(k) is L[k])
        if g.name not in ("MEASURE", "CMEASURE"):
            h.check("unitary gate: nothing recorded as a measurement, no circuit closed", all(L[k].appended == [] for k in ("circuits", "measure_qubits", "cmeasure_flags")) and self.init_calls == [])
            h.check("unitary gate: current piece kept and extended by exactly one gate", env.lookup("gates") is L["gates"] and len(L["gates"].appended) == 1)
            if len(L["gates"].appended) == 1:
                c = L["gates"].appended[0]
                h.check("unitary gate: the appended gate is a fresh field-wise copy", c is not g and (c.name, c.target, c.control, c.parameter, c.is_variational) == (g.name, g.target, g.control, g.parameter, g.is_variational)
                        and c.target is not g.target)
        else:
            h.check("measurement: exactly one circuit closed, constructed from a deep copy of the current piece with the source's width", len(self.init_calls) == 1
                    and len(L["circuits"].appended) == 1 and L["circuits"].appended[0] is self.init_calls[0][0][0])
            if len(self.init_calls) == 1:
                a, k = self.init_calls[0]
                gates_arg = a[1] if len(a) > 1 else k.get("gates")
                h.check("measurement: the closed piece holds (a copy of) all gates accumulated since the last measurement, nothing added",
                        isinstance(gates_arg, Opaque) and gates_arg._info.get("of") is L["gates"] and gates_arg._info.get("appended") == [])
                h.check("measurement: closed piece has the source's width", (k.get("n_qubits") if "n_qubits" in k else (a[2] if len(a) > 2 else None)) is self.w)
            cur = env.lookup("gates")
            h.check("measurement: a new empty piece is started (a fresh list, or the old one emptied after it was copied)",
                    (cur == [] and cur is not L["gates"] and L["gates"].appended == []) if not isinstance(cur, GhostList) else (cur is L["gates"] and cur.cleared and cur.appended == []))
            h.check("measurement: measured qubit = first target", len(L["measure_qubits"].appended) == 1 and L["measure_qubits"].appended[0] is g.target[0])
            h.check("measurement: flag None for MEASURE, the gate's parameter for CMEASURE", len(L["cmeasure_flags"].appended) == 1
                    and (L["cmeasure_flags"].appended[0] is None if g.name == "MEASURE" else L["cmeasure_flags"].appended[0] is g.parameter))
        self.init_calls.clear()


@contract("C10", "P1.get_unitary_circuit_pieces.any_length", targets=[(C, "get_unitary_circuit_pieces")], level="P",
          structures=lambda tier: [{"name": n} for n in ("H", "RY", "CNOT", "CRZ", "SWAP", "MEASURE", "CMEASURE", "XX", "CSWAP")])
def p1(h, st):
    """for a circuit of ANY length: the four accumulators start empty; one generic iteration on a generic gate (any kind, symbolic qubit indices), from arbitrary accumulated
    prefixes: a unitary gate is appended (as a fresh copy) to the current piece and nothing else changes; a MEASURE / CMEASURE closes the current piece - Circuit(deep copy of
    the accumulated gates, width of the source) appended to the pieces -, records its first target and its flag (None / the parameter) and starts a new empty piece; after the
    loop the last piece is closed the same way and (pieces, qubits, flags) returned. By induction: concat(piece_i ++ [measure_i]) ++ last piece == the gate list"""
    if not h.symbolic:
        h.check("native: covered by O3", True)
        h.done()
        return
    from tangelo.linq import Gate, Circuit
    name = st["name"]
    nt = 2 if name in ("SWAP", "XX", "CSWAP") else 1
    nc = 1 if name.startswith("C") and name != "CMEASURE" else 0
    qs = [h.integer(f"q{i}") for i in range(nt + nc)]
    for q in qs:
        h.assume(q >= 0)
    for a, b in itertools.combinations(qs, 2):
        h.assume(a != b)
    par = {"RY": h.real("theta"), "CRZ": h.real("theta"), "XX": h.real("theta"), "CMEASURE": {"0": [], "1": []}}.get(name, "")
    g = Gate.__new__(Gate)
    g.__dict__ = {"name": name, "target": list(qs[:nt]), "control": (list(qs[nt:]) if nc else None), "parameter": par, "is_variational": False}
    init_calls = []
    w = h.integer("w")
    stub(h, C, "Circuit.__init__", lambda a, k: None, log=init_calls)
    stub(h, C, "Circuit.width", lambda a, k: w)
    proto = _PiecesLoop(h, g, w, init_calls)
    src = Circuit.__new__(Circuit)
    src.__dict__ = {"_gates": proto}
    out = h.call(C, "get_unitary_circuit_pieces", src)
    h.shape("the loop body was entered once for the generic gate", proto.iterations == 1)
    h.check("after the loop: the last piece is closed and appended", len(init_calls) == 1 and len(proto.lists["circuits"].appended) == (2 if name in ("MEASURE", "CMEASURE") else 1) and proto.lists["circuits"].appended[-1] is init_calls[0][0][0])
    if len(init_calls) == 1:
        a, k = init_calls[0]
        gates_arg = a[1] if len(a) > 1 else k.get("gates")
        cur = proto.lists["gates"]
        if name in ("MEASURE", "CMEASURE"):
            h.check("after the loop: last piece = the (empty) piece started by the measurement", gates_arg == [] or (isinstance(gates_arg, Opaque) and gates_arg._info.get("of") is cur and cur.cleared and gates_arg._info.get("appended") == []))
        else:
            h.check("after the loop: last piece = copy of the current piece", isinstance(gates_arg, Opaque) and gates_arg._info.get("of") is cur)
        h.check("after the loop: last piece has the source's width", (k.get("n_qubits") if "n_qubits" in k else (a[2] if len(a) > 2 else None)) is w)
    h.check("(pieces, measured qubits, flags) returned", isinstance(out, tuple) and len(out) == 3 and out[0] is proto.lists["circuits"] and out[1] is proto.lists["measure_qubits"]
            and out[2] is proto.lists["cmeasure_flags"])
    h.done()


# (get_unitary_circuit_pieces hands out the CMEASURE parameters of the source circuit by reference - by design: they are the caller's control objects -, so it is not
#  registered for the consume-and-repeat probe)

PROPERTY = {
    "level": "other",
    "explanation": "Collapse and the measurement step are proved for every (real) amplitude vector with the random draw opaque (z3, nonlinear reals); the splitting of a circuit at "
                   "its measurements is checked on every enumerated gate list. The Born-rule sums over all outcome strings, classical control (dictionary / function / class / "
                   "nested) and sampled runs execute the real backend code from the AST with cirq native and are compared with an independent exact branching evolution: bounded. Unbounded: get_unitary_circuit_pieces on circuits of ANY length (P1, loop cut with the four accumulators as ghost lists). Wide deterministic sampled runs (O9) also start from user-supplied basis states and go through the noise-model (density-matrix) route with desired outcomes.",
    "bounds": {"quick": "collapse on 1-2 qubits symbolically (3 qubits, complex, natively); 4 circuits with 1-3 MEASURE gates on <= 3 qubits, all outcome strings, with and without initial statevector; 4 control styles",
               "thorough": "same"},
    "assumptions": ["cirq simulator executed natively (assumed; see C01)", "np.linalg.norm on symbolic vectors modelled as sqrt(sum |x|^2); np.random.random opaque", "floats as reals; tolerance 1e-9 on simulated values"],
    "trusted_base": ["tverif AST interpreter", "tverif.ring / qsem", "z3", "cirq"],
}
