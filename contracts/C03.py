"""C03 -- Fermion-to-qubit encodings are faithful representations."""
import itertools

from tverif.engine import contract, snapshot

MT = "tangelo/toolboxes/qubit_mappings/mapping_transform.py"
JK = "tangelo/toolboxes/qubit_mappings/jkmn.py"
SC = "tangelo/toolboxes/qubit_mappings/symmetry_conserving_bravyi_kitaev.py"
HC = "tangelo/toolboxes/qubit_mappings/hcb.py"
CB = "tangelo/toolboxes/qubit_mappings/combinatorial.py"
SM = "tangelo/toolboxes/qubit_mappings/statevector_mapping.py"

FULL = ["JW", "BK", "JKMN"]


def fop(term, coef=1.0):
    from tangelo.toolboxes.operators import FermionOperator
    return FermionOperator(term, coef)


def qmap(h, op, mapping, n, ne=None, utd=False, spin=0):
    return h.call(MT, "fermion_to_qubit_mapping", op, mapping, n, ne, utd, spin)


def qzero(q, tol=1e-12):
    return all(abs(c) < tol for c in q.terms.values())


def qeq(a, b, tol=1e-12):
    keys = set(a.terms) | set(b.terms)
    return all(abs(a.terms.get(k, 0) - b.terms.get(k, 0)) < tol for k in keys)


def apply_to_basis(q, bits):
    """Q|b> as {bitstring tuple: amplitude} (exact complex arithmetic on dyadic coefficients)"""
    out = {}
    for term, c in q.terms.items():
        b = list(bits)
        amp = complex(c)
        for qi, p in term:
            if p == "X":
                b[qi] ^= 1
            elif p == "Y":
                amp *= 1j if b[qi] == 0 else -1j
                b[qi] ^= 1
            else:
                if b[qi]:
                    amp = -amp
        key = tuple(b)
        out[key] = out.get(key, 0) + amp
    return {k: v for k, v in out.items() if abs(v) > 1e-12}


# O1 make_up_then_down ---------------------------------------------------------------------------------------------------

@contract("C03", "O1.make_up_then_down", targets=[(MT, "make_up_then_down")], level="S",
          structures=lambda tier: [{"n": n} for n in range(2, 14, 2)] + [{"n": 4, "case": c} for c in ("odd", "too_many_modes", "constant_only", "not_fermion")])
def o1(h, st):
    """index map r(k) = k//2 + (k%2) * n/2 is a bijection of [0,n) for even n; every term is relabelled letter by letter with its coefficient; the input is
    unchanged; odd n / too many modes raise ValueError; NO other exception for any operator of the domain (constant-only operators included)"""
    n = st["n"]
    case = st.get("case")
    if case == "odd":
        e = h.raises(lambda: h.call(MT, "make_up_then_down", fop(((0, 1), (1, 0))), 3), ValueError)
        h.check("odd register rejected", e is not None)
    elif case == "too_many_modes":
        e = h.raises(lambda: h.call(MT, "make_up_then_down", fop(((5, 1), (1, 0))), 4), ValueError)
        h.check("operator beyond the register rejected", e is not None)
    elif case == "not_fermion":
        from tangelo.toolboxes.operators import QubitOperator
        e = h.raises(lambda: h.call(MT, "make_up_then_down", QubitOperator("X0"), 4), TypeError)
        h.check("non-fermionic input rejected", e is not None)
    elif case == "constant_only":
        r = h.call(MT, "make_up_then_down", fop((), 1.5), 4)
        h.check("constant operator maps to itself", dict(r.terms) == {(): 1.5})
        r2 = qmap(h, fop((), 1.5), "JW", 4, 2, True)
        h.check("constant operator can be encoded with up_then_down", dict(r2.terms) == {(): 1.5})
    else:
        op = fop((), 0.25)
        for k in range(n):
            op += fop(((k, 1), ((k + 1) % n, 0)), 0.5 + k)
        before = snapshot(dict(op.terms))
        r = h.call(MT, "make_up_then_down", op, n)
        h.check("input unchanged", snapshot(dict(op.terms)) == before)
        mp = {k: k // 2 + (k % 2) * (n // 2) for k in range(n)}
        h.check("r is a bijection of [0, n)", sorted(mp.values()) == list(range(n)))
        exp = {(): 0.25}
        for k in range(n):
            exp[((mp[k], 1), (mp[(k + 1) % n], 0))] = 0.5 + k
        h.check("terms relabelled, coefficients kept", dict(r.terms) == exp, detail=str(dict(r.terms))[:200])
    h.done()


# O2 dispatch ---------------------------------------------------------------------------------------------------------

@contract("C03", "O2.fermion_to_qubit_mapping.dispatch", targets=[(MT, "fermion_to_qubit_mapping"), (MT, "get_fermion_operator")], level="S",
          structures=lambda tier: [{"mapping": m, "utd": u} for m in ("JW", "jw", "BK", "scBK", "JKMN", "HCB", "nope") for u in (False, True)])
def o2(h, st):
    """result is a fresh Tangelo QubitOperator; the fermionic input is unchanged; unknown mappings raise ValueError; scBK without n_electrons raises"""
    from tangelo.toolboxes.operators import QubitOperator
    op = fop(((0, 1), (2, 0)), 0.5) + fop(((2, 1), (0, 0)), 0.5) + fop((), 1.0)
    if st["mapping"] == "HCB":
        op = fop(((0, 1), (1, 1), (2, 0), (3, 0)), 0.5) + fop(((2, 1), (3, 1), (0, 0), (1, 0)), 0.5)
    before = snapshot(dict(op.terms))
    if st["mapping"] == "nope":
        e = h.raises(lambda: qmap(h, op, "nope", 4, 2, st["utd"]), ValueError)
        h.check("unknown mapping rejected", e is not None)
        h.done()
        return
    q = qmap(h, op, st["mapping"], 4, 2, st["utd"])
    h.check("fresh QubitOperator", type(q) is QubitOperator)
    h.check("input unchanged", snapshot(dict(op.terms)) == before)
    if st["mapping"] == "scBK":
        e = h.raises(lambda: qmap(h, op, "scBK", 4, None, st["utd"]), ValueError)
        h.check("scBK without n_electrons rejected", e is not None)
    h.done()


# O4 canonical anticommutation relations, adjoints, vacuum (full-space encodings) -------------------------------------------

def car_structures(tier):
    sts = []
    for mapping in FULL:
        for n in ((2, 4) if tier == "quick" else (2, 4, 6)):
            for utd in (False, True):
                for p in range(n):
                    sts.append({"mapping": mapping, "n": n, "utd": utd, "p": p})
    # operators that do not touch the highest orbital index: register larger than the support
    for mapping in FULL:
        sts.append({"mapping": mapping, "n": 6, "utd": False, "p": 1, "support": 3})
        sts.append({"mapping": mapping, "n": 6, "utd": True, "p": 2, "support": 4})
    return sts


@contract("C03", "O4.full_space.CAR_adjoint_vacuum", level="S", structures=car_structures,
          targets=[(MT, "fermion_to_qubit_mapping"), (JK, "jkmn"), (JK, "_jkmn_dict"), (JK, "_jkmn_list"), (JK, "_node_value"), (MT, "make_up_then_down"),
                   (SM, "get_mapped_vector"), (JK, "jkmn_prep_vector")])
def o4(h, st):
    """for JW, BK, JKMN (both orderings): Q(a_p^dag) == Q(a_p)^dag; {Q(a_p), Q(a_q^dag)} == delta_pq; {Q(a_p), Q(a_q)} == 0 for every q; Q(a_p) annihilates the
    encoded vacuum; Q(a_p^dag a_p) has eigenvalue 1 on the encoded state with only orbital p occupied (exact Pauli algebra).  CAR + vacuum + adjoints
    characterise the Fock representation up to unitary equivalence, hence equal spectra for every operator"""
    import numpy as np
    from openfermion.utils import hermitian_conjugated
    mapping, n, utd, p = st["mapping"], st["n"], st["utd"], st["p"]
    sup = st.get("support", n)
    ap = qmap(h, fop(((p, 0),)), mapping, n, None, utd)
    apd = qmap(h, fop(((p, 1),)), mapping, n, None, utd)
    h.check("adjoint maps to adjoint", qeq(hermitian_conjugated(ap), apd))
    for q in range(sup):
        aq = qmap(h, fop(((q, 0),)), mapping, n, None, utd)
        aqd = qmap(h, fop(((q, 1),)), mapping, n, None, utd)
        anti = ap * aqd + aqd * ap
        h.check(f"{{a_{p}, a_{q}^dag}} == delta", qeq(anti, type(anti)((), 1.0 if p == q else 0.0)), detail=str(anti)[:200])
        anti2 = ap * aq + aq * ap
        h.check(f"{{a_{p}, a_{q}}} == 0", qzero(anti2), detail=str(anti2)[:200])
        prod = qmap(h, fop(((p, 1), (q, 0))), mapping, n, None, utd)
        h.check(f"product a_{p}^dag a_{q} maps to the product", qeq(prod, apd * aq), detail=str(prod)[:100])
    vac = h.call(SM, "get_mapped_vector", np.zeros(n, dtype=int), mapping, utd)
    res = apply_to_basis(ap, [int(x) for x in vac])
    h.check("encoded vacuum annihilated", not res, detail=str(res))
    one = np.zeros(n, dtype=int)
    one[p] = 1
    enc = [int(x) for x in h.call(SM, "get_mapped_vector", one, mapping, utd)]
    created = apply_to_basis(apd, [int(x) for x in vac])
    h.check("a_p^dag |vac> is the encoded singly occupied state (up to a phase)", list(created) == [tuple(enc)] and abs(abs(list(created.values())[0]) - 1) < 1e-12, detail=f"{created} vs {enc}")
    h.done()


@contract("C03", "O3.linearity_products", level="S", targets=[(MT, "fermion_to_qubit_mapping"), (JK, "jkmn")],
          structures=lambda tier: [{"mapping": m, "utd": u, "k": k} for m in FULL for u in (False, True) for k in range(4 if tier == "quick" else 12)])
def o3(h, st):
    """linearity Q(x a + y b) == x Q(a) + y Q(b) and products Q(a b) == Q(a) Q(b) for random excitation operators (exact Pauli algebra)"""
    import random
    rnd = random.Random(st["k"] * 17 + 3)
    n = 4
    def rand_op():
        op = fop((), 0.0)
        for _ in range(rnd.randint(1, 3)):
            if rnd.random() < 0.5:
                p, q = rnd.randrange(n), rnd.randrange(n)
                op += fop(((p, 1), (q, 0)), rnd.choice([0.5, -0.25, 1.0]))
            else:
                p, q, r, s = (rnd.randrange(n) for _ in range(4))
                if p != q and r != s:
                    op += fop(((p, 1), (q, 1), (r, 0), (s, 0)), rnd.choice([0.5, -0.75]))
        return op
    a, b = rand_op(), rand_op()
    m, utd = st["mapping"], st["utd"]
    qa, qb = qmap(h, a, m, n, 2, utd), qmap(h, b, m, n, 2, utd)
    lin = qmap(h, a * 0.5 + b * (-2.0), m, n, 2, utd)
    h.check("linear", qeq(lin, qa * 0.5 + qb * (-2.0)))
    prod = qmap(h, a * b, m, n, 2, utd)
    h.check("products map to products", qeq(prod, qa * qb, tol=1e-10))
    h.done()


# O6/O7 scBK: sector spectrum (numerical eigenvalues: bounded) --------------------------------------------------------------

def fermi_matrix(op, n):
    """dense matrix of a fermionic operator on the full Fock space; determinant index = sum occ_k 2^k; exact signs"""
    import numpy as np
    dim = 2 ** n
    M = np.zeros((dim, dim), dtype=complex)
    for term, c in op.terms.items():
        for col in range(dim):
            state, amp = col, complex(c)
            ok = True
            for (k, dag) in reversed(term):
                occ = (state >> k) & 1
                if dag == occ:
                    ok = False
                    break
                sign = (-1) ** bin(state & ((1 << k) - 1)).count("1")
                amp *= sign
                state ^= (1 << k)
            if ok:
                M[state, col] += amp
    return M


def qubit_matrix(q, nq):
    import numpy as np
    from openfermion.linalg import get_sparse_operator
    import openfermion as of
    o = of.QubitOperator()
    o.terms = dict(q.terms)
    return get_sparse_operator(o, n_qubits=nq).toarray() if nq > 0 else np.array([[o.terms.get((), 0)]])


def random_hamiltonian(n_orb, seed, spin_conserving=True, complex_integrals=False):
    """random Hermitian number- and spin-conserving Hamiltonian on n_orb spatial orbitals (alternating ordering); complex_integrals: complex one- and two-body coefficients
    (each term is added with its Hermitian conjugate), pair-exchange terms a_p^dag a_p^dag a_q a_q with complex coefficients included"""
    import random
    rnd = random.Random(seed)
    if complex_integrals:
        # a genuine SPIN-FREE Hamiltonian  sum_pq h_pq E_pq + 1/2 sum_pqrs (pq|rs) sum_{sigma,tau} a+_{p sigma} a+_{r tau} a_{s tau} a_{q sigma}  with complex integrals:
        # h Hermitian, (pq|rs) == (rs|pq) (particle exchange) and (pq|rs)* == (qp|sr) (Hermiticity)
        import numpy as np
        rs_ = np.random.default_rng(seed)
        hm = rs_.normal(size=(n_orb, n_orb)) + 1j * rs_.normal(size=(n_orb, n_orb))
        hm = (hm + hm.conj().T) / 2
        g = rs_.normal(size=(n_orb,) * 4) + 1j * rs_.normal(size=(n_orb,) * 4)
        for _ in range(3):
            g = (g + g.transpose(2, 3, 0, 1)) / 2
            g = (g + g.conj().transpose(1, 0, 3, 2)) / 2
        H = fop((), float(rs_.uniform(-1, 1)))
        for p in range(n_orb):
            for q in range(n_orb):
                for s in (0, 1):
                    H += fop(((2 * p + s, 1), (2 * q + s, 0)), complex(hm[p, q]))
                for r in range(n_orb):
                    for s_ in range(n_orb):
                        for s1 in (0, 1):
                            for s2 in (0, 1):
                                if (2 * p + s1) != (2 * r + s2) and (2 * s_ + s2) != (2 * q + s1):
                                    H += fop(((2 * p + s1, 1), (2 * r + s2, 1), (2 * s_ + s2, 0), (2 * q + s1, 0)), complex(0.5 * g[p, q, r, s_]))
        return H
    H = fop((), rnd.uniform(-1, 1))
    for p in range(n_orb):
        for q in range(n_orb):
            hpq = rnd.uniform(-1, 1)
            for s in (0, 1):
                t = fop(((2 * p + s, 1), (2 * q + s, 0)), hpq)
                from openfermion.utils import hermitian_conjugated
                H += t + hermitian_conjugated(t)
    for _ in range(3):
        p, q, r, s_ = (rnd.randrange(n_orb) for _ in range(4))
        g = rnd.uniform(-1, 1)
        for s1 in (0, 1):
            for s2 in (0, 1):
                if (2 * p + s1) != (2 * q + s2) and (2 * r + s2) != (2 * s_ + s1):
                    t = fop(((2 * p + s1, 1), (2 * q + s2, 1), (2 * r + s2, 0), (2 * s_ + s1, 0)), g)
                    from openfermion.utils import hermitian_conjugated
                    H += t + hermitian_conjugated(t)
    return H


def scbk_structures(tier):
    sts = []
    for n_orb in (2, 3):
        n = 2 * n_orb
        for ne in range(0, n + 1):
            for spin in range(-ne, ne + 1):
                if (ne + spin) % 2 or (ne + spin) // 2 > n_orb or (ne - spin) // 2 > n_orb or (ne - spin) < 0 or (ne + spin) < 0:
                    continue
                for utd in (False, True):
                    sts.append({"n_orb": n_orb, "ne": ne, "spin": spin, "utd": utd})
    return sts if tier != "quick" else sts[::2]


@contract("C03", "O6.scBK.sector_spectrum", level="B", structures=scbk_structures, native_samples=lambda st, rnd, tier: [{"seed": rnd.randint(0, 999)} for _ in range(2)],
          targets=[(SC, "symmetry_conserving_bravyi_kitaev"), (SC, "edit_operator_for_spin"), (SC, "prune_unused_indices"), (SC, "check_operator"), (MT, "fermion_to_qubit_mapping")])
def o6(h, st):
    """bounded (numerical eigenvalues): spectrum of the scBK-encoded Hamiltonian == spectrum of the fermionic Hamiltonian restricted to the determinants with
    the stated electron-number parity per spin; operators that change these parities are rejected by check_operator"""
    import numpy as np
    n_orb, ne, spin, utd = st["n_orb"], st["ne"], st["spin"], st["utd"]
    n = 2 * n_orb
    H = random_hamiltonian(n_orb, int(h.integer("seed")))
    q = qmap(h, H, "SCBK", n, ne, utd, spin)
    Mq = qubit_matrix(q, n - 2)
    Mf = fermi_matrix(H, n)
    na, nb = (ne + spin) // 2, (ne - spin) // 2
    idx = [d for d in range(2 ** n) if sum((d >> k) & 1 for k in range(0, n, 2)) % 2 == na % 2 and sum((d >> k) & 1 for k in range(1, n, 2)) % 2 == nb % 2]
    sub = Mf[np.ix_(idx, idx)]
    ev_f = np.sort(np.linalg.eigvalsh(sub))
    ev_q = np.sort(np.linalg.eigvalsh(Mq))
    h.check("dimension of the sector", len(idx) == 2 ** (n - 2))
    h.check("same spectrum on the represented sector", len(ev_f) == len(ev_q) and float(np.max(np.abs(ev_f - ev_q))) < 1e-8, detail=f"{ev_f[:4]} vs {ev_q[:4]}")
    bad = fop(((0, 1),), 1.0) + fop(((0, 0),), 1.0)
    e = h.raises(lambda: qmap(h, bad, "SCBK", n, ne, utd, spin), ValueError)
    h.check("parity-violating operator rejected", e is not None)
    # the EXPLICIT arguments decide the sector, whatever annotations (n_spinorbitals, n_electrons, spin) the operator object itself carries - also for the neutral
    # argument values 0 / None; with a Hamiltonian that is NOT symmetric under exchanging the spin species, so that a wrong sector shows
    import random
    from tangelo.toolboxes.operators import FermionOperator as TFermionOperator
    rnd = random.Random(int(h.integer("seed")) + 17)
    Ha = H + sum((fop(((2 * p, 1), (2 * p, 0)), rnd.uniform(0.2, 1.0)) for p in range(n_orb)), fop((), 0.0))
    qa = qmap(h, Ha, "SCBK", n, ne, utd, spin)
    ev_a = np.sort(np.linalg.eigvalsh(qubit_matrix(qa, n - 2)))
    ev_fa = np.sort(np.linalg.eigvalsh(fermi_matrix(Ha, n)[np.ix_(idx, idx)]))
    h.check("same spectrum on the represented sector (spin-asymmetric Hamiltonian)", float(np.max(np.abs(ev_fa - ev_a))) < 1e-8)
    for tag in ((n, ne, 2), (n, max(0, ne - 1), -1), (n + 2, ne, 3), (n, ne, 0)):
        Ht = TFermionOperator(None, 1.0, *tag)
        Ht.terms = dict(Ha.terms)
        qt = qmap(h, Ht, "SCBK", n, ne, utd, spin)
        h.check(f"operator annotated with (n_spinorbitals, n_electrons, spin) = {tag}: the explicit arguments ({n}, {ne}, spin {spin}) decide", qeq(qt, qa, 1e-10))
    h.done()


@contract("C03", "O7.full_space.spectrum", level="B", native_samples=lambda st, rnd, tier: [{"seed": rnd.randint(0, 999)} for _ in range(2)],
          structures=lambda tier: [{"mapping": m, "utd": u, "n_orb": k} for m in FULL for u in (False, True) for k in (2, 3)],
          targets=[(MT, "fermion_to_qubit_mapping"), (JK, "jkmn")])
def o7(h, st):
    """bounded (numerical eigenvalues): full-space encodings give the same spectrum as the fermionic operator, also for a register one orbital larger than the
    operator's support"""
    import numpy as np
    n_orb = st["n_orb"]
    n = 2 * n_orb
    H = random_hamiltonian(n_orb, int(h.integer("seed")))
    q = qmap(h, H, st["mapping"], n, None, st["utd"])
    ev_q = np.sort(np.linalg.eigvalsh(qubit_matrix(q, n)))
    ev_f = np.sort(np.linalg.eigvalsh(fermi_matrix(H, n)))
    h.check("same spectrum", float(np.max(np.abs(ev_f - ev_q))) < 1e-8)
    if n_orb == 2:
        q2 = qmap(h, H, st["mapping"], n + 2, None, st["utd"])
        ev_q2 = np.sort(np.linalg.eigvalsh(qubit_matrix(q2, n + 2)))
        ev_f2 = np.sort(np.linalg.eigvalsh(fermi_matrix(H, n + 2)))
        h.check("same spectrum in a larger register", float(np.max(np.abs(ev_f2 - ev_q2))) < 1e-8)
    h.done()


# O8..O10 combinatorial mapping ------------------------------------------------------------------------------------------

@contract("C03", "O8.one_body_op_on_state", targets=[(CB, "one_body_op_on_state")], level="S",
          structures=lambda tier: [{"M": M, "conf": list(c), "i": i, "j": j} for M in (3, 4) for N in (1, 2) for c in itertools.combinations(range(M), N) for i in range(M) for j in range(M)])
def o8(h, st):
    """a_i^dag a_j on a sorted configuration: empty result iff j unoccupied or (i occupied and i != j); else the sorted configuration with j -> i and the
    fermionic phase (-1)^(number of occupied orbitals strictly between)"""
    conf, i, j = tuple(st["conf"]), st["i"], st["j"]
    out, phase = h.call(CB, "one_body_op_on_state", ((i, 1), (j, 0)), conf)
    if j not in conf or (i in conf and i != j):
        h.check("annihilated", phase == 0)
    else:
        new = sorted([x for x in conf if x != j] + [i])
        between = sum(1 for x in conf if min(i, j) < x < max(i, j))
        h.check("configuration", tuple(out) == tuple(new), detail=f"{out} vs {new}")
        h.check("phase", phase == (-1) ** between, detail=f"{phase} vs {(-1) ** between}")
    h.done()


@contract("C03", "O10.basis_conf_to_integer", targets=[(CB, "basis"), (CB, "conf_to_integer")], level="S",
          structures=lambda tier: [{"M": M, "N": N} for M in range(1, 8 if tier == "quick" else 10) for N in range(0, M + 1)])
def o10(h, st):
    """conf_to_integer is a bijection of the N-subsets of [0, M) onto [0, C(M,N)) consistent with basis(M, N)"""
    import math
    M, N = st["M"], st["N"]
    b = h.call(CB, "basis", M, N)
    confs = list(b.keys()) if isinstance(b, dict) else list(b)
    h.check("number of configurations", len(confs) == math.comb(M, N))
    ints = sorted(int(h.call(CB, "conf_to_integer", c, M)) for c in confs)
    h.check("bijection onto [0, C(M,N))", ints == list(range(math.comb(M, N))), detail=str(ints[:10]))
    if isinstance(b, dict):
        h.check("basis values are the integers", all(int(b[c]) == int(h.call(CB, "conf_to_integer", c, M)) for c in confs))
    h.done()


@contract("C03", "O11.combinatorial_hcb.spectrum", level="B", native_samples=lambda st, rnd, tier: [{"seed": rnd.randint(0, 999)}],
          structures=lambda tier: [{"enc": "combinatorial", "n_orb": k, "na": a, "nb": b} for k in (2, 3) for a in range(0, k + 1) for b in range(0, k + 1) if (a, b) != (0, 0)][:: 1 if tier != "quick" else 2]
          + [{"enc": "combinatorial", "n_orb": 4, "na": a, "nb": b} for a, b in ([(1, 2), (2, 1)] if tier == "quick" else [(1, 2), (2, 1), (1, 3), (3, 2), (2, 2), (2, 3)])]
          + [{"enc": "hcb", "n_orb": k, "complex": cx} for k in (2, 3) for cx in (False, True)],
          targets=[(CB, "combinatorial"), (CB, "recursive_mapping"), (CB, "int_to_tuple"), (HC, "hard_core_boson_operator"), (HC, "boson_to_qubit_mapping")])
def o11(h, st):
    """bounded (numerical eigenvalues): combinatorial encoding within fixed (n_alpha, n_beta) and hard-core-boson encoding within the paired-electron space
    give the spectrum of the Hamiltonian restricted to that space"""
    import numpy as np
    n_orb = st["n_orb"]
    n = 2 * n_orb
    H = random_hamiltonian(n_orb, int(h.integer("seed")), complex_integrals=bool(st.get("complex")))
    Mf = fermi_matrix(H, n)
    if st["enc"] == "combinatorial":
        import math
        na, nb = st["na"], st["nb"]
        q = h.call(CB, "combinatorial", H, n_orb, (na, nb))
        idx = [d for d in range(2 ** n) if sum((d >> k) & 1 for k in range(0, n, 2)) == na and sum((d >> k) & 1 for k in range(1, n, 2)) == nb]
        nbasis = len(idx)
        h.check("size of the represented space", nbasis == math.comb(n_orb, na) * math.comb(n_orb, nb))
        nq = max(0, math.ceil(math.log2(nbasis)))
        Mq = qubit_matrix(q, nq)
        const = complex(H.terms.get((), 0)).real
        ev_q_all = np.sort(np.linalg.eigvalsh(Mq))
        ev_f = np.sort(np.linalg.eigvalsh(Mf[np.ix_(idx, idx)]))
        # the padding states (2^nq - nbasis of them) carry the constant only
        pad = [const] * (2 ** nq - nbasis)
        exp = np.sort(np.concatenate([ev_f, np.array(pad)])) if pad else ev_f
        h.check("same spectrum on the represented space (single-precision matrix: 1e-5)", len(exp) == len(ev_q_all) and float(np.max(np.abs(exp - ev_q_all))) < 1e-5,
                detail=f"{exp[:4]} vs {ev_q_all[:4]}")
        h.done()
        return
    q = qmap(h, H, "HCB", n, None, False)
    nq = n_orb
    Mq = qubit_matrix(q, nq)
    idx = [d for d in range(2 ** n) if all(((d >> (2 * k)) & 1) == ((d >> (2 * k + 1)) & 1) for k in range(n_orb))]
    # the HCB Hamiltonian keeps only the pair-conserving part: compare with the projection of H on the paired space
    sub = Mf[np.ix_(idx, idx)]
    h.check("the encoded operator is Hermitian (as the Hamiltonian is)", float(np.max(np.abs(Mq - Mq.conj().T))) < 1e-10, detail=f"max |Q - Q^dag| = {float(np.max(np.abs(Mq - Mq.conj().T))):.3e}")
    ev_f = np.sort(np.linalg.eigvalsh(sub))
    ev_q = np.sort(np.linalg.eigvals(Mq).real)          # full matrix (eigvalsh would read one triangle only)
    h.check("same spectrum on the paired-electron space", len(ev_f) == len(ev_q) and float(np.max(np.abs(ev_f - ev_q))) < 1e-8, detail=f"{ev_f} vs {ev_q}")
    h.done()


from tverif.engine import repeatable
repeatable((MT, "fermion_to_qubit_mapping"), (MT, "make_up_then_down"), (JK, "jkmn"), (SM, "get_vector"), (SM, "get_reference_circuit"), (SM, "vector_to_circuit"))

# ---------------------------------------------------------------------------------------------------------------------
# P1  make_up_then_down for EVERY even register size and EVERY pair of mode indices (symbolic integers; the numpy index table as a symbolic-length array)

from tverif.engine import stub
from tverif.ring import Poly

OPS_ = "tangelo/toolboxes/operators/operators.py"


@contract("C03", "P1.make_up_then_down.any_size", targets=[(MT, "make_up_then_down")], level="P", structures=lambda tier: [{"shape": s} for s in ("hop", "double", "number")], max_paths=200)
def p1(h, st):
    """for EVERY even register size n and EVERY mode indices 0 <= p, q (, r, s) < n (symbolic integers): the excitation a_p^dag a_q (a_p^dag a_q^dag a_r a_s; a_p^dag a_p) is relabelled
    letter by letter with R(k) = k // 2 + (k mod 2) * n / 2, ladder types and coefficient kept; R maps [0, n) into [0, n) and is injective (distinct modes stay distinct) - hence a
    bijection of the modes for every even n, so that anticommutation relations and spectra are those of the input; the input operator is unchanged. (The index table built with
    np.linspace / // / strided += on a length-n array is modelled as a symbolic-length array, tverif.interp.SymVec.)"""
    if not h.symbolic:
        h.check("native: covered by O1", True)
        h.done()
        return
    from tangelo.toolboxes.operators import FermionOperator
    n = h.integer("n")
    h.assume(n >= 2)
    h.assume(n % 2 == 0)
    k = {"hop": 2, "double": 4, "number": 1}[st["shape"]]
    idx = [h.integer(f"m{i}") for i in range(k)]
    for m in idx:
        h.assume(m >= 0)
        h.assume(m < n)
    if st["shape"] == "hop":
        term = ((idx[0], 1), (idx[1], 0))
    elif st["shape"] == "double":
        term = ((idx[0], 1), (idx[1], 1), (idx[2], 0), (idx[3], 0))
    else:
        term = ((idx[0], 1), (idx[0], 0))
    c = h.real("c")
    h.assume(c > 0.5)
    op = FermionOperator()
    op.terms = {term: c}                       # (openfermion's constructor insists on concrete integers; the dictionary is what the code under contract reads)
    created = []

    def init_stub(a, kw):
        me = a[0]
        t = a[1] if len(a) > 1 else kw.get("term")
        cf = a[2] if len(a) > 2 else kw.get("coefficient", 1.)
        me.terms = {} if t is None else {tuple(t): cf}
        me.n_spinorbitals = me.n_electrons = me.spin = None
        created.append((t, cf))
    stub(h, OPS_, "FermionOperator.__init__", init_stub)
    before = dict(op.terms)
    out = h.call(MT, "make_up_then_down", op, n)
    h.check("input operator unchanged", op.terms == before and list(op.terms) == [term])
    h.shape("one term in the result", len(out.terms) == 1)
    (t2, c2), = out.terms.items()
    h.check("same number of ladder operators, same types", len(t2) == len(term) and all(a[1] == b[1] for a, b in zip(t2, term)))
    h.check_close("coefficient kept", c2, c)
    half = n // 2
    R = lambda m: m // 2 + (m % 2) * half
    for i, ((m2, _), (m, _)) in enumerate(zip(t2, term)):
        h.check_close(f"mode of ladder operator {i} relabelled with R(k) = k // 2 + (k mod 2) * n / 2", m2, R(m))
        h.check(f"R(mode {i}) lies in [0, n)", (R(m) >= 0) & (R(m) < n))
    if k >= 2:
        a, b = idx[0], idx[1]
        h.check("R is injective: R(a) == R(b) only if a == b", (~(R(a) == R(b))) | (a == b))
    h.done()


@contract("C03", "O12.input_kinds", level="B", native_samples=lambda st, rnd, tier: [{"seed": rnd.randint(0, 999)}],
          structures=lambda tier: [{"mapping": m, "utd": u} for m in ("JW", "BK", "JKMN", "scBK", "jw", "Scbk") for u in (False, True)],
          targets=[(MT, "fermion_to_qubit_mapping")])
def o12(h, st):
    """the operator may be handed over as a Tangelo FermionOperator, an openfermion FermionOperator or an openfermion InteractionOperator (cast by the front end): the
    encoded operator is the same in all three cases, for every mapping name in any letter case and both orderings; the operator handed over is unchanged"""
    import numpy as np
    import openfermion as of
    from openfermion.ops.representations import InteractionOperator
    rs = np.random.default_rng(int(h.integer("seed")))
    n = 4
    h1 = rs.normal(size=(n, n))
    h1 = h1 + h1.T
    h2 = rs.normal(size=(n, n, n, n))
    h2 = h2 + h2.transpose(3, 2, 1, 0)
    # keep the operator within the parity sector structure scBK accepts: number- and spin-parity conserving terms only (spin = index parity)
    for p_ in range(n):
        for q_ in range(n):
            if (p_ - q_) % 2:
                h1[p_, q_] = 0
            for r_ in range(n):
                for s_ in range(n):
                    if (p_ + q_ + r_ + s_) % 2 or ((p_ % 2) + (q_ % 2) != (r_ % 2) + (s_ % 2)):
                        h2[p_, q_, r_, s_] = 0
    iop = InteractionOperator(0.3, h1, h2)
    fo = of.transforms.get_fermion_operator(iop)
    ft = fop((), 0.0)
    ft.terms = dict(fo.terms)
    before = (iop.constant, iop.one_body_tensor.copy(), iop.two_body_tensor.copy())
    qs = [qmap(h, x, st["mapping"], n, 2, st["utd"], 0) for x in (ft, fo, iop)]
    h.check("openfermion FermionOperator gives the same encoded operator as the Tangelo one", qeq(qs[0], qs[1], 1e-10))
    h.check("InteractionOperator gives the same encoded operator", qeq(qs[0], qs[2], 1e-10))
    h.check("InteractionOperator unchanged", iop.constant == before[0] and np.array_equal(iop.one_body_tensor, before[1]) and np.array_equal(iop.two_body_tensor, before[2]))
    h.done()


PROPERTY = {
    "level": "other",
    "explanation": "Full-space encodings (JW, BK, JKMN; both orderings; registers larger than the operator's support): adjoints, the canonical anticommutation "
                   "relations for every pair of modes, multiplicativity, linearity and annihilation of the encoded vacuum are decided exactly in the Pauli algebra "
                   "from the AST of Tangelo's mapping code for every mode up to the bound - together these characterise the Fock representation up to unitary "
                   "equivalence (cited), hence equal spectra. Relabelling, dispatch, the combinatorial phase rule and configuration numbering are decided "
                   "exhaustively up to the bound. The sector encodings (scBK, HCB) are compared with the restricted fermionic spectrum numerically: bounded. Unbounded: the up_then_down relabelling for EVERY even register size and every mode indices (P1: symbolic integers; the numpy index table as a symbolic-length array): letter-by-letter relabelling with an injective map into [0, n). The front end gives the same encoded operator for Tangelo / openfermion FermionOperators and InteractionOperators (O12), and the EXPLICIT arguments decide the scBK sector whatever annotations the operator object carries (O6).",
    "bounds": {"quick": "registers of 2 and 4 spin-orbitals (all modes), 6 for partial support; scBK: every (n_e, spin) sector of 2-3 orbitals (every 2nd), 2 random Hamiltonians each", "thorough": "registers up to 6"},
    "assumptions": ["openfermion jordan_wigner / bravyi_kitaev / QubitOperator arithmetic executed natively (assumed)", "uniqueness of the Fock representation (CAR + vacuum) is cited mathematics",
                    "spectra of sector encodings: floating-point eigenvalues, tolerance 1e-8 (bounded stand-in)"],
    "trusted_base": ["tverif AST interpreter", "openfermion", "numpy"],
}
