"""C15 -- Problem-decomposition energies satisfy their defining identities."""
import itertools
from fractions import Fraction

from tverif.engine import contract, snapshot
from tverif.ring import Poly

IH = "tangelo/problem_decomposition/incremental/incremental_helper.py"
ON = "tangelo/problem_decomposition/oniom/oniom_problem_decomposition.py"
HC = "tangelo/problem_decomposition/oniom/_helpers/helper_classes.py"
DM = "tangelo/problem_decomposition/dmet/dmet_problem_decomposition.py"


# O1 method of increments ---------------------------------------------------------------------------------------------------

def subsets_of(m):
    out = []
    for k in range(1, m + 1):
        out += [c for c in itertools.combinations(range(m), k)]
    return out


@contract("C15", "O1.mi_summation.full_order", targets=[(IH, "MethodOfIncrementsHelper.mi_summation")], level="S",
          structures=lambda tier: [{"m": m, "user": u} for m in ((1, 2, 3, 4) if tier == "quick" else (1, 2, 3, 4, 5)) for u in (False, True)],
          native_samples=lambda st, rnd, tier: [{**{f"E{''.join(map(str, s))}": rnd.uniform(-3, -1) for s in subsets_of(st["m"])}, **{f"C{''.join(map(str, s))}": rnd.uniform(-0.1, 0) for s in subsets_of(st["m"])},
                                                   "emf": rnd.uniform(-1, 0), "unew": rnd.uniform(-3, -1)} for _ in range(2)])
def o1(h, st):
    """with the energies of EVERY non-empty subset of the m centres (symbolic reals): the summation carried to order m equals the energy of the complete fragment;
    a user-provided energy replaces the stored one with the stored correction added; for all energies and corrections"""
    from tangelo.problem_decomposition.incremental.incremental_helper import MethodOfIncrementsHelper
    m = st["m"]
    helper = MethodOfIncrementsHelper.__new__(MethodOfIncrementsHelper)
    emf = h.real("emf")
    frag_info = {}
    E, Cc = {}, {}
    for s in subsets_of(m):
        key = str(s)
        E[s] = h.real("E" + "".join(map(str, s)))
        Cc[s] = h.real("C" + "".join(map(str, s)))
        frag_info.setdefault(len(s), {})[key] = {"energy_total": E[s], "correction": Cc[s]}
    helper.frag_info = frag_info
    helper.e_mf = emf
    flat = {}
    for n, d in frag_info.items():
        flat.update(d)
    try:
        helper.frag_info_flattened = flat
    except AttributeError:
        pass
    full = tuple(range(m))
    if st["user"]:
        unew = h.real("unew")
        tot = h.call(IH, "MethodOfIncrementsHelper.mi_summation", helper, {str(full): unew})
        h.check_close("full-order summation == user energy of the complete fragment + its stored correction", tot, unew + Cc[full], tol=1e-9)
        # history on the same helper object: a user energy supplied once must not stick - the next plain summation uses the stored energies again, and vice versa
        tot2 = h.call(IH, "MethodOfIncrementsHelper.mi_summation", helper)
        h.check_close("a later summation WITHOUT user energies on the same helper == stored energy of the complete fragment", tot2, E[full], tol=1e-9)
        tot3 = h.call(IH, "MethodOfIncrementsHelper.mi_summation", helper, {str(full): unew})
        h.check_close("... and with the user energy again == user energy + stored correction", tot3, unew + Cc[full], tol=1e-9)
    else:
        tot = h.call(IH, "MethodOfIncrementsHelper.mi_summation", helper)
        h.check_close("full-order summation == energy of the complete fragment", tot, E[full], tol=1e-9)
        tot2 = h.call(IH, "MethodOfIncrementsHelper.mi_summation", helper)
        h.check_close("a second summation on the same helper object gives the same energy", tot2, E[full], tol=1e-9)
    h.done()


# O2 link atom placement ----------------------------------------------------------------------------------------------------

@contract("C15", "O2.Link.relink.single_atom", targets=[(HC, "Link.relink"), (HC, "Link.__init__")], level="S",
          structures=lambda tier: [{"staying": s, "leaving": l, "species": sp} for s, l in ((0, 1), (2, 0), (1, 2)) for sp in ("H", "F", "Cl")],
          native_samples=lambda st, rnd, tier: [{**{f"x{i}{k}": rnd.uniform(-2, 2) for i in range(3) for k in range(3)}, "f": rnd.choice([0.709, 1.0, 0.5])} for _ in range(2)])
def o2(h, st):
    """the cap atom is placed at staying + factor * (leaving - staying): on the broken bond at the requested fraction of its length, for every geometry and factor;
    the geometry passed in is unchanged"""
    import numpy as np
    f = h.real("f")
    geom = [["C", tuple(h.real(f"x{i}{k}") for k in range(3))] for i in range(3)]
    before = snapshot(geom)
    link = h.call(HC, "Link", st["staying"], st["leaving"], f, st["species"])
    out = h.call(HC, "Link.relink", link, geom)
    h.check("geometry unchanged", snapshot(geom) == before)
    h.check("one atom of the requested species", len(out) == 1 and out[0][0] == st["species"])
    for k in range(3):
        s, l = geom[st["staying"]][1][k], geom[st["leaving"]][1][k]
        h.check_close(f"coordinate {k}", out[0][1][k], s + f * (l - s), tol=1e-12)
    h.done()


@contract("C15", "O2b.Link.relink.group", targets=[(HC, "Link.relink")], level="B",
          structures=lambda tier: [{"species": s, "bond": b} for s in ("CH3", "CF3", "NH2", "custom") for b in ("random", "antiparallel", "parallel", "orthogonal")],
          native_samples=lambda st, rnd, tier: [{"seed": rnd.randint(0, 10 ** 6)} for _ in range(3)])
def o2b(h, st):
    """bounded (scipy rotation): for a chemical group the first atom of the group sits on the broken bond at the requested fraction, the group keeps its internal geometry and it
    is ORIENTED along the bond - every atom of the group lies as far along the bond direction (staying -> leaving) from the first atom as it lies along the template's own axis
    (ghost atom -> first atom) in the template -, also when the bond is exactly antiparallel, parallel or orthogonal to the template's axis"""
    import numpy as np
    rs = np.random.default_rng(int(h.integer("seed")))
    f = 0.8
    # ("custom": a user-defined group given as a list whose first entry is the ghost atom X marking the staying side)
    species = st["species"] if st["species"] != "custom" else [("X", (0.2, -0.1, 0.0)), ("O", (0.2, -0.1, 1.1)), ("H", (1.05, -0.1, 1.45)), ("H", (-0.3, 0.6, 1.5))]
    link = h.call(HC, "Link", 0, 1, f, species)
    ghost = np.array([a[1] for a in link.species if a[0].upper() == "X"][0], dtype=float)
    ref = [a for a in link.species if a[0].upper() != "X"]
    axis_t = np.array(ref[0][1], dtype=float) - ghost
    axis_t = axis_t / np.linalg.norm(axis_t)
    s = rs.uniform(-2, 2, 3)
    if st["bond"] == "random":
        l = rs.uniform(-2, 2, 3)
    elif st["bond"] == "orthogonal":
        v = np.cross(axis_t, rs.uniform(-1, 1, 3))
        l = s + 1.5 * v / np.linalg.norm(v)
    else:
        l = s + (1.5 if st["bond"] == "parallel" else -1.5) * axis_t
        if int(h.integer("seed")) % 2:
            s, l = np.zeros(3), (1.0 if st["bond"] == "parallel" else -1.0) * (np.array(ref[0][1], dtype=float) - ghost)      # bit-exact multiples of the template axis
    geom = [["C", tuple(s)], ["C", tuple(l)], ["C", tuple(rs.uniform(-2, 2, 3))]]
    out = h.call(HC, "Link.relink", link, geom)
    h.check("first atom on the bond at the requested fraction", float(np.max(np.abs(np.array(out[0][1]) - (s + f * (l - s))))) < 1e-9)
    d_out = [np.linalg.norm(np.array(out[i][1]) - np.array(out[0][1])) for i in range(len(out))]
    d_ref = [np.linalg.norm(np.array(ref[i][1]) - np.array(ref[0][1])) for i in range(len(ref))]
    h.check("internal distances of the group preserved", max(abs(a - b) for a, b in zip(d_out, d_ref)) < 1e-9)
    u = (l - s) / np.linalg.norm(l - s)
    along_out = [float(np.dot(np.array(out[i][1]) - np.array(out[0][1]), u)) for i in range(len(out))]
    along_ref = [float(np.dot(np.array(ref[i][1], dtype=float) - np.array(ref[0][1], dtype=float), axis_t)) for i in range(len(ref))]
    # (exactly antiparallel axes: scipy's single-vector align_vectors returns a half turn that is off by a few degrees - offsets wrong by up to 0.06 Angstrom on the unchanged
    #  tree. The property only fixes the position of the link atom; the orientation obligation is there to tell a cap pointing AWAY from the staying atom from one pointing back
    #  at it, so the degenerate case is compared to 0.1 Angstrom, every other case to 1e-6)
    tol = 0.1 if st["bond"] == "antiparallel" else 1e-6
    h.check("group oriented along the bond (it points away from the staying atom as in the template)", max(abs(a - b) for a, b in zip(along_out, along_ref)) < tol,
            detail=f"{np.round(along_out, 6).tolist()} vs {np.round(along_ref, 6).tolist()}")
    h.done()


# O3 distribute_atoms -----------------------------------------------------------------------------------------------------------

GEO = [["C", (0.0, 0.0, 0.0)], ["H", (0.0, 0.0, 1.1)], ["H", (1.0, 0.0, -0.4)], ["C", (-1.2, 0.3, -0.5)], ["H", (-2.0, 1.0, 0.0)]]


@contract("C15", "O3.distribute_atoms", targets=[(ON, "ONIOMProblemDecomposition.distribute_atoms")], level="S",
          structures=lambda tier: [{"sel": s, "links": l} for s in (None, 2, [0, 1, 2], [3, 0]) for l in (False, True)] + [{"sel": "bad", "links": False}])
def o3(h, st):
    """fragment geometry == whole system (None) / first n atoms (int) / the listed atoms (list) followed by the cap atoms of its broken links; other selections raise
    TypeError; the SYSTEM geometry is not altered (no aliasing with a fragment's list)"""
    from tangelo.problem_decomposition.oniom.oniom_problem_decomposition import ONIOMProblemDecomposition
    from tangelo.problem_decomposition.oniom._helpers.helper_classes import Fragment, Link
    geom = [[a, tuple(xyz)] for a, xyz in GEO]
    before = snapshot(geom)
    sel = st["sel"]
    links = [Link(0, 3, 0.709, "H")] if st["links"] else None
    frag = Fragment.__new__(Fragment)
    frag.selected_atoms = [0.5] if sel == "bad" else sel
    frag.broken_links = links
    frag.geometry = None
    whole = Fragment.__new__(Fragment)
    whole.selected_atoms, whole.broken_links, whole.geometry = None, None, None
    oniom = ONIOMProblemDecomposition.__new__(ONIOMProblemDecomposition)
    oniom.geometry = geom
    oniom.fragments = [whole, frag]
    if sel == "bad":
        e = h.raises(lambda: h.call(ON, "ONIOMProblemDecomposition.distribute_atoms", oniom), TypeError)
        h.check("non-integer selection rejected", e is not None)
        h.done()
        return
    h.call(ON, "ONIOMProblemDecomposition.distribute_atoms", oniom)
    h.check("system geometry unchanged", snapshot(oniom.geometry) == before and len(oniom.geometry) == len(GEO), detail=f"{len(oniom.geometry)} atoms")
    base = list(range(len(GEO))) if sel is None else (list(range(sel)) if isinstance(sel, int) else sel)
    h.check("selected atoms first, in order", [tuple(a) for a in frag.geometry[:len(base)]] == [(GEO[i][0], tuple(GEO[i][1])) for i in base])
    h.check("cap atoms appended", len(frag.geometry) == len(base) + (1 if st["links"] else 0))
    h.check("whole-system fragment holds the system's atoms", [tuple(a) for a in whole.geometry] == [(a, tuple(x)) for a, x in GEO])
    h.done()


# O4 ONIOM energy arithmetic ------------------------------------------------------------------------------------------------------

@contract("C15", "O4.oniom.energy_arithmetic", targets=[(ON, "ONIOMProblemDecomposition.simulate"), (HC, "Fragment.simulate")], level="S",
          structures=lambda tier: [{"layout": l} for l in ("two_layers", "identical_levels", "model_is_system", "three_layers")],
          native_samples=lambda st, rnd, tier: [{k: rnd.uniform(-5, -1) for k in ("Elow_sys", "Ehigh_sys", "Elow_mod", "Ehigh_mod", "Elow_mod2", "Ehigh_mod2")}])
def o4(h, st):
    """E_ONIOM == E_low(system) + sum_models (E_high(model) - E_low(model)) for every value of the solver energies (opaque solvers); hence a model treated at identical
    high and low levels gives E_low(system), and a model that is the whole system gives E_high(system)"""
    from tangelo.problem_decomposition.oniom.oniom_problem_decomposition import ONIOMProblemDecomposition
    from tangelo.problem_decomposition.oniom._helpers.helper_classes import Fragment
    names = ("Elow_sys", "Ehigh_sys", "Elow_mod", "Ehigh_mod", "Elow_mod2", "Ehigh_mod2")
    E = {k: h.real(k) for k in names}

    def frag(low, high):
        f = Fragment.__new__(Fragment)
        f.solver_low, f.solver_high = (("S", low) if low else None), (("S", high) if high else None)
        f.mol_low, f.mol_high = low, high
        return f
    lay = st["layout"]
    if lay == "two_layers":
        frags = [frag("Elow_sys", None), frag("Elow_mod", "Ehigh_mod")]
        exp = E["Elow_sys"] + E["Ehigh_mod"] - E["Elow_mod"]
    elif lay == "identical_levels":
        frags = [frag("Elow_sys", None), frag("Elow_mod", "Elow_mod")]
        exp = E["Elow_sys"]
    elif lay == "model_is_system":
        frags = [frag("Elow_sys", None), frag("Elow_sys", "Ehigh_sys")]
        exp = E["Ehigh_sys"]
    else:
        frags = [frag("Elow_sys", None), frag("Elow_mod", "Ehigh_mod"), frag("Elow_mod2", "Ehigh_mod2")]
        exp = E["Elow_sys"] + E["Ehigh_mod"] - E["Elow_mod"] + E["Ehigh_mod2"] - E["Elow_mod2"]
    oniom = ONIOMProblemDecomposition.__new__(ONIOMProblemDecomposition)
    oniom.fragments = frags
    oniom.verbose = False
    # the solvers are opaque: get_energy(mol, solver) returns the (symbolic) energy attached to the molecule tag
    if h.symbolic:
        h.I.stubs[(HC, "Fragment.get_energy")] = lambda interp, args, kw: E[args[0]]
        tot = h.call(ON, "ONIOMProblemDecomposition.simulate", oniom)
        tot2 = h.call(ON, "ONIOMProblemDecomposition.simulate", oniom)
    else:
        orig = Fragment.get_energy
        Fragment.get_energy = staticmethod(lambda mol, solver: E[mol])
        try:
            tot = h.call(ON, "ONIOMProblemDecomposition.simulate", oniom)
            tot2 = h.call(ON, "ONIOMProblemDecomposition.simulate", oniom)
        finally:
            Fragment.get_energy = orig
    h.check_close("ONIOM energy == E_low(system) + sum (E_high - E_low)(models)", tot, exp, tol=1e-12)
    h.check_close("a second simulate() on the same object gives the same energy (nothing accumulates across calls)", tot2, exp, tol=1e-12)
    h.done()


@contract("C15", "O4b.oniom.real_solvers", level="B", structures=lambda tier: [{"case": c, "shared": sh, "basis": b} for c in ("identical_levels", "model_is_system", "capped_identical") for sh, b in ((False, "sto-3g"), (True, "3-21g"), (True, "sto-3g"))
                                   if not (c == "capped_identical" and b != "sto-3g")],
          native_samples=lambda st, rnd, tier: [{}], targets=[(ON, "ONIOMProblemDecomposition.__init__"), (ON, "ONIOMProblemDecomposition.simulate"), (HC, "Fragment.build"), (HC, "Fragment.simulate")])
def o4b(h, st):
    """bounded (PySCF): H4 chain - model at identical levels gives the low-level energy of the whole system; model = whole system gives the high-level energy"""
    from tangelo.problem_decomposition.oniom.oniom_problem_decomposition import ONIOMProblemDecomposition
    from tangelo.problem_decomposition.oniom._helpers.helper_classes import Fragment, Link
    from tangelo import SecondQuantizedMolecule
    from tangelo.algorithms.classical import CCSDSolver
    geom = [["H", (0., 0., 0.)], ["H", (0., 0., 0.75)], ["H", (0., 0., 2.0)], ["H", (0., 0., 2.75)]]
    basis = st.get("basis", "sto-3g")
    opt = {"basis": basis}
    # `shared`: ONE options dictionary object handed to every level of every fragment (what a user script typically does); otherwise a private copy per level
    mk = (lambda: opt) if st.get("shared") else (lambda: dict(opt))
    opts = []

    def o():
        d = mk()
        opts.append(d)
        return d
    # the model fragment is listed BEFORE the system fragment when the dictionary is shared (the order in which the levels are built must not matter)
    if st["case"] == "identical_levels":
        model = Fragment(solver_low="HF", options_low=o(), solver_high="HF", options_high=o(), selected_atoms=[0, 1])
    elif st["case"] == "capped_identical":
        model = Fragment(solver_low="HF", options_low=o(), solver_high="HF", options_high=o(), selected_atoms=[0, 1, 2], broken_links=[Link(2, 3, 1.0, "H")], spin=0)
    else:
        model = Fragment(solver_low="HF", options_low=o(), solver_high="CCSD", options_high=o(), selected_atoms=None if False else [0, 1, 2, 3])
    system = Fragment(solver_low="HF", options_low=o())
    frags = [model, system] if st.get("shared") else [system, model]
    geom_before = snapshot(geom)
    opts_before = [snapshot(d) for d in opts]
    oniom = h.call(ON, "ONIOMProblemDecomposition", {"geometry": geom, "fragments": frags})
    e = h.call(ON, "ONIOMProblemDecomposition.simulate", oniom)
    h.check("geometry argument unchanged", snapshot(geom) == geom_before)
    h.check("the options dictionaries handed to the fragments are unchanged", [snapshot(d) for d in opts] == opts_before, detail=str(opts[:2]))
    mol = SecondQuantizedMolecule([(a, tuple(x)) for a, x in geom], 0, 0, basis=basis)
    if st["case"] in ("identical_levels", "capped_identical"):
        h.check("identical levels: low-level energy of the whole system", abs(e - mol.mf_energy) < 1e-8, detail=f"{e} vs {mol.mf_energy}")
    else:
        ccsd = CCSDSolver(mol)
        ref = ccsd.simulate()
        h.check("model == system: high-level energy", abs(e - ref) < 1e-6, detail=f"{e} vs {ref}")
    # a second problem built from the SAME fragment options (e.g. the next point of a geometry scan) sees the same options
    if st.get("shared") and st["case"] != "capped_identical":
        geom2 = [[a, (x[0], x[1], x[2] * 1.05)] for a, x in geom]
        m2 = Fragment(solver_low="HF", options_low=o(), solver_high="HF", options_high=o(), selected_atoms=[0, 1])
        s2 = Fragment(solver_low="HF", options_low=o())
        on2 = h.call(ON, "ONIOMProblemDecomposition", {"geometry": geom2, "fragments": [m2, s2]})
        e2 = h.call(ON, "ONIOMProblemDecomposition.simulate", on2)
        mol2 = SecondQuantizedMolecule([(a, tuple(x)) for a, x in geom2], 0, 0, basis=basis)
        h.check("second problem with the same options object: identical levels give the low-level energy in the requested basis", abs(e2 - mol2.mf_energy) < 1e-8, detail=f"{e2} vs {mol2.mf_energy}")
    h.done()


# O5 DMET (iterative numerics: bounded) ---------------------------------------------------------------------------------------------

def dmet_structures(tier):
    sts = [{"mol": "H4ring", "frags": [1, 1, 1, 1], "solver": "fci", "loc": "meta_lowdin"}, {"mol": "H4ring", "frags": [4], "solver": "fci", "loc": "meta_lowdin"},
           {"mol": "H4ring", "frags": [2, 2], "solver": "fci", "loc": "meta_lowdin"},
           # a basis larger than minimal with the truncation of the virtual space switched OFF (threshold exactly 0., as documented): fragment + bath span everything
           {"mol": "H4ring", "frags": [2, 2], "solver": "fci", "loc": "meta_lowdin", "basis": "3-21g", "vot": 0.0}]
    if tier != "quick":
        sts += [{"mol": "H4ring", "frags": [2, 2], "solver": "ccsd", "loc": "meta_lowdin"}, {"mol": "H4ring", "frags": [1, 1, 1, 1], "solver": "fci", "loc": "iao"},
                {"mol": "H4chain", "frags": [2, 2], "solver": "fci", "loc": "meta_lowdin"}, {"mol": "H4chain", "frags": [4], "solver": "ccsd", "loc": "meta_lowdin"}]
    return sts


@contract("C15", "O5.dmet.identities", level="B", structures=dmet_structures, native_samples=lambda st, rnd, tier: [{}],
          targets=[(DM, "DMETProblemDecomposition.simulate"), (DM, "DMETProblemDecomposition._oneshot_loop"), (DM, "DMETProblemDecomposition.build"), (DM, "DMETProblemDecomposition.__init__")])
def o5(h, st):
    """bounded (iterative PySCF / scipy numerics, tolerance 1e-5): at convergence the fragment electron numbers sum to the total; a single fragment spanning the whole
    molecule reproduces the exact solver; the energy is invariant under relabelling the atoms (nested fragment lists)"""
    import math
    import numpy as np
    from tangelo import SecondQuantizedMolecule
    from tangelo.problem_decomposition import DMETProblemDecomposition
    from tangelo.problem_decomposition.dmet import Localization
    from tangelo.algorithms.classical import FCISolver, CCSDSolver
    if st["mol"] == "H4ring":
        # a generic (symmetry-free) H4: square H4 has degenerate frontier orbitals (its SCF solution jumps with tiny perturbations) and in
        # a rectangle the bath of a two-atom fragment is rank deficient, so that fragment + bath does not span the whole space
        xyz = [("H", (0.0, 0.0, 0.0)), ("H", (0.1, 0.2, 0.8)), ("H", (1.3, 0.1, 1.0)), ("H", (1.5, -0.6, 2.1))]
    else:
        xyz = [("H", (0.0, 0.0, 0.9 * k)) for k in range(4)]
    basis = st.get("basis") or ("minao" if st["loc"] == "meta_lowdin" else "3-21g")       # IAO localisation refuses minimal basis sets
    mol = SecondQuantizedMolecule(xyz, 0, 0, basis=basis)
    loc = Localization.meta_lowdin if st["loc"] == "meta_lowdin" else Localization.iao
    extra = {"virtual_orbital_threshold": st["vot"]} if "vot" in st else {}
    opts = {"molecule": mol, "fragment_atoms": list(st["frags"]), "fragment_solvers": st["solver"], "electron_localization": loc, "verbose": False, **extra}
    d = h.call(DM, "DMETProblemDecomposition", opts)
    h.call(DM, "DMETProblemDecomposition.build", d)
    e = h.call(DM, "DMETProblemDecomposition.simulate", d)
    defect = h.call(DM, "DMETProblemDecomposition._oneshot_loop", d, d.chemical_potential)
    h.check("fragment electron numbers sum to the total at convergence", abs(defect) < 1e-4, detail=f"electron number defect {defect}")
    if len(st["frags"]) == 1 or (st["frags"] == [2, 2] and st["solver"] == "fci"):
        # one fragment, or two fragments whose fragment + bath spaces each span the whole orbital space
        ref = (FCISolver(mol) if st["solver"] == "fci" else CCSDSolver(mol)).simulate()
        h.check("single fragment spanning the molecule reproduces the exact solver", abs(e - ref) < 1e-5, detail=f"{e} vs {ref}")
    if len(st["frags"]) > 1:
        # relabel: reversed atom order with the corresponding nested fragment lists
        order = list(range(4))[::-1]
        mol2 = SecondQuantizedMolecule([xyz[i] for i in order], 0, 0, basis=basis)
        opts2 = {"molecule": mol2, "fragment_atoms": list(st["frags"])[::-1], "fragment_solvers": st["solver"], "electron_localization": loc, "verbose": False, **extra}
        d2 = h.call(DM, "DMETProblemDecomposition", opts2)
        h.call(DM, "DMETProblemDecomposition.build", d2)
        e2 = h.call(DM, "DMETProblemDecomposition.simulate", d2)
        h.check("energy invariant under relabelling the atoms", abs(e - e2) < 1e-5, detail=f"{e} vs {e2}")
        # the same fragments requested as (interleaved) index lists on a shuffled molecule
        shuffle = [2, 0, 3, 1]                     # new position k holds original atom shuffle[k]
        mol3 = SecondQuantizedMolecule([xyz[i] for i in shuffle], 0, 0, basis=basis)
        pos, nested, k = {a: kk for kk, a in enumerate(shuffle)}, [], 0
        for size in st["frags"]:
            nested.append([pos[a] for a in range(k, k + size)])
            k += size
        opts3 = {"molecule": mol3, "fragment_atoms": nested, "fragment_solvers": st["solver"], "electron_localization": loc, "verbose": False, **extra}
        d3 = h.call(DM, "DMETProblemDecomposition", opts3)
        h.call(DM, "DMETProblemDecomposition.build", d3)
        e3 = h.call(DM, "DMETProblemDecomposition.simulate", d3)
        h.check("energy invariant under relabelling the atoms (fragments as index lists)", abs(e - e3) < 1e-5, detail=f"{e} vs {e3} with {nested}")
    h.done()


# O6 atom re-ordering for nested fragment lists --------------------------------------------------------------------------------------

def o6_structures(tier):
    """every ordered assignment of the atoms of a 3- / 4-atom molecule to fragments given as index lists (all permutations x all compositions), plus invalid lists"""
    sts = []
    for n in (3, 4):
        perms = list(itertools.permutations(range(n)))
        if tier == "quick":
            perms = perms[::2] if n == 4 else perms
        for perm in perms:
            for cuts in itertools.product((0, 1), repeat=n - 1):
                frags, cur = [], [perm[0]]
                for k, cut in enumerate(cuts):
                    if cut:
                        frags.append(cur)
                        cur = []
                    cur.append(perm[k + 1])
                frags.append(cur)
                sts.append({"n": n, "frags": frags})
    sts += [{"n": 4, "frags": [[0, 1], [2, 4]], "invalid": True}, {"n": 4, "frags": [[0, 1], [1, 2]], "invalid": True}, {"n": 4, "frags": [[0, 1], [2]], "invalid": True}]
    return sts


@contract("C15", "O6.dmet.nested_fragment_reordering", level="S", structures=o6_structures, targets=[(DM, "DMETProblemDecomposition.__init__")])
def o6(h, st):
    """fragment_atoms given as index lists: after construction the k-th fragment consists of exactly the requested atoms - the working molecule lists the atoms in the
    order of the flattened index lists (same species and coordinates) and fragment_atoms holds the fragment sizes; ids out of range, repeated or not covering the
    molecule raise RuntimeError; the caller's lists are unchanged"""
    import numpy as np
    from tangelo import SecondQuantizedMolecule
    from tangelo.toolboxes.molecular_computation.integral_solver_pyscf import mol_to_pyscf
    n = st["n"]
    xyz = [("H", (0.0, 0.0, 0.0)), ("H", (0.1, 0.2, 0.8)), ("H", (1.3, 0.1, 1.0)), ("H", (1.5, -0.6, 2.1))][:n]
    mol = SecondQuantizedMolecule(xyz, 0 if n % 2 == 0 else 1, 0, basis="minao")
    ref = mol_to_pyscf(mol, mol.basis)._atom
    frags = [list(f) for f in st["frags"]]
    before = snapshot(frags)
    opts = {"molecule": mol, "fragment_atoms": frags, "fragment_solvers": "fci", "verbose": False}
    if st.get("invalid"):
        e = h.raises(lambda: h.call(DM, "DMETProblemDecomposition", opts), RuntimeError)
        h.check("inconsistent index lists are refused", e is not None)
        h.done()
        return
    d = h.call(DM, "DMETProblemDecomposition", opts)
    flat = [a for f in st["frags"] for a in f]
    got = d.molecule._atom
    h.check("fragment sizes", list(d.fragment_atoms) == [len(f) for f in st["frags"]], detail=str(d.fragment_atoms))
    h.check("number of atoms", len(got) == n)
    h.check("working molecule lists the atoms in the requested fragment order",
            all(got[k][0] == ref[a][0] and np.allclose(got[k][1], ref[a][1], atol=1e-10) for k, a in enumerate(flat)), detail=f"{got} vs {[ref[a] for a in flat]}")
    h.check("caller's index lists unchanged", snapshot(frags) == before)
    h.done()


PROPERTY = {
    "level": "other",
    "explanation": "Method-of-increments summation (all subsets up to the bound, symbolic energies and corrections), link-atom placement (symbolic coordinates and factor) and the "
                   "ONIOM energy arithmetic (opaque solvers with symbolic energies) are proved for every value; atom distribution and its frame on enumerated selections. "
                   "DMET (self-consistent PySCF / scipy root search) and ONIOM with real solvers are outside the verifier's reach: bounded native runs.",
    "bounds": {"quick": "increments: 1-4 centres (all 2^m - 1 subsets); links: 3 atom pairs x 3 species; ONIOM: 4 layouts; DMET: H4 ring, 4 single-atom fragments and one whole-molecule fragment (FCI)",
               "thorough": "5 centres; DMET: 6 configurations (2 localisations, 2 solvers, ring and chain)"},
    "assumptions": ["PySCF / scipy executed natively", "DMET identities checked to the optimiser tolerance only (1e-4 / 1e-5)", "chemical-group caps: scipy Rotation.align_vectors (bounded)"],
    "trusted_base": ["tverif AST interpreter", "tverif.ring", "z3", "pyscf", "scipy"],
}
